#!/usr/bin/env python3
"""Checker validation ("test the checker both ways"): every kept seeded change (seeded/*/patch.diff) and every re-introduced
defect (selftest/defects/D*.patch) is applied to a scratch copy of /repo outside /repo and /verif; the check of the property
it breaks must report a VIOLATION (and the unchanged tree must be silent).  Writes selftest/results.json and updates
seeded/*/meta.json `detected_by`.   usage: tools/selftest.py [--all-properties] [ids...]"""
import os, sys, json, subprocess, shutil, re, glob
V = os.path.dirname(os.path.dirname(os.path.abspath(__file__)))
S = "/tmp/tv-selftest"
DEFECTS = {"D1": "C01", "D2": "C02", "D3": "C03", "D4": "C12", "D5": "C13", "D7": "C06", "D8": "C06", "D9": "C08", "D11": "C09", "D13": "C07", "D14": "C07", "D17": "C01", "D18": "C05", "D19": "C02", "D20": "C02", "D21": "C12", "D22": "C12", "D23": "C16", "D24": "C16", "D25": "C13", "D26": "C13", "D27": "C13", "D28": "C15", "D29": "C20", "D30": "C20", "D31": "C04", "D34": "C19", "D35": "C17", "D37": "C18", "D38": "C18", "D39": "C10", "D40": "C10", "D42": "C02", "D44": "C18", "D45": "C18", "D46": "C18", "D47": "C06", "D48": "C06", "D49": "C06", "D50": "C16", "D52": "C19", "D53": "C12", "D54": "C09", "D55": "C17", "D57": "C10", "D58": "C10", "D59": "C10", "D60": "C04", "D61": "C14", "D63": "C15", "D65": "C05"}
allp = "--all-properties" in sys.argv
ids = [a for a in sys.argv[1:] if not a.startswith("--")]
items = []
for d in sorted(glob.glob(os.path.join(V, "seeded", "*"))):
    mid = os.path.basename(d)
    if os.path.exists(os.path.join(d, "patch.diff")):
        meta = json.load(open(os.path.join(d, "meta.json")))
        items.append((mid, os.path.join(d, "patch.diff"), meta["breaks_property"], os.path.join(d, "meta.json")))
for k, p in DEFECTS.items():
    items.append((k, os.path.join(V, "selftest", "defects", k + ".patch"), p, None))
if ids:
    items = [i for i in items if i[0] in ids]
props = sorted(f[:-3] for f in os.listdir(os.path.join(V, "rules")) if re.match(r"C\d\d\.py$", f))
results = {}
for mid, patch, prop, metap in items:
    if metap and json.load(open(metap)).get("stale_since"):
        print(mid, "STALE (skipped: written against an older tree, see meta.json)")
        continue
    shutil.rmtree(S, ignore_errors=True)
    os.makedirs(S + "/ev")
    subprocess.run(["rsync", "-a", "--exclude", "target", "--exclude", ".git", "/repo/", S + "/repo/"], check=True)
    r = subprocess.run(["patch", "-p1", "-s", "-i", patch], cwd=S + "/repo", stdout=subprocess.PIPE, stderr=subprocess.STDOUT, text=True)
    if r.returncode != 0:
        results[mid] = {"property": prop, "error": "patch does not apply: " + r.stdout[-300:]}
        print(mid, "PATCH-FAILED")
        continue
    env = dict(os.environ, VERIF_REPO=S + "/repo", VERIF_EVIDENCE_DIR=S + "/ev")
    det = {}
    for p in (props if allp else [prop]):
        r = subprocess.run([os.path.join(V, "bin", "check"), "--property", p], env=env, stdout=subprocess.PIPE, stderr=subprocess.STDOUT, text=True)
        keys = []
        if os.path.exists(f"{S}/ev/{p}.json"):
            ev = json.load(open(f"{S}/ev/{p}.json"))
            known = {k["key"] for k in json.load(open(os.path.join(V, "known_findings.json"))) if k.get("status") == "known"}
            keys = [s["key"] for s in ev["coverage"]["samples"] if s["verdict"] == "VIOLATION" and s["key"] not in known]
        det[p] = {"rc": r.returncode, "violations": keys}
    caught = det[prop]["rc"] == 1 and bool(det[prop]["violations"])
    results[mid] = {"property": prop, "caught_by_its_property_check": caught, "detections": {p: d["violations"] for p, d in det.items() if d["violations"]},
                    "rc": {p: d["rc"] for p, d in det.items()}}
    print(mid, prop, "CAUGHT" if caught else "MISSED", det[prop]["violations"][:3])
    if metap:
        meta = json.load(open(metap))
        meta["detected_by"] = results[mid]["detections"]
        json.dump(meta, open(metap, "w"), indent=1)
shutil.rmtree(S, ignore_errors=True)
out = os.path.join(V, "selftest", "results.json")
old = json.load(open(out)) if os.path.exists(out) and ids else {}
old.update(results)
json.dump(old, open(out, "w"), indent=1)
missed = [k for k, v in results.items() if not v.get("caught_by_its_property_check")]
print(f"selftest: {len(results) - len(missed)}/{len(results)} caught by the check of the property they break; missed: {missed}")
sys.exit(1 if missed else 0)
