#!/usr/bin/env python3
"""Regenerate the reference tables of the tree the rules were confirmed on:
  rules/known_fns.json    body id -> [input types, output type, fingerprint]   (helper inlining, function-rename aliasing)
  rules/known_fields.json adt -> [[field name, type string], ...]              (private-field-rename aliasing)
Run deliberately, on the unmodified /repo, after a `fix:` commit or when rules were re-confirmed; never at check time."""
import os, sys, json
V = os.path.dirname(os.path.dirname(os.path.abspath(__file__)))
sys.path.insert(0, V)
from engine import runner
from engine.analysis import facts

runner.ensure_driver()
key = runner.tree_key()
fns, fields = {}, {}
for cfg in runner.THOROUGH_CONFIGS:
    w = facts.load_dir(runner.extract(cfg, key), known=None)
    for bid, b in w.bodies.items():
        sig = facts._sig(w, bid)
        ent = [list(sig[0]), sig[1], facts._fingerprint(b)] if sig else [None, None, facts._fingerprint(b)]
        fns.setdefault(bid, ent)
    for aid, a in w.adts.items():
        if not a.get("local"):
            continue
        tys = w.tys[a["crate"]]
        for v in a["variants"]:
            k = aid if a["kind"] != "enum" else f"{aid}::{v['name']}"
            fields.setdefault(k, [[f["name"], tys[f["ty"]]["s"] if "ty" in f else None] for f in v["fields"]])
json.dump(fns, open(os.path.join(V, "rules", "known_fns.json"), "w"), indent=0, sort_keys=True)
json.dump(fields, open(os.path.join(V, "rules", "known_fields.json"), "w"), indent=0, sort_keys=True)
print(f"{len(fns)} bodies, {len(fields)} struct / variant field lists")
