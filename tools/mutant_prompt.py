#!/usr/bin/env python3
"""Print the prompt handed to a fresh sub-agent that seeds a property-breaking change.
Only the property's text is given - nothing about /verif's machinery."""
import json, sys
pid = sys.argv[1]
wt = sys.argv[2] if len(sys.argv) > 2 else f"/tmp/wt/{pid}"
p = next(json.loads(l) for l in open('/verif/properties.jsonl') if json.loads(l)['id'] == pid)
print(f"""You are helping to evaluate a verification tool by seeding realistic bugs. You have your own scratch git worktree of the Rust project tokio-rs/turmoil (a deterministic simulation framework: crates turmoil, turmoil-net, turmoil-fs, turmoil-io-uring) at {wt}. Work ONLY inside {wt} (never touch /repo or /verif, do not read /verif). The sandbox is offline: always pass --offline to cargo, and always set CARGO_TARGET_DIR={wt}/target so builds stay inside your worktree.

Here is a semantic property the project is supposed to satisfy:

  Title: {p['title']}
  Statement: {p['statement']}
  Quantified over: {p['quantifier']['text']}

Your task: produce TWO independent, realistic source changes ("mutant A" and "mutant B", at different sites / different mechanisms) to the library code under {wt}/crates/*/src that each BREAK this property, while
  (1) the workspace still compiles,
  (2) the existing pinned test suite still passes unchanged:  cd {wt} && CARGO_TARGET_DIR={wt}/target cargo test --workspace --no-fail-fast --offline   (all tests must pass; do not edit, delete or ignore existing tests),
  (3) the bug needs something specific to manifest - a particular interleaving, a crash/fault at a particular point, a multi-step sequence of operations, an unusual input or configuration, or two cooperating sites that each look fine alone - NOT something ordinary use would expose at once. Think of the kind of plausible mistake a maintainer could make in a refactor or a "small optimisation" (dropped guard, wrong branch order, a forgotten cleanup on an error/cancel path, an off-by-one in a bound, a swapped argument, a container swapped for another, an early return, etc.). Do not add obviously malicious code, cfg tricks, env-var switches, or special-casing of magic values.
  (4) for each mutant you write a demonstration: a NEW integration test file (e.g. {wt}/crates/<crate>/tests/demo_{pid.lower()}_a.rs, or a small program) that FAILS with the change applied and PASSES on the unmodified tree. Feature-gated parts of the project (features unstable-fs, unstable-io_uring, unstable-barriers of crate turmoil) may be used by the demonstration (run it with --features ...), the pinned suite in (2) runs without features.

Procedure: read the relevant code first, design the change, apply it, run (2), write and run the demo with and without the change (use `git stash`/`git diff > file`/`git apply` inside your worktree to switch). Keep each mutant minimal (a few lines).

Deliverables, written into {wt}/out/ (create it):
  {wt}/out/A/patch.diff   - `git diff` of library sources only for mutant A (must apply with `git apply` on a clean checkout of HEAD)
  {wt}/out/A/demo.rs      - the demonstration test file, plus in notes the exact path it must be copied to and the exact command to run it
  {wt}/out/A/notes.md     - what was changed, why it breaks the property, what is needed for it to manifest, the exact commands you ran and their observed results (suite passes with the patch; demo fails with the patch, passes without)
  and the same under {wt}/out/B/.
When finished, leave the worktree checked out CLEAN at HEAD (no patch applied; `git status` shows only untracked out/, target/ and Cargo.lock), and report a short summary of both mutants (files/functions touched, how they manifest). If after honest effort you can only produce one valid mutant, deliver one and say so.""")
