#!/usr/bin/env python3
"""Print the prompt handed to a fresh sub-agent that audits the UNMODIFIED tree for genuine violations of one property.
Only the property's text is given - nothing about /verif's machinery.  usage: audit_prompt.py Cxx [worktree]"""
import json, sys
pid = sys.argv[1]
wt = sys.argv[2] if len(sys.argv) > 2 else f"/tmp/wt3/{pid}"
p = next(json.loads(l) for l in open('/verif/properties.jsonl') if json.loads(l)['id'] == pid)
KNOWN = """Already known and not wanted again. REPAIRED in your checkout (do not re-report; a variant that still fails IS of interest):
  - turmoil-fs read_dir order from a std HashSet; turmoil::net FIN lost on a full receive queue; random link repair erasing an explicit one-way partition; TcpStream::connect leaking its table entry / port when refused or cancelled; turmoil-net abort of a SynReceived child leaking it; turmoil-net never re-acknowledging a retransmitted segment after a lost ACK; handshake retransmit attempts carried into the established connection;
  - due messages staged in a second per-destination link queue escaping hold() / Sim::links; UdpSocket::readable parking a datagram outside the bounded queue; sync_dir moving the durable entry of a cross-directory rename per side; sync_dir(d) flushing d's creation past a pending RemoveDir(d);
  - the filesystem / io_uring clock read outside the paused runtime; HostTimer's step instant never cleared; a FIN for a closed stream / after the read half was dropped answered with RST; abandoned connects counted against the listener backlog; a SYN for a socket pair still in the stream table panicking accept();
  - turmoil-net taking snd_wnd from stale reordered ACKs; MSS 0 looping forever; an orphaned (fd_closed) socket buffering new data; dropping a wildcard IPv4 listener resetting children of the IPv6 listener; poll_connect mapping CloseWait to refused; DNS handing a name the address of a host registered by literal address; a Panic barrier never told about its trigger; a Noop barrier yielding; a connector crashing after the SYN was answered leaving the peer hanging; Deliver(Duration::MAX) overflowing the fixture scheduler; a SYN reusing the 4-tuple of a Closed connection being swallowed; page_cache max_pages(0) spinning; AsyncCancel rewriting already posted completions; read_file ignoring a pending SetLen; dir_has_children ignoring a pending Rename into the directory.
STILL PRESENT, recorded (do not report again):
  - turmoil-net zero-window stall (no persist timer; poll_recv re-advertises only for reads >= recv_buf_cap/2); no TIME-WAIT (a retransmitted FIN after Closed is ignored / answered with RST); a lost RST strands an orphaned FIN_WAIT2 socket; SYN / SYN-ACK advertise a hard-coded 65535 window; a wildcard listener over-admits on a multi-homed host; a lingering FIN_WAIT2 binding blocks bind; Latency::fixed(>= 9 ms) makes every turmoil-net connect time out;
  - the turmoil::net TCP SYN-ACK is a oneshot fired by accept() and bypasses the link (hold / latency / partition); stream-table entries keyed by SocketPair only (stale handle / stale FIN or RST of a previous connection hits the next one with the same pair); a peer blocked in write is not woken by a RST; an established turmoil::net stream never recovers from a segment dropped by a partition; a FIN dropped by a partition leaves a stale server socket;
  - multicast members are snapshotted at send time; the multicast-loop flag is read from the destination port's socket; IPv4 broadcast is fanned out to IPv6 hosts;
  - turmoil-fs keys pending data ops and durable entries by path string (data sync while a rename is pending, re-created files inheriting old contents, children of a renamed directory stranded, entries of a removed directory resurrecting, rename(p, p), rename of a directory into its own subtree, hard links / symlinks of renamed files); files / rings of a crashed incarnation are never closed;
  - ticks that are not whole milliseconds make tokio clocks run ahead of virtual time; step() returning a software error advances only some clocks; a client registered after the duration was exceeded still lets run() return Ok;
  - rule ids of turmoil-net restart per Net (a RuleGuard kept from an earlier Net removes a rule of the next); a RuleGuard dropped inside a rule panics on the RefCell; the io_uring ring ignores the fd's access mode; a mid-step submission is back-dated to the step start; fsync ignores io_error_probability."""
print(f"""You are auditing the Rust project tokio-rs/turmoil (a deterministic simulation framework: crates turmoil, turmoil-net, turmoil-fs, turmoil-io-uring) for GENUINE defects. You have your own scratch git worktree at {wt}. Work ONLY inside {wt} (never touch /repo or /verif, do not read /verif). The sandbox is offline: always pass --offline to cargo, and always set CARGO_TARGET_DIR={wt}/target so builds stay inside your worktree. Do not modify library sources (crates/*/src) except temporarily to try a candidate repair.

Here is a semantic property the project is supposed to satisfy:

  Title: {p['title']}
  Statement: {p['statement']}
  Quantified over: {p['quantifier']['text']}
  Why the existing tests cannot settle it: {p['why_tests_cant']}

Your task: find inputs / schedules / operation histories / fault sequences, within what the property quantifies over, for which the UNMODIFIED code violates the statement. Read the code the property is about carefully (look at edge cases the statement singles out: boundaries, wrap-around, ordering under equal keys, error / cancellation / crash paths, configuration extremes, feature-gated paths), form concrete hypotheses, and TEST each one by writing a new integration test (e.g. {wt}/crates/<crate>/tests/audit_{pid.lower()}_<n>.rs; features unstable-fs, unstable-io_uring, unstable-barriers, regex of crate turmoil may be enabled with --features) that asserts what the statement promises. A finding counts only if its test FAILS on the unmodified tree for the reason you predicted, and the scenario is inside the property's own quantifier / fault model (say which clause of the statement it contradicts). Do not report API misuse, panics the documentation promises, behaviour the statement explicitly excludes, or performance. It is fine - and useful to know - if after honest effort you find nothing: then list the hypotheses you tested and that held.

{KNOWN}

For each finding, also judge whether a small, safe repair exists (a few lines a maintainer would accept, which does not remove behaviour); if so, try it: apply it, check that your audit test passes and that the pinned suite still passes unchanged ( cd {wt} && CARGO_TARGET_DIR={wt}/target cargo test --workspace --no-fail-fast --offline ), save it as a diff, and revert it.

Deliverables, written into {wt}/out/ (create it):
  {wt}/out/F<n>/test.rs     - the failing test (+ in notes: destination path and exact command)
  {wt}/out/F<n>/notes.md    - the scenario, the clause contradicted, the observed failure output, the root cause (file / function / lines), and your judgement on a repair
  {wt}/out/F<n>/repair.diff - optional candidate repair (git diff of library sources), with the results of the audit test and the pinned suite under it
  {wt}/out/held.md          - hypotheses you tested that held (one line each, with the test you used)
When finished, leave the worktree checked out CLEAN at HEAD (git status shows only untracked out/, target/, Cargo.lock) and report a short summary: each finding in two or three sentences, then the list of hypotheses that held.""")
