#!/usr/bin/env python3
"""Print the prompt handed to a fresh sub-agent that audits the UNMODIFIED tree for genuine violations of one property.
Only the property's text is given - nothing about /verif's machinery.  usage: audit_prompt.py Cxx [worktree]"""
import json, sys
pid = sys.argv[1]
wt = sys.argv[2] if len(sys.argv) > 2 else f"/tmp/wt3/{pid}"
p = next(json.loads(l) for l in open('/verif/properties.jsonl') if json.loads(l)['id'] == pid)
KNOWN = """Already known and not wanted again (all but the last are repaired in your checkout):
  - turmoil-fs read_dir order came from a std HashSet; turmoil::net FIN lost on a full receive queue; random link repair erased an explicit one-way partition; turmoil::net TcpStream::connect leaked its table entry / port when refused or cancelled; turmoil-net abort of a SynReceived child leaked it; turmoil-net never re-acknowledged a retransmitted segment after a lost ACK; turmoil-net carried handshake retransmit attempts into the established connection;
  - also repaired: due messages staged in a second per-destination link queue escaped hold() / Sim::links; UdpSocket::readable parked a datagram outside the bounded queue (capacity + 1); sync_dir moved the durable entry of a cross-directory rename per side; sync_dir(d) flushed d's creation past a pending RemoveDir(d);
  - also repaired: the filesystem / io_uring clock read outside the paused runtime (wall-clock leak); HostTimer's step instant never cleared (destructors on crash / bounce); a FIN for a closed stream / after the read half was dropped answered with RST; abandoned connects counted against the listener backlog; a SYN for a socket pair still in the stream table panicking accept();
  - reported and being triaged (do not report again): turmoil::net stream table keyed by SocketPair only (a stale handle of a reset stream acts on a newer stream with the same pair; stale FIN/RST of a previous connection hit the next one); DNS hands a name the address of a host registered by literal address; turmoil-net takes snd_wnd from stale reordered ACKs, advertises a hard-coded 65535 window in SYN / SYN-ACK, and loops forever when the MSS is 0; a connector that crashes after the peer accepted leaves the peer's read hanging; a peer blocked in write is not woken by a RST; an established turmoil::net TCP stream never recovers from a segment dropped by a partition;
  - still present, recorded (do not report again): turmoil-net zero-window stall (no persist timer; poll_recv re-advertises only for reads >= recv_buf_cap/2); the turmoil::net TCP SYN-ACK is a oneshot fired by accept() and bypasses the link (hold / latency); multicast members are snapshotted at send time (a copy in flight reaches a socket that left / never joined); turmoil-fs keys pending data ops and durable entries by path string (data sync while a rename is pending, re-created files inheriting old contents, children of a renamed directory stranded, entries of a removed directory resurrecting); ticks that are not whole milliseconds make tokio clocks run ahead of virtual time; multicast-loop flag read from the destination port's socket; IPv4 broadcast fanned out to IPv6 hosts."""
print(f"""You are auditing the Rust project tokio-rs/turmoil (a deterministic simulation framework: crates turmoil, turmoil-net, turmoil-fs, turmoil-io-uring) for GENUINE defects. You have your own scratch git worktree at {wt}. Work ONLY inside {wt} (never touch /repo or /verif, do not read /verif). The sandbox is offline: always pass --offline to cargo, and always set CARGO_TARGET_DIR={wt}/target so builds stay inside your worktree. Do not modify library sources (crates/*/src) except temporarily to try a candidate repair.

Here is a semantic property the project is supposed to satisfy:

  Title: {p['title']}
  Statement: {p['statement']}
  Quantified over: {p['quantifier']['text']}
  Why the existing tests cannot settle it: {p['why_tests_cant']}

Your task: find inputs / schedules / operation histories / fault sequences, within what the property quantifies over, for which the UNMODIFIED code violates the statement. Read the code the property is about carefully (look at edge cases the statement singles out: boundaries, wrap-around, ordering under equal keys, error / cancellation / crash paths, configuration extremes, feature-gated paths), form concrete hypotheses, and TEST each one by writing a new integration test (e.g. {wt}/crates/<crate>/tests/audit_{pid.lower()}_<n>.rs; features unstable-fs, unstable-io_uring, unstable-barriers, regex of crate turmoil may be enabled with --features) that asserts what the statement promises. A finding counts only if its test FAILS on the unmodified tree for the reason you predicted, and the scenario is inside the property's own quantifier / fault model (say which clause of the statement it contradicts). Do not report API misuse, panics the documentation promises, behaviour the statement explicitly excludes, or performance. It is fine - and useful to know - if after honest effort you find nothing: then list the hypotheses you tested and that held.

{KNOWN}

For each finding, also judge whether a small, safe repair exists (a few lines a maintainer would accept, which does not remove behaviour); if so, try it: apply it, check that your audit test passes and that the pinned suite still passes unchanged ( cd {wt} && CARGO_TARGET_DIR={wt}/target cargo test --workspace --no-fail-fast --offline ), save it as a diff, and revert it.

Deliverables, written into {wt}/out/ (create it):
  {wt}/out/F<n>/test.rs     - the failing test (+ in notes: destination path and exact command)
  {wt}/out/F<n>/notes.md    - the scenario, the clause contradicted, the observed failure output, the root cause (file / function / lines), and your judgement on a repair
  {wt}/out/F<n>/repair.diff - optional candidate repair (git diff of library sources), with the results of the audit test and the pinned suite under it
  {wt}/out/held.md          - hypotheses you tested that held (one line each, with the test you used)
When finished, leave the worktree checked out CLEAN at HEAD (git status shows only untracked out/, target/, Cargo.lock) and report a short summary: each finding in two or three sentences, then the list of hypotheses that held.""")
