#!/usr/bin/env python3
"""(Re)generate /verif/MANIFEST.json from the rule modules that exist (rules/Cxx.py) and tools/manifest_meta.py."""
import json, os, sys, importlib
ROOT = os.path.join(os.path.dirname(os.path.abspath(__file__)), "..")
sys.path.insert(0, ROOT)
sys.path.insert(0, os.path.dirname(os.path.abspath(__file__)))
import manifest_meta as mm
props = [json.loads(l) for l in open(os.path.join(ROOT, "properties.jsonl"))]
checks, na = [], []
for p in props:
    pid = p["id"]
    if pid in mm.NOT_APPLICABLE:
        na.append({"property_id": pid, "reason": mm.NOT_APPLICABLE[pid]})
        continue
    if not os.path.exists(os.path.join(ROOT, "rules", f"{pid}.py")):
        na.append({"property_id": pid, "reason": "no static rule armed for this property in this revision of /verif (work in progress; see DESIGN.md section 4 for the planned rules)"})
        continue
    mod = importlib.import_module(f"rules.{pid}")
    checks.append({
        "property_id": pid,
        "quick_cmd": f"bin/check --property {pid} --tier quick",
        "thorough_cmd": f"bin/check --property {pid} --tier thorough",
        "evidence_file": f"/verif/evidence/{pid}.json",
        "replay_cmd_template": "bin/check --replay {path}",
        "engine": "tv-static",
        "technique": mm.TECHNIQUE.get(pid, "static analysis of resolved MIR: repository-specific dataflow / path / who-may rules"),
        "level_claimed": {
            "category": "other",
            "text": ("Static analysis (no execution): the named structural clauses are decided for every path of the current source, "
                     "each a necessary condition of the property in this code base; the run-time behaviour as a whole is not decided. "
                     "Decided: " + mod.DECIDED),
            "design_ref": f"DESIGN.md section 4, {pid}",
        },
        "level_note": ("Trusted: rustc type checking / MIR construction / Instance resolution, the tv-extract driver, documented contracts of "
                       "dependencies (tokio, rand, indexmap, bytes, scoped-tls). Not decided: " + mod.NOT_DECIDED),
    })
m = {
    "version": 1,
    "setup_cmd": "cd /verif/engine/extract && CARGO_NET_OFFLINE=true cargo +nightly build --offline --release",
    "hooks": {
        "guard": "turmoil_verif",
        "enable": "none needed: the checks analyse the unmodified sources (cargo +nightly check through a rustc_private driver); no instrumentation is compiled in",
        "baseline_off_cmd": "cd /repo && cargo test --workspace --no-fail-fast --offline",
        "source_commits": [],
        "add_only": True,
    },
    "engines": [
        {"name": "tv-static", "path": "/verif/engine", "serves_properties": [c["property_id"] for c in checks],
         "kind_free_text": "rustc_private MIR fact extractor (engine/extract) + Python dataflow/typestate/obligation/path analyses (engine/analysis) + per-property rule tables (rules/)"},
    ],
    "checks": checks,
    "not_applicable": na,
    "notes": "Technique family: static analysis only. Genuine defects found and repaired are recorded in /verif/known_findings.json (status fixed); see DESIGN.md section 5.",
}
json.dump(m, open(os.path.join(ROOT, "MANIFEST.json"), "w"), indent=1)
print("checks:", [c["property_id"] for c in checks], "n/a:", [n["property_id"] for n in na])
