#!/usr/bin/env python3
"""Confirm a sub-agent's seeded change myself, in its scratch worktree, and keep it under /verif/seeded/<id>/ if
 (1) the demo passes on the clean tree, (2) fails with the patch, (3) the pinned workspace suite passes with the patch.
usage: confirm_mutant.py Cxx A|B [--wt /tmp/wt/Cxx]"""
import sys, os, re, json, subprocess, shutil, time

prop, var = sys.argv[1], sys.argv[2]
wt = f"/tmp/wt/{prop}"
if "--wt" in sys.argv:
    wt = sys.argv[sys.argv.index("--wt") + 1]
src = f"{wt}/out/{var}"
notes = open(f"{src}/notes.md").read()
m = re.search(r"crates/[a-z-]+/tests/demo_[a-z0-9_]+\.rs", notes)
if not m:
    print("cannot find demo destination in notes"); sys.exit(2)
dest = m.group(0)
if "--args" in sys.argv:
    args = sys.argv[sys.argv.index("--args") + 1].split()
else:
    m2 = re.search(r"cargo test ([^`\n]*--test demo_[a-z0-9_]+[^`\n]*)", notes.replace("\\\n", " "))
    if not m2:
        print("cannot find demo command in notes"); sys.exit(2)
    args = m2.group(1).strip().rstrip(".").split()
args = [a for a in args if not a.startswith("2>") and a not in ("|", "tail", "&&")]
env = dict(os.environ, CARGO_TARGET_DIR=f"{wt}/target", CARGO_NET_OFFLINE="true")


def run(cmd, timeout=1800):
    t0 = time.time()
    try:
        r = subprocess.run(cmd, cwd=wt, env=env, stdout=subprocess.PIPE, stderr=subprocess.STDOUT, text=True, timeout=timeout)
        return r.returncode, r.stdout, round(time.time() - t0, 1)
    except subprocess.TimeoutExpired as e:
        return 124, (e.stdout or "") + "\nTIMEOUT", round(time.time() - t0, 1)


def sh(cmd):
    return subprocess.run(cmd, cwd=wt, shell=True, stdout=subprocess.PIPE, stderr=subprocess.STDOUT, text=True)

st = sh("git status --porcelain --untracked-files=no").stdout.strip()
if st:
    print("worktree not clean:", st); sh("git checkout -- .")
shutil.copy(f"{src}/demo.rs", f"{wt}/{dest}")
demo_cmd = ["cargo", "test"] + args
if "--offline" not in demo_cmd:
    demo_cmd.append("--offline")
res = {"property": prop, "variant": var, "demo_dest": dest, "demo_cmd": " ".join(demo_cmd)}
rc0, out0, t0 = run(demo_cmd)
res["demo_clean_rc"] = rc0
ap = sh(f"git apply {src}/patch.diff")
if ap.returncode != 0:
    print("patch does not apply:", ap.stdout); os.remove(f"{wt}/{dest}"); sys.exit(2)
rc1, out1, t1 = run(demo_cmd)
res["demo_patched_rc"] = rc1
os.remove(f"{wt}/{dest}")
suite_cmd = ["cargo", "test", "--workspace", "--no-fail-fast", "--offline"]
rc2, out2, t2 = run(suite_cmd, timeout=3000)
res["suite_patched_rc"] = rc2
passed = sum(int(x) for x in re.findall(r"test result: \w+\. (\d+) passed", out2))
failed = sum(int(x) for x in re.findall(r"test result: \w+\. \d+ passed; (\d+) failed", out2))
res["suite_passed"], res["suite_failed"] = passed, failed
sh("git checkout -- .")
ok = rc0 == 0 and rc1 != 0 and rc2 == 0 and failed == 0
res["confirmed"] = ok
res["what_i_ran"] = [f"{' '.join(demo_cmd)}  # clean tree -> rc {rc0} ({t0}s)",
                     f"git apply patch.diff; {' '.join(demo_cmd)}  # -> rc {rc1} ({t1}s)",
                     f"{' '.join(suite_cmd)}  # with patch -> rc {rc2}, {passed} passed, {failed} failed ({t2}s)"]
fail_lines = [l for l in out1.splitlines() if re.search(r"panicked at|^test .* FAILED|assertion", l)][:6]
res["demo_failure_excerpt"] = fail_lines
print(json.dumps(res, indent=1))
if ok:
    tag = sys.argv[sys.argv.index("--tag") + 1] if "--tag" in sys.argv else ""
    d = f"/verif/seeded/{prop}{tag}{var}"
    os.makedirs(d, exist_ok=True)
    shutil.copy(f"{src}/patch.diff", f"{d}/patch.diff")
    shutil.copy(f"{src}/demo.rs", f"{d}/demo.rs")
    shutil.copy(f"{src}/notes.md", f"{d}/agent_notes.md")
    # what it needs to manifest: take the agent's own words (first "Needs"/"Trigger" paragraph)
    needs = ""
    mm = re.search(r"(?is)(needs?|trigger|what (is|it) needs?|manifest)[^\n]*\n(.{0,900})", notes)
    if mm:
        needs = mm.group(0)[:900]
    meta = {"id": f"{prop}{tag}{var}", "breaks_property": prop, "needs_to_manifest": needs,
            "demo_dest": dest, "demo_cmd": " ".join(demo_cmd), "confirmed_by_me": res["what_i_ran"],
            "demo_failure_excerpt": fail_lines, "base_commit": sh("git rev-parse HEAD").stdout.strip(),
            "detected_by": None}
    json.dump(meta, open(f"{d}/meta.json", "w"), indent=1)
sys.exit(0 if ok else 1)
