NOT_APPLICABLE = {
    "C10": ("functional equivalence of a log-replay interpreter (pending ops overlaid on persisted maps) with a reference POSIX tree "
            "for all histories: its truth lives in string/offset arithmetic and in the order-dependent meaning of the log, not in the "
            "shape of the code; no pairing, ownership, exhaustiveness or typestate clause is a necessary condition of it, so no sound "
            "static rule within reach decides any part of it (DESIGN.md section 6)"),
}
TECHNIQUE = {
    "C01": "absence / who-may-call rules over resolved MIR (RandomState collections, entropy sources, globals), runtime-builder configuration and RNG provenance slicing; clippy cross-reference and a !Send compile-fail witness in the thorough tier",
    "C02": "dominance (credit / shutdown guards), per-path release counts, queue-vs-credit sizing inequality, type facts (not Clone) over resolved MIR; compile-fail witnesses in the thorough tier",
    "C03": "enum-typestate dataflow extracting the link-state transition relation, context-sensitive walk from the random process, must-purge path rule, sibling selector agreement",
    "C04": "crash-sequence dominance and must-call summaries, RAII pairing table over Drop impls, obligation dataflow on connect (cancellation edges), replace-provenance of runtime and LocalSet",
    "C05": "loop-domain (partition component) and per-iteration path counts, provenance of every clock-advance argument, sum-shape checks of the timer accessors, sibling call-site agreement",
    "C06": "dominance of buffer growth / trim by sequence-number guards, provenance of the rcv_nxt advance, must-act path rule in the retransmit sweep, abort-before-park dominance, wake-flag path rule, sibling state-set agreement",
    "C07": "who-may-write tables on durable state and the pending log, durability classes extracted from partition closures, per-arm synced_entries updates with independence of the rename halves, crash must-clear path rule",
    "C08": "who-may-write / who-may-call on message status and release, typestate at queue purges, dominance of removal by maturity guards, order-preserving operation table, type facts; witnesses in the thorough tier",
    "C09": "receive-filter dominance, payload provenance, who-may-write on the membership table, drop-key provenance, fill-only-when-empty dominance on the readiness slot",
    "C11": "result-consumption (no dropped Result), dominance of completion folding and deadline ordering, loop-domain and take-before-await rules, constructor / store provenance for panic forwarding",
    "C12": "FIFO operation table, bind-match dominance, obligation dataflow (acquire / release / guard / discharge) over return, `?` and Yield cancellation edges, pair-order provenance",
    "C13": "enum-typestate dataflow over Tcb::state with per-path transitions, index who-may-write, shim-side obligation dataflow, wildcard-awareness dominance, sibling state-set agreement",
    "C14": "clamp-shape and provenance of the delay, config-selection sibling agreement, link-clock who-may-write and must-update path rule, FIFO table (shared)",
    "C15": "allocation-return dominance by both in-use predicates, predicate field reads, Occupied/Vacant sibling shape, RAII release rules, name-table who-may-write, address bit-tiling",
    "C16": "bounded-write provenance (min / saturating_sub against the cap), MSS and window provenance of emitted payloads, MTU guard dominance incl. caller-side variant, window-refresh must rule",
    "C17": "bind ordering dominance and three-way conflict shape, index-consistency must rule, allocator predicate fields and exhaustion operands, demux precedence dominance, routing who-may-call",
    "C18": "per-entry path counts in submit, found-implies-removed dominance in cancel, maturity-guard dominance, sibling comparison of Fs primitives and knobs with the synchronous shim, notify-after-push must rule",
    "C19": "who-may-mutate table on the rule chain, first-non-Pass loop shape, loopback dominance, verdict-routing reachability, ordered-insert search-key provenance, guard Drop rule; !Send witness in the thorough tier",
    "C20": "registry who-may-mutate table and first-match loop shape, per-path report counts, reaction-arm reachability (diverge / release / hand-over), Drop rules",
}
