NOT_APPLICABLE = {
    "C10": ("functional equivalence of a log-replay interpreter (pending ops overlaid on persisted maps) with a reference POSIX tree "
            "for all histories: its truth lives in string/offset arithmetic and in the order-dependent meaning of the log, not in the "
            "shape of the code; no pairing, ownership, exhaustiveness or typestate clause is a necessary condition of it, so no sound "
            "static rule within reach decides any part of it (DESIGN.md section 6)"),
}
TECHNIQUE = {
    "C01": "absence / who-may-call rules over resolved MIR (RandomState collections, entropy sources, globals), runtime-builder configuration and RNG provenance slicing",
}
