#!/bin/bash
# usage: tools/try_patch.sh <patch-file> <property>...   - run checks against a scratch copy of /repo with the patch applied
set -e
PATCH=$(readlink -f "$1"); shift
S=/tmp/tv-scratch
rm -rf $S; mkdir -p $S/ev
rsync -a --exclude target --exclude .git /repo/ $S/repo/
( cd $S/repo && patch -p1 -s < "$PATCH" )
rc=0
for p in "$@"; do
  VERIF_REPO=$S/repo VERIF_EVIDENCE_DIR=$S/ev /verif/bin/check --property $p 2>&1 | grep -v "^WARNING conda" || true
done
rm -rf $S
