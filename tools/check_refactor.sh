#!/bin/bash
# usage: tools/check_refactor.sh <diff>   - run every quick check against a scratch copy with a (behaviour-preserving) diff applied;
# any VIOLATION is a false alarm to be analysed
set -e
PATCH=$(readlink -f "$1")
S=/tmp/tv-refactor
rm -rf $S; mkdir -p $S/ev
rsync -a --exclude target --exclude .git /repo/ $S/repo/
( cd $S/repo && patch -p1 -s < "$PATCH" )
VERIF_REPO=$S/repo VERIF_EVIDENCE_DIR=$S/ev /verif/bin/check --all 2>&1 | grep -v "^WARNING conda" | grep -B1 "VIOLATION" | grep -v "^--" | cut -c1-300 || true
VERIF_REPO=$S/repo VERIF_EVIDENCE_DIR=$S/ev /verif/bin/check --all 2>&1 | grep "^\[C" | grep -v "violations=0" || echo "ALL-QUIET"
rm -rf $S
