#!/usr/bin/env python3
"""False-alarm regression: every behaviour-preserving refactoring in selftest/refactors/*.diff (produced by sub-agents, each
verified by them against the project's tests) is applied to a scratch copy; every quick check must stay silent.
usage: tools/refactor_suite.py [names...]   -> selftest/refactor_results.json"""
import os, sys, json, subprocess, shutil, glob, re
V = os.path.dirname(os.path.dirname(os.path.abspath(__file__)))
S = f"/tmp/tv-refsuite-{os.getpid()}"
names = sys.argv[1:]
diffs = sorted(glob.glob(os.path.join(V, "selftest", "refactors", "*.diff")))
if names:
    diffs = [d for d in diffs if os.path.basename(d)[:-5] in names]
props = sorted(f[:-3] for f in os.listdir(os.path.join(V, "rules")) if re.match(r"C\d\d\.py$", f))
if os.environ.get("REF_PROPS"):   # only the properties whose rules changed since the last full run
    props = [p for p in props if p in os.environ["REF_PROPS"].split(",")]
res = {}
for d in diffs:
    name = os.path.basename(d)[:-5]
    shutil.rmtree(S, ignore_errors=True)
    os.makedirs(S + "/ev")
    subprocess.run(["rsync", "-a", "--exclude", "target", "--exclude", ".git", "/repo/", S + "/repo/"], check=True)
    r = subprocess.run(["patch", "-p1", "-s", "-i", d], cwd=S + "/repo", stdout=subprocess.PIPE, stderr=subprocess.STDOUT, text=True)
    if r.returncode != 0:
        res[name] = {"error": "patch failed"}
        print(name, "PATCH-FAILED")
        continue
    env = dict(os.environ, VERIF_REPO=S + "/repo", VERIF_EVIDENCE_DIR=S + "/ev")
    alarms = {}
    for p in props:
        r = subprocess.run([os.path.join(V, "bin", "check"), "--property", p], env=env, stdout=subprocess.PIPE, stderr=subprocess.STDOUT, text=True)
        if r.returncode == 2:
            alarms[p] = ["EXTRACTION-FAILED"]
            break
        if r.returncode != 0 and not os.path.exists(f"{S}/ev/{p}.json"):
            # the check itself failed (e.g. its fact cache was evicted by a concurrent run): once more
            r = subprocess.run([os.path.join(V, "bin", "check"), "--property", p], env=env, stdout=subprocess.PIPE, stderr=subprocess.STDOUT, text=True)
            if r.returncode != 0 and not os.path.exists(f"{S}/ev/{p}.json"):
                alarms[p] = ["CHECK-ERROR " + r.stdout[-300:]]
                continue
        if r.returncode != 0:
            ev = json.load(open(f"{S}/ev/{p}.json"))
            alarms[p] = [s["key"] + " :: " + s["what"][:160] for s in ev["coverage"]["samples"] if s["verdict"] == "VIOLATION"]
    res[name] = {"false_alarms": alarms}
    print(name, "QUIET" if not alarms else "FALSE-ALARM " + json.dumps(alarms)[:600])
shutil.rmtree(S, ignore_errors=True)
out = os.path.join(V, "selftest", "refactor_results.json")
import fcntl
with open(out + ".lock", "w") as lk:
    # several shards (disjoint name lists) may finish at the same time
    fcntl.flock(lk, fcntl.LOCK_EX)
    old = json.load(open(out)) if os.path.exists(out) and names else {}
    old.update(res)
    json.dump(old, open(out, "w"), indent=1)
bad = [k for k, v in res.items() if v.get("false_alarms") or v.get("error")]
print(f"refactor suite: {len(res) - len(bad)}/{len(res)} quiet; noisy: {bad}")
