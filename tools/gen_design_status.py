#!/usr/bin/env python3
"""Rewrite the status column of the summary table in DESIGN.md section 0 from known_findings.json."""
import json, os, re
V = os.path.dirname(os.path.dirname(os.path.abspath(__file__)))
kf = json.load(open(os.path.join(V, "known_findings.json")))
by = {}
for e in kf:
    i = re.match(r"D\d+", e.get("id") or "")
    if not i:
        continue
    by.setdefault(e["property"], {}).setdefault(e["status"], [])
    tag = i.group(0) + (f" `{e['commit']}`" if e["status"] == "fixed" else "")
    if tag not in by[e["property"]][e["status"]]:
        by[e["property"]][e["status"]].append(tag)
p = os.path.join(V, "DESIGN.md")
lines = open(p).read().split("\n")
for n, l in enumerate(lines):
    m = re.match(r"^\| (C\d\d) \| ", l)
    if not m or l.count("|") < 5:
        continue
    cells = l.split(" | ")
    pid = m.group(1)
    base = "claimed (structural clauses only)" if pid == "C10" else "claimed (part)"
    parts = []
    fx, kn = by.get(pid, {}).get("fixed", []), by.get(pid, {}).get("known", [])
    if fx:
        parts.append("fixed: " + ", ".join(f"**{x.split(' ')[0]}** {x.split(' ')[1]}" for x in fx))
    if kn:
        parts.append("recorded: " + ", ".join(f"**{x}**" for x in kn))
    cells[-1] = base + (" - " + "; ".join(parts) if parts else "") + " |"
    lines[n] = " | ".join(cells)
open(p, "w").write("\n".join(lines))
print("status column rewritten")
