#!/usr/bin/env python3
"""Regenerate the generated parts of DESIGN.md (between <!-- BEGIN:x --> / <!-- END:x --> markers) from the checker itself:
rule catalogue (evidence/*.json: rule docs, instance counts, floors), seeded-change table (seeded/*/meta.json, selftest/results.json)."""
import json, os, re, glob, importlib, sys
V = os.path.dirname(os.path.dirname(os.path.abspath(__file__)))
sys.path.insert(0, V)
props = [json.loads(l) for l in open(os.path.join(V, "properties.jsonl"))]
out = []
for p in props:
    pid = p["id"]
    evp = os.path.join(V, "evidence", f"{pid}.json")
    if not os.path.exists(evp):
        continue
    ev = json.load(open(evp))
    mod = importlib.import_module(f"rules.{pid}")
    out.append(f"### {pid} - {p['title']}\n")
    out.append(f"**Decided.** {mod.DECIDED}\n")
    out.append(f"**Not decided.** {mod.NOT_DECIDED}\n")
    out.append("| rule | what the instance check is | instances | floor |")
    out.append("|------|----------------------------|-----------|-------|")
    for r in ev["coverage"]["rules"]:
        doc = (r.get("decides") or "").replace("|", "\\|")
        out.append(f"| {r['rule']} | {doc} | {r['instances']} | {r['floor'] if r['floor'] is not None else '-'} |")
    out.append("")
cat = "\n".join(out)

rows = []
res = json.load(open(os.path.join(V, "selftest", "results.json"))) if os.path.exists(os.path.join(V, "selftest", "results.json")) else {}
first = json.load(open(os.path.join(V, "selftest", "first_try.json"))) if os.path.exists(os.path.join(V, "selftest", "first_try.json")) else {}
for d in sorted(glob.glob(os.path.join(V, "seeded", "*"))):
    mid = os.path.basename(d)
    mp = os.path.join(d, "meta.json")
    if not os.path.exists(mp):
        continue
    m = json.load(open(mp))
    det = m.get("detected_by") or {}
    keys = []
    for pp, ks in det.items():
        keys += ks
    rules = sorted({k.split(":")[0] for k in keys})
    ft = first.get(mid, {})
    rows.append(f"| {mid} | {m['breaks_property']} | {ft.get('site', '')} | {ft.get('what', '')} | {', '.join(rules) or 'MISSED'} | {ft.get('when', '')} |")
tab = "| id | property | site | change | reported by | rule existed before the change was seen? |\n|----|----------|------|--------|-------------|------|\n" + "\n".join(rows)

kf = json.load(open(os.path.join(V, "known_findings.json")))
drows = []
def _num(i):
    m_ = re.match(r"D(\d+)", i or "")
    return int(m_.group(1)) if m_ else 0
for e in sorted(kf, key=lambda e: (_num(e.get("id")), e.get("id") or "")):
    if _num(e.get("id")) < 17:
        continue
    disp = f"**fixed** `{e['commit']}`" if e["status"] == "fixed" else "**recorded** (known finding)"
    demo = (e.get("demonstration") or "").split(" (")[0]
    what = e["what"].replace("|", "\\|")
    extra = f" *Not repaired:* {e['why_not_repaired']}" if e.get("why_not_repaired") else ""
    drows.append(f"| {e['id']} | {e['property']} | {what}{extra} | `{e['key']}` | {disp} | `{demo}` |")
dtab = "| id | property | what fails | reported as | disposition | demonstration |\n|----|----------|------------|-------------|-------------|---------------|\n" + "\n".join(drows)

p = os.path.join(V, "DESIGN.md")
s = open(p).read()
for name, body in (("catalogue", cat), ("seeded", tab), ("defects2", dtab)):
    a, b = f"<!-- BEGIN:{name} -->", f"<!-- END:{name} -->"
    if a in s and b in s:
        s = s[:s.index(a) + len(a)] + "\n" + body + "\n" + s[s.index(b):]
open(p, "w").write(s)
print("DESIGN.md regenerated:", len(rows), "seeded rows")
