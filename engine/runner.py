"""Extraction driver, fact cache, rule context, verdicts and evidence (engines E1 glue + E4)."""
import os, sys, json, time, hashlib, subprocess, shutil, fcntl, glob, tomllib, importlib

VERIF = os.path.dirname(os.path.dirname(os.path.abspath(__file__)))
REPO = os.environ.get("VERIF_REPO", "/repo")
WORK = os.environ.get("VERIF_WORK", os.path.join(VERIF, ".work"))
EVID = os.environ.get("VERIF_EVIDENCE_DIR", os.path.join(VERIF, "evidence"))
DRIVER_DIR = os.path.join(VERIF, "engine", "extract")
DRIVER = os.path.join(DRIVER_DIR, "target", "release", "tv-extract")
CRATES = ["turmoil", "turmoil_net", "turmoil_fs", "turmoil_io_uring"]
PKGS = ["turmoil", "turmoil-net", "turmoil-fs", "turmoil-io-uring"]

# feature configurations of crate `turmoil` (the other three crates have no switches that matter,
# turmoil-io-uring/fs is implied by turmoil/unstable-io_uring)
CONFIGS = {
    "all": ["unstable-fs", "unstable-io_uring", "unstable-barriers", "regex"],
    "none": [],
    "regex": ["regex"],
    "fs": ["unstable-fs"],
    "fs_iou": ["unstable-fs", "unstable-io_uring"],
    "barriers": ["unstable-barriers"],
}
QUICK_CONFIGS = ["all"]
THOROUGH_CONFIGS = ["all", "none", "regex", "fs", "fs_iou", "barriers"]


def log(*a):
    print(*a, file=sys.stderr, flush=True)


def nightly_sysroot():
    return subprocess.check_output(["rustc", "+nightly", "--print", "sysroot"], text=True).strip()


def ensure_driver():
    if os.path.exists(DRIVER):
        srcs = glob.glob(os.path.join(DRIVER_DIR, "src", "*.rs"))
        if all(os.path.getmtime(s) <= os.path.getmtime(DRIVER) for s in srcs):
            return
    log("[verif] building extractor (cargo +nightly build --offline --release)")
    env = dict(os.environ, CARGO_NET_OFFLINE="true")
    r = subprocess.run(["cargo", "+nightly", "build", "--offline", "--release"], cwd=DRIVER_DIR, env=env,
                       stdout=subprocess.PIPE, stderr=subprocess.STDOUT, text=True)
    if r.returncode != 0:
        log(r.stdout)
        raise SystemExit(2)


def _hash_file(h, path):
    h.update(path.encode())
    with open(path, "rb") as f:
        h.update(hashlib.sha256(f.read()).digest())


def tree_key():
    """content hash of everything extraction depends on"""
    h = hashlib.sha256()
    files = []
    for root, dirs, fs in os.walk(os.path.join(REPO, "crates")):
        dirs[:] = sorted(d for d in dirs if d not in ("target", ".git"))
        for f in sorted(fs):
            if f.endswith((".rs", ".toml")):
                files.append(os.path.join(root, f))
    for f in ("Cargo.toml", "Cargo.lock", ".cargo/config.toml"):
        p = os.path.join(REPO, f)
        if os.path.exists(p):
            files.append(p)
    for p in files:
        h.update(os.path.relpath(p, REPO).encode())
        with open(p, "rb") as fh:
            h.update(hashlib.sha256(fh.read()).digest())
    _hash_file(h, DRIVER)
    h.update(subprocess.check_output(["rustc", "+nightly", "-vV"]))
    return h.hexdigest()[:24]


def repo_rustflags():
    """rustflags of the real build, from /repo/.cargo/config.toml (a checked fact for C01/C11)"""
    p = os.path.join(REPO, ".cargo", "config.toml")
    flags = []
    if os.path.exists(p):
        with open(p, "rb") as f:
            cfg = tomllib.load(f)
        flags = list(cfg.get("build", {}).get("rustflags", []))
    return flags


def extract(config, key):
    """run the driver for one feature configuration; returns the facts directory"""
    out = os.path.join(WORK, "facts", key, config)
    done = os.path.join(out, ".done")
    if os.path.exists(done) and not os.environ.get("VERIF_NO_CACHE"):
        return out
    os.makedirs(WORK, exist_ok=True)
    lock = open(os.path.join(WORK, ".lock"), "w")
    fcntl.flock(lock, fcntl.LOCK_EX)
    try:
        if os.path.exists(done) and not os.environ.get("VERIF_NO_CACHE"):
            return out
        shutil.rmtree(out, ignore_errors=True)
        os.makedirs(out)
        target = os.path.join(WORK, "target")
        # cargo's freshness cache would skip the wrapper: forget the workspace members
        for sub in (".fingerprint",):
            for pk in PKGS:
                for d in glob.glob(os.path.join(target, "debug", sub, pk + "-*")):
                    shutil.rmtree(d, ignore_errors=True)
        feats = ",".join("turmoil/" + f for f in CONFIGS[config])
        cmd = ["cargo", "+nightly", "check", "--offline"]
        for pk in PKGS:
            if pk == "turmoil-io-uring" and "unstable-io_uring" not in CONFIGS[config]:
                # without the feature the crate is still a workspace member; analyse it standalone with `fs`
                pass
            cmd += ["-p", pk]
        if feats:
            cmd += ["--features", feats]
        flags = repo_rustflags() + ["-Awarnings"]
        env = dict(os.environ)
        env.update({
            "CARGO_NET_OFFLINE": "true",
            "LD_LIBRARY_PATH": os.path.join(nightly_sysroot(), "lib") + ":" + env.get("LD_LIBRARY_PATH", ""),
            "RUSTFLAGS": " ".join(flags),
            "RUSTC_WORKSPACE_WRAPPER": DRIVER,
            "CARGO_TARGET_DIR": target,
            "TV_OUT": out,
            "TV_CRATES": ",".join(CRATES),
        })
        env.pop("RUSTC_WRAPPER", None)
        t0 = time.time()
        r = subprocess.run(cmd, cwd=REPO, env=env, stdout=subprocess.PIPE, stderr=subprocess.STDOUT, text=True)
        if r.returncode != 0:
            log(r.stdout[-6000:])
            log(f"[verif] extraction failed for config {config}: the tree does not compile (exit 2, no verdict)")
            raise SystemExit(2)
        got = sorted(os.path.basename(p).split(".")[0] for p in glob.glob(os.path.join(out, "*.json")))
        missing = [c for c in CRATES if c not in got]
        if missing:
            log(r.stdout[-3000:])
            log(f"[verif] extraction produced no facts for {missing} (config {config})")
            raise SystemExit(2)
        with open(done, "w") as f:
            f.write(json.dumps({"config": config, "wall_s": round(time.time() - t0, 2), "rustflags": flags}))
        prune_cache(keep=key)
        return out
    finally:
        fcntl.flock(lock, fcntl.LOCK_UN)
        lock.close()


def prune_cache(keep, maxn=40):
    base = os.path.join(WORK, "facts")
    ds = [d for d in glob.glob(os.path.join(base, "*")) if os.path.isdir(d)]
    ds.sort(key=os.path.getmtime, reverse=True)
    n = 0
    for d in ds:
        if os.path.basename(d) == keep:
            continue
        n += 1
        if n >= maxn:
            shutil.rmtree(d, ignore_errors=True)


# ---------------------------------------------------------------------------------------------
# rule context

class Instance:
    __slots__ = ("rule", "key", "ok", "site", "msg", "detail", "config", "info")

    def __init__(self, rule, key, ok, site, msg, detail=None, config=None, info=False):
        self.rule, self.key, self.ok, self.site, self.msg, self.detail, self.config, self.info = \
            rule, key, ok, site, msg, detail, config, info

    def as_json(self):
        d = {"rule": self.rule, "key": self.key, "verdict": "pass" if self.ok else "VIOLATION",
             "site": self.site, "what": self.msg}
        if self.info:
            d["verdict"] = "info"
        if self.detail is not None:
            d["detail"] = self.detail
        if self.config:
            d["config"] = self.config
        return d


class Ctx:
    """collects rule instances for one property on one configuration"""

    def __init__(self, world, prop, config, strict=True, rustflags=()):
        self.w = world
        self.prop = prop
        self.config = config
        self.strict = strict          # anchors / floors enforced (the all-features configuration)
        self.rustflags = list(rustflags)
        self.instances = []
        self.floors = {}
        self.rules_doc = {}

    def rule(self, rid, doc):
        self.rules_doc[rid] = doc

    def inst(self, rule, key, ok, site="", msg="", detail=None, info=False):
        from .analysis.facts import short_span
        self.instances.append(Instance(rule, f"{rule}:{key}", bool(ok), short_span(site) if site else "", msg,
                                       detail, self.config, info))
        return ok

    def ok(self, rule, key, site="", msg="", detail=None):
        return self.inst(rule, key, True, site, msg, detail)

    def bad(self, rule, key, site="", msg="", detail=None):
        return self.inst(rule, key, False, site, msg, detail)

    def info(self, rule, key, site="", msg="", detail=None):
        return self.inst(rule, key, True, site, msg, detail, info=True)

    def body(self, rule, bid, required=True):
        """anchor lookup: a missing anchor fails closed (strict config) instead of passing vacuously"""
        b = self.w.bodies.get(bid)
        if b is None and required and self.strict:
            self.bad(rule, f"anchor-missing:{bid}", "", f"anchor function `{bid}` not found in the extracted program "
                     "(renamed or removed: the rule cannot be evaluated and fails closed)")
        return b

    def floor(self, rule, n):
        self.floors[rule] = n

    def finish(self):
        if self.strict:
            for rule, n in self.floors.items():
                got = sum(1 for i in self.instances if i.rule == rule and not i.key.startswith(f"{rule}:anchor-missing"))
                if got < n:
                    self.bad(rule, "below-floor", "", f"rule matched {got} instance(s), fewer than the {n} confirmed "
                             "by hand on the reference tree (vacuous pass refused)")


# ---------------------------------------------------------------------------------------------
# known findings / verdict / evidence

def load_known_fns():
    p = os.path.join(VERIF, "rules", "known_fns.json")
    if not os.path.exists(p):
        return None
    d = json.load(open(p))
    return d if isinstance(d, dict) else set(d)


def load_known():
    p = os.path.join(VERIF, "known_findings.json")
    if not os.path.exists(p):
        return []
    return json.load(open(p))


def run_property(prop, tier, replay=None):
    from .analysis import facts
    t0 = time.time()
    seed = int(os.environ.get("VERIF_SEED", "0") or 0)
    ensure_driver()
    key = tree_key()
    configs = QUICK_CONFIGS if tier == "quick" else THOROUGH_CONFIGS
    mod = importlib.import_module(f"rules.{prop}")
    all_inst = {}
    order = []
    per_config = {}
    nbodies = {}
    flags = repo_rustflags()
    for cfg in configs:
        d = extract(cfg, key)
        w = facts.load_dir(d, known=load_known_fns())
        nbodies[cfg] = len(w.bodies)
        ctx = Ctx(w, prop, cfg, strict=(cfg == "all"), rustflags=flags)
        mod.run(ctx)
        ctx.finish()
        per_config[cfg] = len(ctx.instances)
        for i in ctx.instances:
            if i.key not in all_inst:
                all_inst[i.key] = i
                order.append(i.key)
            elif not i.ok and all_inst[i.key].ok:
                all_inst[i.key] = i
        rules_doc = ctx.rules_doc
        floors = ctx.floors
    extra = {}
    if hasattr(mod, "extra"):
        # E5 / E6 side engines (witnesses, clippy cross reference); thorough tier only unless the module says otherwise
        for i in mod.extra(tier, REPO, WORK, [all_inst[k] for k in order]) or []:
            if i.key not in all_inst:
                all_inst[i.key] = i
                order.append(i.key)
    insts = [all_inst[k] for k in order]
    known = {k["key"]: k for k in load_known() if k.get("status") == "known" and k.get("property") == prop}
    viol = [i for i in insts if not i.ok]
    unlisted = [i for i in viol if i.key not in known]
    listed = [i for i in viol if i.key in known]
    os.makedirs(os.path.join(EVID, "replay"), exist_ok=True)
    for i in listed:
        print(f"KNOWN-FINDING: property={prop} {i.key} {i.site}: {i.msg}")
    for i in unlisted:
        rp = os.path.join(EVID, "replay", f"{prop}_{hashlib.sha1(i.key.encode()).hexdigest()[:10]}.json")
        with open(rp, "w") as f:
            json.dump({"property": prop, "tier": tier, **i.as_json(), "tree_key": key}, f, indent=1)
        print(f"{i.site}: {i.rule} {i.key}: {i.msg}")
        print(f"VIOLATION property={prop} replay={rp}")
    # evidence
    by_rule = {}
    for i in insts:
        r = by_rule.setdefault(i.rule, {"rule": i.rule, "instances": 0, "violations": 0, "info": 0})
        r["instances"] += 1
        if not i.ok:
            r["violations"] += 1
        if i.info:
            r["info"] += 1
    for r in by_rule.values():
        r["floor"] = floors.get(r["rule"])
        r["decides"] = rules_doc.get(r["rule"], "")
    samples = [i.as_json() for i in insts]
    for s_ in samples:
        if s_["verdict"] == "VIOLATION" and s_["key"] in known:
            s_["verdict"] = "KNOWN-FINDING"
    decided = getattr(mod, "DECIDED", "")
    not_decided = getattr(mod, "NOT_DECIDED", "")
    ev = {
        "property_id": prop,
        "tier": tier,
        "seed": seed,
        "level": "other",
        "coverage": {
            "explanation": (f"Static analysis of the resolved program (rustc mir_built facts of crates {', '.join(CRATES)}; "
                            f"feature configurations {configs}). Decided: {decided} Not decided: {not_decided}"),
            "evaluations": len(insts),
            "distinct_nontrivial": len(by_rule),
            "rule": ("one evaluation = one rule instance (a call site, write site, function, path obligation or type fact) "
                     "checked against its oracle; instances are distinct by stable key (rule + def path + discriminator); "
                     "distinct_nontrivial = number of distinct rules that matched at least one instance"),
            "samples": samples,
            "rules": sorted(by_rule.values(), key=lambda r: r["rule"]),
            "configurations": configs,
            "bodies_analysed": nbodies,
            "instances_per_configuration": per_config,
            "tree_key": key,
            "repo": REPO,
            "rustflags_of_build": flags,
            "exhaustive": True,
            "known_findings_listed": [i.key for i in listed],
        },
        "assumptions": list(getattr(mod, "ASSUMPTIONS", [])) + [
            "rustc type checking, MIR construction and Instance resolution are correct",
            "dependencies (tokio, rand, indexmap, bytes, scoped-tls, uuid, regex) honour their documented contracts",
            "panics (expect/assert/unreachable) are loud failures, not silent violations",
        ],
        "wall_s": round(time.time() - t0, 3),
        "violations": len(unlisted),
        "known_findings": [i.key for i in listed],
    }
    os.makedirs(EVID, exist_ok=True)
    with open(os.path.join(EVID, f"{prop}.json"), "w") as f:
        json.dump(ev, f, indent=1)
    npass = sum(1 for i in insts if i.ok)
    print(f"[{prop}] tier={tier} configs={configs} rules={len(by_rule)} instances={len(insts)} pass={npass} "
          f"known={len(listed)} violations={len(unlisted)} wall={ev['wall_s']}s")
    return 1 if unlisted else 0
