"""Intra- and inter-procedural helpers over the extracted MIR: value origins, guards, provenance slicing,
call-graph reachability with closure look-through, must-pass-through checks."""
import re
from collections import defaultdict
from .facts import *

PANIC_CALLEES = re.compile(
    r"^(core|std)::(panicking|rt)::|::panic_fmt$|^std::rt::begin_panic|^core::panicking|"
    r"::unwrap_failed$|::expect_failed$|^core::option::unwrap_failed|^core::option::expect_failed|"
    r"^core::result::unwrap_failed|^std::process::abort|^core::panicking::assert_failed")


def is_panic_call(t):
    return t["k"] == "call" and (t.get("t") is None or bool(PANIC_CALLEES.search(t.get("f", ""))))


# ---------------------------------------------------------------- origins

def single_def(body, l):
    ds = body.defs().get(l, [])
    whole = [d for d in ds if not d[2].get("p", {}).get("p") or d[1] == "term"]
    if len(ds) == 1:
        return ds[0]
    return None


def origin(body, op, depth=0):
    """Resolve an operand through single-definition copies / moves / reborrows.
    Returns a descriptor dict:
      {'k':'const', 'op':...} | {'k':'place','p':place} (a projected place or a multi-def local / argument)
      {'k':'call','bb':bb,'t':term} | {'k':'discr','p':place,'adt':..} | {'k':'bin','op':..,'a':..,'b':..}
      {'k':'not','a':origin} | {'k':'agg','r':rvalue,'bb':..} | {'k':'ref','p':place} | {'k':'cast','o':origin}
    """
    if depth > 40:
        return {"k": "unknown"}
    c = op_const(op)
    if c is not None:
        return {"k": "const", "op": c}
    p = op_place(op)
    if p is None:
        return {"k": "unknown"}
    if p.get("p"):
        return {"k": "place", "p": p}
    l = p["l"]
    if 1 <= l <= body.argc:
        return {"k": "place", "p": p, "arg": l}
    d = single_def(body, l)
    if d is None:
        return {"k": "place", "p": p, "multi": True}
    bb, idx, s = d
    if idx == "term":
        if s["k"] == "call":
            return {"k": "call", "bb": bb, "t": s}
        return {"k": "yield", "bb": bb, "t": s}
    if s["p"].get("p"):
        return {"k": "place", "p": p, "multi": True}
    r = s["r"]
    k = r["k"]
    if k == "use":
        return origin(body, r["o"], depth + 1)
    if k == "discr":
        return {"k": "discr", "p": r["p"], "adt": r.get("adt"), "bb": bb}
    if k == "bin":
        return {"k": "bin", "op": r["op"], "a": r["a"], "b": r["b"], "bb": bb}
    if k == "un" and r["op"] == "Not":
        return {"k": "not", "a": origin(body, r["a"], depth + 1)}
    if k == "agg":
        return {"k": "agg", "r": r, "bb": bb, "idx": idx}
    if k == "ref":
        return {"k": "ref", "p": r["p"], "bk": r["bk"], "bb": bb}
    if k == "cast":
        return {"k": "cast", "o": origin(body, r["o"], depth + 1), "ck": r["ck"], "ty": r["ty"]}
    return {"k": "other", "r": r}


def read_site(body, op, depth=0):
    """the statement at which the value of `op` was read out of memory: follows single-definition copies of locals back to the
    `tmp = copy <projected place>` (or call) that produced the value; returns (bb, idx) or None.  Unlike origin() this is
    flow-sensitive: two reads of the same field on either side of a write are different sites."""
    p = op_place(op)
    if p is None or p.get("p") or depth > 40:
        return None
    d = single_def(body, p["l"])
    if d is None:
        return None
    bb, idx, s = d
    if idx == "term":
        return (bb, "term")
    r = s["r"]
    if r["k"] == "use":
        q = op_place(r["o"])
        if q is not None and not q.get("p"):
            return read_site(body, r["o"], depth + 1)
    return (bb, idx)


def deref_origin(body, op, depth=0):
    """like origin, but also looks through `&place` / `&mut place` temporaries to the borrowed place"""
    o = origin(body, op)
    n = 0
    while o["k"] == "ref" and n < 10:
        p = o["p"]
        if p.get("p"):
            # &(*_x) reborrow of a local reference -> continue from _x
            if p["p"] == ["*"]:
                o = origin(body, {"c": {"l": p["l"]}})
                n += 1
                continue
            return {"k": "place", "p": p}
        o = origin(body, {"c": p})
        n += 1
    return o


def upvar_source(body, p):
    """for a place rooted in a closure environment field: (parent body, operand captured into that field) or None"""
    idx = None
    for e in p.get("p", ()):
        if isinstance(e, dict) and "f" in e and str(e.get("o", "")).startswith("{env}"):
            idx = e["i"]
            break
    if idx is None or not body.parent:
        return None
    par = body.world.bodies.get(body.parent)
    if par is None:
        return None
    for bb, i, s in par.all_stmts():
        r = s["r"]
        if r["k"] == "agg" and r.get("def") == body.id and idx < len(r["ops"]):
            return par, r["ops"][idx]
    return None


def root_place(body, p, depth=0):
    """Follow a place back through reference temporaries and closure captures:
    (*_5).f where _5 = &mut (*_1).g  ->  (*_1).g.f ; (*_1.self__rx__recv) in a closure -> (*self).rx.recv in the parent.
    Returns (root local in the body where the walk ended, flattened list of 'Owner::field' names from the root)."""
    fields = []
    cur = p
    b = body
    for _ in range(40):
        fs = place_fields(cur)
        env = [f for f in fs if f.startswith("{env}")]
        fields = [f for f in fs if not f.startswith("{env}")] + fields
        l = cur["l"]
        if env:
            up = upvar_source(b, cur)
            if up is None:
                return l, fields
            b, op = up
            np = op_place(op)
            if np is None:
                return None, fields
            cur = np
            continue
        if 1 <= l <= b.argc:
            return l, fields
        d = single_def(b, l)
        if d is None or d[1] == "term":
            return l, fields
        r = d[2]["r"]
        if d[2]["p"].get("p"):
            return l, fields
        if r["k"] == "ref" or r["k"] == "addr":
            cur = r["p"]
            continue
        if r["k"] == "use" and op_place(r["o"]) is not None:
            cur = op_place(r["o"])
            continue
        return l, fields
    return cur["l"], fields


def receiver_root(body, op, depth=0):
    """the container a (sub)slice operand was cut from: follows reference temporaries and the *receiver* (first argument) of
    slicing / reborrowing calls - index, index_mut, split_at(_mut) (+ tuple field), get(_mut) + unwrap, as_(mut_)slice, deref(_mut),
    iter-free views - never the range / index arguments.  Returns (root local, field names from the root)."""
    p = op_place(op)
    fields = []
    for _ in range(40):
        if p is None:
            return None, fields
        l, fs = root_place(body, p)
        fields = fs + fields
        if l is None or 1 <= l <= body.argc:
            return l, fields
        d = single_def(body, l)
        if d is None or d[1] != "term" or d[2]["k"] != "call" or not d[2]["args"]:
            return l, fields
        if not re.search(r"(::|>::)(index|index_mut|split_at|split_at_mut|split_at_checked|split_at_mut_checked|get|get_mut|unwrap|expect|as_slice|as_mut_slice|deref|deref_mut|as_ref|as_mut|borrow|borrow_mut|split_first_mut|split_last_mut|first_mut|last_mut)$", d[2].get("f", "")):
            return l, fields
        p = op_place(d[2]["args"][0])
    return None, fields


# ---------------------------------------------------------------- guards

def switch_blocks(body):
    for bb in sorted(body.live_blocks()):
        t = body.term(bb)
        if t["k"] == "switch":
            yield bb, t


def bool_edges(body, bb, t):
    """for a switch on a bool: (true_target, false_target)"""
    false_t = None
    for v, b in t["targets"]:
        if v == 0:
            false_t = b
    return t["else"], false_t


def guards_on(body, pred):
    """Find every switch whose discriminant originates (through copies / Not) from something matching
    pred(origin_descriptor) -> truthy.  Yields (switch_bb, true_edges, false_edges) where edges are (u, v)."""
    for bb, t in switch_blocks(body):
        o = origin(body, t["d"])
        neg = False
        while o["k"] == "not":
            neg = not neg
            o = o["a"]
        if not pred(o):
            continue
        tt, ft = bool_edges(body, bb, t)
        te = [(bb, tt)]
        fe = [(bb, ft)] if ft is not None else []
        if neg:
            te, fe = fe, te
        yield bb, te, fe, o


def call_guard_edges(body, callee_pat, argpred=None):
    """true / false edges of every `if callee(..)` test"""
    te, fe = [], []
    for bb, t_e, f_e, o in guards_on(body, lambda o: o["k"] == "call" and callee_matches(o["t"], callee_pat)
                                     and (argpred is None or argpred(o["t"]))):
        te += t_e
        fe += f_e
    return te, fe


def variant_edges(body, place_pred):
    """for every switch on discr(place) with place_pred(place): list of (switch_bb, {variant: edge}, else_edge, adt)"""
    out = []
    for bb, t in switch_blocks(body):
        o = origin(body, t["d"])
        if o["k"] != "discr" or not place_pred(o["p"]):
            continue
        adt = o.get("adt")
        m = {}
        for v, b in t["targets"]:
            name = body.world.variant_of_discr(adt, v) if adt else None
            m[name if name is not None else v] = (bb, b)
        out.append((bb, m, (bb, t["else"]), adt, o["p"]))
    return out


# ---------------------------------------------------------------- provenance slicer

class Slicer:
    """Backward def-use slice of an operand to its atoms (flow-insensitive inside a body, follows closure
    captures to the enclosing body).  Atoms: 'field:Owner::name', 'call:<callee>', 'const:<text>', 'arg:<n>:<name>',
    'binop:<op>'."""

    def __init__(self, world, stop_calls=None, through_calls=True, into_callees=0, control=False):
        self.w = world
        self.stop_calls = stop_calls
        self.through_calls = through_calls
        self.into_callees = into_callees   # inlining depth for return-value provenance of in-repo callees
        self.control = control             # also slice the tests that choose between the definitions of a multiply-assigned local
        self._depth = 0                    # (`let f = a && b` lowers to `f = if a { b } else { false }`: f depends on a by control only)

    def atoms(self, body, op, seen=None, out=None):
        if out is None:
            out = set()
        if seen is None:
            seen = set()
        c = op_const(op)
        if c is not None:
            out.add("const:" + str(c.get("fn") or c.get("k")))
            return out
        p = op_place(op)
        if p is None:
            return out
        self._place(body, p, seen, out)
        return out

    def _place(self, body, p, seen, out):
        for f in place_fields(p):
            if f.startswith("{env}"):
                # closure capture: continue in the parent at the captured operand
                self._upvar(body, p, seen, out)
            else:
                out.add("field:" + f)
        for e in p.get("p", ()):
            if isinstance(e, dict) and "ix" in e:
                self._local(body, e["ix"], seen, out)
        # field-sensitive for aggregates built in this body: `t = (a, b); x = t.0` slices to `a` only
        pr = p.get("p") or ()
        if pr and isinstance(pr[0], dict) and "i" in pr[0] and "f" in pr[0]:
            ops = self._agg_field(body, p["l"], pr[0]["i"])
            if ops is not None:
                for o in ops:
                    self.atoms(body, o, seen, out)
                return
        self._local(body, p["l"], seen, out)

    def _agg_field(self, body, l, i, depth=0):
        """operands stored in field i of local l when every definition of l is an aggregate built in this body (or a plain
        copy / move of such a local); None if l is defined in any other way"""
        if depth > 6 or 1 <= l <= body.argc:
            return None
        ds = body.defs().get(l, [])
        if not ds:
            return None
        out = []
        for bb, idx, s in ds:
            if idx == "term" or s["p"].get("p"):
                return None
            r = s["r"]
            if r["k"] == "agg" and r.get("ak") in ("tuple", "adt") and i < len(r["ops"]) and (r.get("ak") == "tuple" or len(r.get("fields", ())) == len(r["ops"])):
                out.append(r["ops"][i])
            elif r["k"] == "use":
                q = op_place(r["o"])
                if q is None or q.get("p"):
                    return None
                sub_ = self._agg_field(body, q["l"], i, depth + 1)
                if sub_ is None:
                    return None
                out.extend(sub_)
            else:
                return None
        return out

    def _upvar(self, body, p, seen, out):
        idx = None
        for e in p.get("p", ()):
            if isinstance(e, dict) and "f" in e and e["o"].startswith("{env}"):
                idx = e["i"]
                break
        if idx is None or not body.parent:
            return
        par = self.w.bodies.get(body.parent)
        if par is None:
            return
        for bb, i, s in par.all_stmts():
            r = s["r"]
            if r["k"] == "agg" and r.get("def") == body.id and idx < len(r["ops"]):
                self.atoms(par, r["ops"][idx], seen, out)

    def _local(self, body, l, seen, out):
        key = (body.id, l)
        if key in seen:
            return
        seen.add(key)
        if 1 <= l <= body.argc:
            out.add(f"arg:{l}:{body.local_name(l) or ''}@{body.id}")
            if body.kind == "Closure" and l == 1:
                return
        ds = body.defs().get(l, [])
        if self.control and len([d for d in ds if d[1] == "term" or "*" not in (d[2]["p"].get("p") or ())]) > 1:
            for bb, idx, s in ds:
                for sbb in control_switches(body, bb):
                    self.atoms(body, body.term(sbb)["d"], seen, out)
        for bb, idx, s in ds:
            if idx != "term" and "*" in (s["p"].get("p") or ()):
                continue   # a store through a reference held in l is not a definition of l (field atoms stand for it)
            if idx == "term":
                if s["k"] == "call":
                    out.add("call:" + s["f"])
                    if s.get("ft") and s["ft"] != s["f"]:
                        out.add("call:" + s["ft"])
                    if self.into_callees > self._depth:
                        tg = [s["f"]] + closure_args(body, s)
                        for cid in tg:
                            cb = self.w.bodies.get(cid)
                            if cb is not None:
                                self._depth += 1
                                self._local(cb, 0, seen, out)
                                self._depth -= 1
                    if self.through_calls and not (self.stop_calls and callee_matches(s, self.stop_calls)):
                        for a in s["args"]:
                            self.atoms(body, a, seen, out)
                continue
            r = s["r"]
            k = r["k"]
            if k in ("use", "cast", "repeat"):
                self.atoms(body, r["o"], seen, out)
            elif k in ("ref", "addr", "discr", "len"):
                self._place(body, r["p"], seen, out)
            elif k == "bin":
                out.add("binop:" + r["op"])
                self.atoms(body, r["a"], seen, out)
                self.atoms(body, r["b"], seen, out)
            elif k == "un":
                self.atoms(body, r["a"], seen, out)
            elif k == "agg":
                for o in r["ops"]:
                    self.atoms(body, o, seen, out)


def control_switches(body, bb):
    """switch blocks one of whose edges dominates bb (bb runs only on that outcome of the test)"""
    key = (id(body), bb)
    if key not in _CTL_MEMO:
        _CTL_MEMO[key] = [sbb for sbb, t in switch_blocks(body) if len(set(body.succ(sbb))) > 1 and
                          any(body.dominated_by_edge(bb, (sbb, x)) for x in set(body.succ(sbb)))]
    return _CTL_MEMO[key]


_CTL_MEMO = {}


# ---------------------------------------------------------------- call graph

def closures_built(body):
    """closure / coroutine bodies constructed in this body: list of (bb, idx, def id)"""
    out = []
    for bb, i, s in body.all_stmts():
        r = s["r"]
        if r["k"] == "agg" and r.get("ak") in ("closure", "coroutine", "coroutine_closure"):
            out.append((bb, i, r["def"]))
    return out


def callees(world, body, include_closures=True):
    """in-repo callee ids (resolved) + closures constructed here"""
    out = set()
    for bb, t in body.calls():
        if t["f"] in world.bodies:
            out.add(t["f"])
        for g in t.get("ga", ()):
            if isinstance(g, int):
                ty = body.tys[g]
                if ty.get("k") in ("closure", "coroutine") and ty.get("def") in world.bodies:
                    pass
        for a in t.get("args", ()):
            if isinstance(a, dict) and a.get("fn") in world.bodies:
                out.add(a["fn"])      # a function item handed to a higher-order callee (e.g. for_resolved_pairs(a, b, World::hold))
    for bb, i, st in body.all_stmts():
        r = st["r"]
        for o in [r.get("o"), r.get("a"), r.get("b")] + list(r.get("ops", [])):
            if isinstance(o, dict) and o.get("fn") in world.bodies:
                out.add(o["fn"])          # function item stored in a local (e.g. after a helper taking `op: impl FnMut` was inlined)
    if include_closures:
        for _, _, d in closures_built(body):
            if d in world.bodies:
                out.add(d)
    return out


def drop_glue_targets(world, body, ty_idx, seen=None, depth=0):
    """Drop::drop bodies that dropping a value of this type may run (through fields, Option/Box/Vec/Arc args)"""
    if seen is None:
        seen = set()
    out = set()
    t = body.tys[ty_idx]
    key = (body.crate, ty_idx)
    if key in seen or depth > 6:
        return out
    seen.add(key)
    k = t.get("k")
    if k == "adt":
        d = world.drop_impl(t["adt"])
        if d:
            out.add(d)
        a = world.adts.get(t["adt"])
        if a and a.get("local"):
            tys = world.tys[a["crate"]]
            for v in a["variants"]:
                for f in v["fields"]:
                    if "ty" in f:
                        out |= _drop_glue_ty(world, a["crate"], f["ty"], seen, depth + 1)
        for x in t.get("args", ()):
            if isinstance(x, int):
                out |= drop_glue_targets(world, body, x, seen, depth + 1)
    elif k in ("tuple",):
        for x in t.get("args", ()):
            out |= drop_glue_targets(world, body, x, seen, depth + 1)
    elif k in ("closure", "coroutine"):
        for x in t.get("upvars", ()):
            out |= drop_glue_targets(world, body, x, seen, depth + 1)
    elif k in ("array", "slice"):
        out |= drop_glue_targets(world, body, t["inner"], seen, depth + 1)
    return out


def _drop_glue_ty(world, crate, ty_idx, seen, depth):
    class _B:  # minimal body-like view for a crate's type table
        pass
    b = _B()
    b.tys = world.tys[crate]
    b.crate = crate
    return drop_glue_targets(world, b, ty_idx, seen, depth)


def reach_bodies(world, start_ids, follow_drops=False, stop=None):
    """transitive closure over in-repo calls and closure construction"""
    seen = set()
    work = list(start_ids)
    while work:
        i = work.pop()
        if i in seen or i not in world.bodies:
            continue
        if stop and stop(i):
            continue
        seen.add(i)
        b = world.bodies[i]
        for c in callees(world, b):
            if c not in seen:
                work.append(c)
        if follow_drops:
            for bb in b.live_blocks():
                t = b.term(bb)
                if t["k"] == "drop":
                    for d in drop_glue_targets(world, b, t["ty"]):
                        if d not in seen:
                            work.append(d)
    return seen


def may_call(world, start_ids, pat, follow_drops=False):
    """call sites matching pat reachable from the start bodies: list of (body, bb, term)"""
    out = []
    for i in sorted(reach_bodies(world, start_ids, follow_drops)):
        b = world.bodies[i]
        for bb, t in b.calls(pat):
            out.append((b, bb, t))
    return out


def who_calls(world, pat, crates=None):
    out = []
    for b in world.bodies.values():
        if crates and b.crate not in crates:
            continue
        for bb, t in b.calls(pat):
            out.append((b, bb, t))
    out.sort(key=lambda x: (x[0].id, x[1]))
    return out


# ---------------------------------------------------------------- path rules

def blocks_where(body, pred):
    return [bb for bb in sorted(body.live_blocks()) if pred(bb)]


def call_blocks(body, pat):
    return [bb for bb, t in body.calls(pat)]


def always_passes(body, through_blocks, to_blocks=None, frm=0, through_edges=()):
    """every normal path frm -> (to_blocks | any Return) passes one of through_blocks / through_edges.
    Diverging (panic) ends are not exits."""
    if to_blocks is None:
        to_blocks = body.exits(("return",))
    r = body.reachable(frm, removed_blocks=through_blocks, removed_edges=through_edges)
    return [b for b in to_blocks if b in r]


def always_calls(world, body, pat, depth=3, _memo=None, through_closures=True):
    """Summary: on every non-panicking path from entry to return, `body` calls something matching `pat`
    (directly, or through an in-repo callee that always does, or through a once-combinator's closure).  Bounded
    inlining depth; cycles cut to False."""
    if _memo is None:
        _memo = {}
    key = (body.id, depth)
    if key in _memo:
        return _memo[key]
    _memo[key] = False
    through = []
    for bb, t in body.calls():
        if callee_matches(t, pat):
            through.append(bb)
        elif depth > 0:
            cb = world.bodies.get(t["f"])
            if cb is not None and always_calls(world, cb, pat, depth - 1, _memo):
                through.append(bb)
            elif through_closures and is_once_combinator(t):
                for cid in closure_args(body, t):
                    cb = world.bodies.get(cid)
                    if cb is not None and always_calls(world, cb, pat, depth - 1, _memo):
                        through.append(bb)
                        break
    res = not always_passes(body, through)
    _memo[key] = res
    return res


# combinators that invoke their closure argument exactly once, synchronously, on every non-panicking path
# (checked by C00 self-check for the in-repo ones: see rules/common.py)
ONCE_COMBINATORS = [
    "turmoil::world::World::current", "turmoil::world::World::enter",
    "turmoil_fs::FsContext::current", "turmoil_io_uring::host::IoUringContext::current",
    "turmoil_net::sys", "turmoil::rt::with", "turmoil::rt::Rt::with",
    re.compile(r"^turmoil::sim::with_fs_and_io_uring"),
    re.compile(r"^std::thread::LocalKey::<.*>::with$|^std::thread::LocalKey::with$"),
    re.compile(r"^scoped_tls::ScopedKey::<.*>::set$|^scoped_tls::ScopedKey::set$"),
    re.compile(r"^scoped_tls::ScopedKey::<.*>::with$|^scoped_tls::ScopedKey::with$"),
]
# at most once (may skip the closure)
MAYBE_COMBINATORS = [
    "turmoil::world::World::current_if_set", "turmoil_fs::FsContext::current_if_set",
    "turmoil_io_uring::host::IoUringContext::current_if_set",
    re.compile(r"^std::option::Option::<.*>::(map|and_then|or_else|unwrap_or_else|map_or|map_or_else|is_some_and)$"),
    re.compile(r"^std::result::Result::<.*>::(map|map_err|and_then|or_else|unwrap_or_else)$"),
    re.compile(r"^std::option::Option::(map|and_then|or_else|unwrap_or_else|map_or|map_or_else|is_some_and)$"),
    re.compile(r"^std::result::Result::(map|map_err|and_then|or_else|unwrap_or_else)$"),
]


def is_once_combinator(t):
    return callee_matches(t, ONCE_COMBINATORS)


def is_maybe_combinator(t):
    return callee_matches(t, MAYBE_COMBINATORS)


def closure_args(body, t):
    """closure def ids passed (by value) as arguments of call t"""
    out = []
    for ai in t.get("at", ()):
        ty = body.tys[ai]
        ty = body.peel(ty)
        if ty.get("k") in ("closure", "coroutine") and ty.get("def"):
            out.append(ty["def"])
    return out


# ---------------------------------------------------------------- closures <-> parents

def lift_to_parent(world, body):
    """for a closure body: (parent body, block in the parent where the closure value is handed to a call, that call)
    or (parent, construction block, None) when it is only constructed there"""
    if not body.parent or body.parent not in world.bodies:
        return None
    par = world.bodies[body.parent]
    for bb, t in par.calls():
        if body.id in closure_args(par, t):
            return par, bb, t
    for bb, i, d in closures_built(par):
        if d == body.id:
            return par, bb, None
    return None


def dominated_in_family(world, body, bb, edges=(), blocks=(), root=None, pred=None):
    """Is block bb of `body` dominated by one of the given (body_id, edge)/(body_id, block) guards, looking through
    the closure nesting: a site inside a closure passed to a call in the parent is dominated when that call block is.
    edges / blocks: lists of (body_id, x)."""
    cur, cbb = body, bb
    for _ in range(8):
        es = [e for bid, e in edges if bid == cur.id]
        bs = [b for bid, b in blocks if bid == cur.id]
        if (es or bs) and cur.dominated_by_any(cbb, blocks=bs, edges=es):
            return True
        up = lift_to_parent(world, cur)
        if up is None:
            return False
        cur, cbb, _ = up
    return False


def path_counts(body, start, is_hit, stop_blocks=None, only_stop=False):
    """(min, max) number of blocks satisfying is_hit on any acyclic normal path from `start` to a Return
    (panicking ends ignored; back edges cut).  Returns None if no path reaches a Return."""
    memo = {}
    onstack = set()

    def rec(b):
        if b in memo:
            return memo[b]
        if b in onstack:
            return None
        onstack.add(b)
        h = 1 if is_hit(b) else 0
        t = body.term(b)
        res = None
        if stop_blocks and b in stop_blocks:
            res = (h, h)
        elif t["k"] == "return":
            res = None if only_stop else (h, h)
        else:
            lo, hi = None, None
            for s in body.succ(b):
                if body.is_cleanup(s):
                    continue
                if t["k"] == "yield" and s == t.get("drop"):
                    continue
                r = rec(s)
                if r is None:
                    continue
                lo = r[0] if lo is None else min(lo, r[0])
                hi = r[1] if hi is None else max(hi, r[1])
            if lo is not None:
                res = (lo + h, hi + h)
        onstack.discard(b)
        memo[b] = res
        return res
    return rec(start)


def linear(body, op, depth=0):
    """express an integer operand as (base, k): base = ('arg', n) / ('field', name) / ('const',) ; value = base + k.
    Recognises overflow-checked `x + c` / `x - c` as MIR builds them.  None if not linear."""
    if depth > 12:
        return None
    c = op_const(op)
    if c is not None:
        return (("const",), c.get("v", 0)) if "v" in c else None
    p = op_place(op)
    if p is None:
        return None
    proj = p.get("p") or []
    l = p["l"]
    if proj and len(proj) == 1 and isinstance(proj[0], dict) and proj[0].get("o") == "(tuple)" and proj[0]["i"] == 0:
        d = single_def(body, l)
        if d and d[1] != "term" and d[2]["r"]["k"] == "bin" and d[2]["r"]["op"] in ("AddWithOverflow", "SubWithOverflow"):
            r = d[2]["r"]
            a = linear(body, r["a"], depth + 1)
            b = linear(body, r["b"], depth + 1)
            sign = 1 if r["op"].startswith("Add") else -1
            if a and b and b[0] == ("const",):
                return (a[0], a[1] + sign * b[1])
            if a and b and a[0] == ("const",) and sign == 1:
                return (b[0], b[1] + a[1])
        return None
    if proj:
        f = place_last_field(p)
        return (("field", f), 0) if f else None
    if 1 <= l <= body.argc:
        return (("arg", l), 0)
    d = single_def(body, l)
    if d is None:
        return None
    if d[1] == "term":
        t = d[2]
        if t["k"] == "call":
            m = re.search(r"::(wrapping_add|wrapping_sub|saturating_add|saturating_sub|checked_add|checked_sub)$", t.get("f", ""))
            if m and len(t["args"]) == 2:
                a = linear(body, t["args"][0], depth + 1)
                b = linear(body, t["args"][1], depth + 1)
                sign = 1 if m.group(1).endswith("add") else -1
                if a and b and b[0] == ("const",):
                    return (a[0], a[1] + sign * b[1])
                return None
            return (("call", d[0]), 0)      # an opaque value, named by its defining call site
        return None
    r = d[2]["r"]
    if r["k"] == "use":
        return linear(body, r["o"], depth + 1)
    if r["k"] == "bin" and r["op"] in ("Add", "Sub", "AddUnchecked", "SubUnchecked"):
        a = linear(body, r["a"], depth + 1)
        b = linear(body, r["b"], depth + 1)
        sign = 1 if r["op"].startswith("Add") else -1
        if a and b and b[0] == ("const",):
            return (a[0], a[1] + sign * b[1])
    return None


# ---------------------------------------------------------------- loops

def _sccs(body, nodes):
    nodes = set(nodes)
    index, low, on, st, out = {}, {}, set(), [], []
    cnt = [0]
    succ = lambda v: [x for x in body.succ(v) if x in nodes]
    for root in sorted(nodes):
        if root in index:
            continue
        work = [(root, iter(succ(root)))]
        index[root] = low[root] = cnt[0]; cnt[0] += 1
        st.append(root); on.add(root)
        while work:
            v, it = work[-1]
            adv = False
            for s in it:
                if s not in index:
                    index[s] = low[s] = cnt[0]; cnt[0] += 1
                    st.append(s); on.add(s)
                    work.append((s, iter(succ(s))))
                    adv = True
                    break
                elif s in on:
                    low[v] = min(low[v], index[s])
            if adv:
                continue
            work.pop()
            if work:
                u = work[-1][0]
                low[u] = min(low[u], low[v])
            if low[v] == index[v]:
                comp = set()
                while True:
                    x = st.pop(); on.discard(x); comp.add(x)
                    if x == v:
                        break
                if len(comp) > 1 or v in body.succ(v):
                    out.append(frozenset(comp))
    return out


def loops(body, nested=True):
    """loops of the live normal-flow CFG as block sets: every strongly connected component with a cycle and, recursively, the
    components that remain inside it once its entry blocks are removed (inner loops)"""
    out = []
    work = _sccs(body, body.live_blocks())
    while work:
        comp = work.pop()
        out.append(comp)
        if not nested:
            continue
        heads = {b for b in comp if b == 0 or any(p not in comp for p in body.pred(b))}
        if heads and len(comp) > 1:
            work.extend(_sccs(body, comp - heads))
    return out


def reaches_return(body, bb, _memo=None):
    return any(body.term(x)["k"] == "return" for x in body.reachable(bb))


def loop_exits(body, comp):
    """exit edges (u, v) of a loop that can still reach a normal return (panic / unreachable exits are ignored)"""
    out = []
    for u in sorted(comp):
        for v in body.succ(u):
            if v not in comp and reaches_return(body, v):
                out.append((u, v))
    return out


def is_exhaustion_exit(body, u):
    """is block u the `match iter.next() { None => break, .. }` test of a for loop, or the `i < len` test of a counted loop"""
    t = body.term(u)
    if t["k"] != "switch":
        return False
    o = origin(body, t["d"])
    if o["k"] == "discr":
        src = origin(body, {"c": o["p"]}) if not o["p"].get("p") else None
        if src and src["k"] == "call" and re.search(r"Iterator::next$|::next$|::next_back$|::pop_front$|::pop$|::pop_back$", src["t"].get("f", "")):
            return True
    # counted loop: `while index < container.len()`
    neg = 0
    while o["k"] == "not":
        o = o["a"]; neg += 1
    if o["k"] == "bin" and o["op"] in ("Lt", "Le", "Gt", "Ge", "Ne"):
        for side in (o["a"], o["b"]):
            so = origin(body, side)
            if (so["k"] == "call" and re.search(r"::len$", so["t"].get("f", ""))) or (so["k"] == "other" and so["r"].get("k") in ("len", "ptrmeta")):
                return True
    return False


# ---------------------------------------------------------------- expression shapes

_ARITH = re.compile(r"::(saturating_sub|saturating_add|wrapping_add|wrapping_sub|checked_add|checked_sub|min|max|abs_diff|pow|div_ceil|next_multiple_of|clamp)$")
_COMM = {"Add", "Mul", "BitAnd", "BitOr", "BitXor", "min", "max", "Eq", "Ne"}


_SHAPE_LEAF = None   # optional hook (body, op, depth) -> leaf label; lets a rule keep the identity of the inputs it cares about


def _leaf(body, op, depth):
    return "in" if _SHAPE_LEAF is None else _SHAPE_LEAF(body, op, depth)


def expr_shape(body, op, depth=0, repo_pred=None):
    """canonical operator tree of the value of `op`: arithmetic / comparison operators and arithmetic std methods are interior
    nodes, calls into the repository are named leaves, everything else (parameters, fields, lengths, constants' carriers, casts
    looked through) is the anonymous leaf 'in' (constants keep their value).  Two sibling computations of the same quantity have
    equal shapes whatever the names and positions of their inputs."""
    if depth > 25:
        return "in"
    c = op_const(op)
    if c is not None:
        return f"const:{c.get('v')}"
    p = op_place(op)
    if p is None:
        return _leaf(body, op, depth)
    if p.get("p"):
        # `_t.0` of a checked arithmetic pair
        pr = p["p"]
        if len(pr) == 1 and isinstance(pr[0], dict) and pr[0].get("i") == 0:
            d = single_def(body, p["l"])
            if d and d[1] != "term" and d[2]["r"]["k"] == "bin" and d[2]["r"]["op"].endswith("WithOverflow"):
                r = d[2]["r"]
                return _node(r["op"][:-len("WithOverflow")], [expr_shape(body, r["a"], depth + 1, repo_pred), expr_shape(body, r["b"], depth + 1, repo_pred)])
        # `(opt as Some).0` of a checked operation: `let Some(end) = a.checked_add(b) else { .. }` is a + b on the path that goes on
        if len(pr) == 2 and isinstance(pr[0], dict) and pr[0].get("v") == "Some" and isinstance(pr[1], dict) and pr[1].get("i") == 0:
            d = single_def(body, p["l"])
            if d and d[1] == "term" and d[2]["k"] == "call":
                m = re.search(r"::checked_(add|sub|mul)$", d[2].get("f", ""))
                if m:
                    return _node({"add": "Add", "sub": "Sub", "mul": "Mul"}[m.group(1)], [expr_shape(body, a, depth + 1, repo_pred) for a in d[2]["args"]])
        return _leaf(body, op, depth)
    l = p["l"]
    if 1 <= l <= body.argc:
        return _leaf(body, op, depth)
    d = single_def(body, l)
    if d is None:
        # `if a > b { a - b } else { 0 }` is saturating_sub(a, b) spelled out
        ds = [x for x in body.defs().get(l, []) if x[1] != "term" and not x[2]["p"].get("p")]
        if len(ds) == 2 and len(body.defs().get(l, [])) == 2:
            zero = [x for x in ds if x[2]["r"]["k"] == "use" and (op_const(x[2]["r"]["o"]) or {}).get("v") == 0]
            other = [x for x in ds if x not in zero]
            if len(zero) == 1 and len(other) == 1:
                sh = expr_shape(body, {"c": {"l": l, "_def": None}}, depth + 1, repo_pred) if False else None
                r = other[0][2]["r"]
                sub_ = None
                if r["k"] == "use":
                    sh = expr_shape_of_def(body, other[0], depth + 1, repo_pred)
                    if isinstance(sh, tuple) and sh[0] == "Sub":
                        sub_ = sh
                elif r["k"] == "bin" and r["op"].startswith("Sub"):
                    sub_ = _node("Sub", [expr_shape(body, r["a"], depth + 1, repo_pred), expr_shape(body, r["b"], depth + 1, repo_pred)])
                if sub_ is not None:
                    for sbb, te, fe, o in guards_on(body, lambda o: o["k"] == "bin" and o["op"] in ("Gt", "Ge", "Lt", "Le")):
                        ga, gb = expr_shape(body, o["a"], depth + 1, repo_pred), expr_shape(body, o["b"], depth + 1, repo_pred)
                        if o["op"] in ("Lt", "Le"):
                            ga, gb = gb, ga
                        if (ga, gb) == (sub_[1], sub_[2]) and te and body.dominated_by_any(other[0][0], edges=te):
                            return _node("saturating_sub", [sub_[1], sub_[2]])
        return _leaf(body, op, depth)
    bb, idx, s = d
    if idx == "term":
        if s["k"] != "call":
            return _leaf(body, op, depth)
        f = s.get("f", "")
        m = _ARITH.search(f)
        if m:
            return _node(m.group(1), [expr_shape(body, a, depth + 1, repo_pred) for a in s["args"]])
        if (repo_pred or (lambda x: x.startswith(("turmoil", "<turmoil"))))(f) and "{closure" not in f:
            return "call:" + f
        if re.search(r"::(len|into|from|as_ref|deref|clone|unwrap_or|unwrap_or_default)$", f) and s["args"]:
            return _leaf(body, op, depth)
        return _leaf(body, op, depth)
    if s["p"].get("p"):
        return _leaf(body, op, depth)
    r = s["r"]
    k = r["k"]
    if k == "use":
        return expr_shape(body, r["o"], depth + 1, repo_pred)
    if k == "cast":
        return expr_shape(body, r["o"], depth + 1, repo_pred)
    if k == "bin":
        opn = r["op"][:-len("WithOverflow")] if r["op"].endswith("WithOverflow") else r["op"]
        return _node(opn, [expr_shape(body, r["a"], depth + 1, repo_pred), expr_shape(body, r["b"], depth + 1, repo_pred)])
    if k == "un":
        return _node(r["op"], [expr_shape(body, r["a"], depth + 1, repo_pred)])
    return _leaf(body, op, depth)


def expr_shape_of_def(body, d, depth, repo_pred):
    """shape of the right-hand side of one definition (bb, idx, stmt) of a local"""
    r = d[2]["r"]
    if r["k"] in ("use", "cast"):
        return expr_shape(body, r["o"], depth, repo_pred)
    if r["k"] == "bin":
        opn = r["op"][:-len("WithOverflow")] if r["op"].endswith("WithOverflow") else r["op"]
        return _node(opn, [expr_shape(body, r["a"], depth, repo_pred), expr_shape(body, r["b"], depth, repo_pred)])
    return "in"


def _node(op, kids):
    if op in _COMM:
        kids = sorted(kids, key=repr)
    return (op,) + tuple(kids)


def shape_str(s):
    if isinstance(s, tuple):
        return f"{s[0]}(" + ", ".join(shape_str(x) for x in s[1:]) + ")"
    return s.rsplit("::", 1)[-1] if s.startswith("call:") else s


def _body_reads_field(world, cb, field, depth=2, seen=None):
    seen = seen if seen is not None else set()
    if cb.id in seen:
        return False
    seen.add(cb.id)
    for bb, i, s in cb.all_stmts():
        r = s["r"]
        pls = [op_place(o) for o in [r.get("o"), r.get("a"), r.get("b")] + list(r.get("ops", [])) if isinstance(o, dict)]
        if isinstance(r.get("p"), dict):
            pls.append(r["p"])
        if any(pl and field in place_fields(pl) for pl in pls):
            return True
    if depth > 0:
        for bb, t in cb.calls():
            for cid in [t["f"]] + closure_args(cb, t):
                nb = world.bodies.get(cid)
                if nb is not None and _body_reads_field(world, nb, field, depth - 1, seen):
                    return True
    return False


def field_read_blocks(world, body, op, field, into_callees=2):
    """blocks of `body` at which `field` is read (directly, or inside a callee / closure invoked there) to produce the value of `op`
    - the flow-sensitive companion of Slicer atoms: *where* the value was sampled, so that a test can be placed before or after a write"""
    out, seen = set(), set()

    def place(p, bb):
        if field in place_fields(p):
            out.add(bb)
        local(p["l"])

    def operand(o, bb):
        p = op_place(o) if isinstance(o, dict) else None
        if p is not None:
            place(p, bb)

    def local(l):
        if l in seen:
            return
        seen.add(l)
        for bb, idx, s in body.defs().get(l, []):
            if idx == "term":
                if s["k"] == "call":
                    for cid in [s["f"]] + closure_args(body, s):
                        cb = world.bodies.get(cid)
                        if cb is not None and _body_reads_field(world, cb, field, into_callees):
                            out.add(bb)
                    for a in s["args"]:
                        operand(a, bb)
                continue
            if "*" in (s["p"].get("p") or ()):
                continue
            r = s["r"]
            for o in [r.get("o"), r.get("a"), r.get("b")] + list(r.get("ops", [])):
                if isinstance(o, dict):
                    operand(o, bb)
            if isinstance(r.get("p"), dict):
                place(r["p"], bb)

    operand(op, None)
    out.discard(None)
    return out


# ---------------------------------------------------------------- guards carried by boolean flags

def _flag_switches(body):
    """switches on a bool local with several definitions (`let due = match .. {..}; if due {..}`):
    yields (switch_bb, true_edges, false_edges, flag_local)"""
    for bb, t in switch_blocks(body):
        o = origin(body, t["d"])
        neg = False
        while o["k"] == "not":
            neg = not neg
            o = o["a"]
        if o["k"] != "place" or not o.get("multi") or o["p"].get("p"):
            continue
        l = o["p"]["l"]
        if body.tys[body.locals[l]["ty"]].get("s") != "bool":
            continue
        tt, ft = bool_edges(body, bb, t)
        te, fe = [(bb, tt)], ([(bb, ft)] if ft is not None else [])
        if neg:
            te, fe = fe, te
        yield bb, te, fe, l


def _flag_defs(body, l):
    """definitions of flag local l: list of (bb, kind, payload): ('false',), ('true',), ('op', operand) or ('call', term)"""
    out = []
    for bb, idx, s in body.defs().get(l, []):
        if idx == "term":
            out.append((bb, "call", s))
            continue
        r = s["r"]
        if r["k"] == "use":
            c = op_const(r["o"])
            if c is not None and c.get("v") in (0, 1):
                out.append((bb, "true" if c.get("v") == 1 else "false", None))
            else:
                out.append((bb, "op", r["o"]))
        else:
            out.append((bb, "rv", r))
    return out


def dominated_mod_flags(body, x, edges=(), blocks=(), depth=0):
    """x is dominated by one of the edges / blocks, directly or through a boolean flag: x hangs on the true edge of `if flag`
    and every definition of the flag other than `false` sits in a block that is itself dominated (recursively)"""
    if (edges or blocks) and body.dominated_by_any(x, blocks=blocks, edges=edges):
        return True
    if depth > 3:
        return False
    for sbb, te, fe, l in _flag_switches(body):
        if not te or not body.dominated_by_any(x, edges=te):
            continue
        defs = _flag_defs(body, l)
        live = [d for d in defs if d[1] != "false"]
        if live and all(dominated_mod_flags(body, d[0], edges, blocks, depth + 1) for d in live):
            return True
    return False


def _pos(v):
    return bool(v) and v != "neg"


def guarded_by_pred(body, x, pred, depth=0, side=True):
    """x hangs on the `side` (True: true side, False: false side) of a test whose value satisfies pred(origin) - directly
    (`if test {x}`), negated with the other side, or through a flag: x hangs on that side of `if flag`, and every definition of the
    flag that can give it that value (anything but the opposite constant) is such a test result or is itself guarded"""
    for sbb, te, fe, o in guards_on(body, pred):
        # pred may answer "neg": the test is the negation of the wanted predicate (`a != b` for `a == b`)
        pos = pred(o) != "neg"
        e = (te if side else fe) if pos else (fe if side else te)
        if e and body.dominated_by_any(x, edges=e):
            return True
    if depth > 3:
        return False
    opposite = "false" if side else "true"
    for sbb, te, fe, l in _flag_switches(body):
        e = te if side else fe
        if not e or not body.dominated_by_any(x, edges=e):
            continue
        live = [d for d in _flag_defs(body, l) if d[1] != opposite]
        if not live:
            continue
        ok = True
        for bb, kind, pl in live:
            if kind == "call" and _pos(pred({"k": "call", "bb": bb, "t": pl})):
                continue
            if kind == "op":
                o = origin(body, pl)
                n = 0
                while o["k"] == "not":
                    o = o["a"]; n += 1
                if (n % 2 == 0 and _pos(pred(o))) or (n % 2 == 1 and pred(o) == "neg"):
                    continue
            if kind == "rv" and pl["k"] == "bin" and _pos(pred({"k": "bin", "op": pl["op"], "a": pl["a"], "b": pl["b"], "bb": bb})):
                continue
            if kind == "rv" and pl["k"] == "un" and pl.get("op") == "Not":
                # `flag = !x`: the flag holds the negation of x
                o = origin(body, pl["a"])
                n = 1
                while o["k"] == "not":
                    o = o["a"]; n += 1
                if (n % 2 == 0 and _pos(pred(o))) or (n % 2 == 1 and pred(o) == "neg"):
                    continue
            if guarded_by_pred(body, bb, pred, depth + 1, side):
                continue
            ok = False
        if ok:
            return True
    return False


# ---------------------------------------------------------------- affine forms

def affine_forms(body, op, depth=0):
    """possible values of an integer operand as a set of (number of symbolic leaves, constant offset): `mtu.saturating_sub(20)
    .saturating_sub(8)`, `mtu - (20 + 8)` and `let h = 28; mtu.saturating_sub(h)` all give {(1, -28)}; a local assigned on several
    branches contributes one form per definition.  Saturation / wrapping / checks are ignored (the caller reasons about offsets)."""
    if depth > 30:
        return {(1, 0)}
    c = op_const(op)
    if c is not None:
        return {(0, c["v"])} if isinstance(c.get("v"), int) else {(1, 0)}
    p = op_place(op)
    if p is None:
        return {(1, 0)}
    if p.get("p"):
        pr = p["p"]
        if len(pr) == 1 and isinstance(pr[0], dict) and pr[0].get("i") == 0:
            d = single_def(body, p["l"])
            if d and d[1] != "term" and d[2]["r"]["k"] == "bin" and d[2]["r"]["op"].endswith("WithOverflow"):
                return _affine_bin(body, d[2]["r"]["op"][:-len("WithOverflow")], d[2]["r"]["a"], d[2]["r"]["b"], depth)
        return {(1, 0)}
    l = p["l"]
    if 1 <= l <= body.argc:
        return {(1, 0)}
    out = set()
    ds = body.defs().get(l, [])
    if not ds or len(ds) > 4:
        return {(1, 0)}
    for bb, idx, s in ds:
        if idx == "term":
            f = s.get("f", "") if s["k"] == "call" else ""
            m = re.search(r"::(saturating_sub|wrapping_sub|checked_sub|saturating_add|wrapping_add|checked_add)$", f)
            if m and len(s["args"]) == 2:
                out |= _affine_bin(body, "Sub" if "sub" in m.group(1) else "Add", s["args"][0], s["args"][1], depth)
            else:
                out.add((1, 0))
            continue
        if s["p"].get("p"):
            return {(1, 0)}
        r = s["r"]
        if r["k"] in ("use", "cast"):
            out |= affine_forms(body, r["o"], depth + 1)
        elif r["k"] == "bin" and r["op"].replace("WithOverflow", "").replace("Unchecked", "") in ("Add", "Sub"):
            out |= _affine_bin(body, r["op"].replace("WithOverflow", "").replace("Unchecked", ""), r["a"], r["b"], depth)
        else:
            out.add((1, 0))
    return out


def _affine_bin(body, op, a, b, depth):
    fa, fb = affine_forms(body, a, depth + 1), affine_forms(body, b, depth + 1)
    sg = 1 if op == "Add" else -1
    return {(x[0] + y[0], x[1] + sg * y[1]) for x in fa for y in fb}
