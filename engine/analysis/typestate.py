"""Enum-typestate dataflow: for chosen state cells (ADT fields of enum type) compute, at every write site, the set of
variants the cell may hold before the write and the set written - i.e. the transition relation the code implements.

Forward may-analysis over the MIR CFG.  Values are refined on `switchInt(discriminant(cell or snapshot copy))` edges
(tuple-of-copies scrutinees included) and on `PartialEq::eq/ne(cell, Variant)` tests, joined (union) at merges, and widened
to T at calls that may write the cell (callee write summaries, transitive over the in-repo call graph and closures)."""
from collections import defaultdict
from .facts import *
from .flow import origin, deref_origin, callees, closures_built, closure_args

TOP = None  # represented explicitly as the full variant set


class Event:
    __slots__ = ("body", "bb", "idx", "cell", "prior", "new", "identity", "site", "ctx", "pairs")

    def __init__(self, body, bb, idx, cell, prior, new, identity, site, ctx=None):
        self.body, self.bb, self.idx, self.cell, self.prior, self.new, self.identity, self.site, self.ctx = \
            body, bb, idx, cell, prior, new, identity, site, ctx
        self.pairs = {(prior, new, identity)}   # per-path transition pairs (trace partitioned)

    def __repr__(self):
        return f"<write {self.cell} in {self.body.id} bb{self.bb}: {sorted(self.prior)} -> {'=' if self.identity else sorted(self.new)}>"


def _pkey(p):
    """hashable key of a local place restricted to field projections (tuple / struct fields); None if not simple"""
    path = []
    for e in p.get("p", ()):
        if isinstance(e, dict) and "f" in e:
            path.append(e["i"])
        elif isinstance(e, dict) and "v" in e:
            path.append("v:" + e["v"])
        elif e == "*":
            path.append("*")
        else:
            return None
    return (p["l"], tuple(path))


class Typestate:
    def __init__(self, world, cells):
        """cells: {'Owner::field': 'enum adt path'}"""
        self.w = world
        self.cells = dict(cells)
        self.universe = {}
        for c, adt in self.cells.items():
            vs = world.enum_variants(adt)
            self.universe[c] = frozenset(n for _, n in vs) if vs else frozenset()
        self.adts = set(self.cells.values())
        self._wsum = {}

    # ------------------------------------------------------------ helpers
    def cell_of(self, p):
        f = place_last_field(p)
        if f in self.cells:
            # the place must end at the cell (no further projection after the field)
            last = p["p"][-1]
            if isinstance(last, dict) and last.get("f") is not None:
                return f
        return None

    def _enum_local(self, body, p):
        """is p a local place (bare local / tuple fields) - tracked regardless of type; cheap"""
        k = _pkey(p)
        if k is None:
            return None
        if any(x == "*" for x in k[1]):
            return None
        return k

    def variant_universe_for_adt(self, adt):
        vs = self.w.enum_variants(adt)
        return frozenset(n for _, n in vs) if vs else frozenset()

    # ------------------------------------------------------------ write summaries
    def writes(self, fid, depth=0, stack=()):
        """cells possibly written by fid (transitively): {cell: set(values) or None for unknown}"""
        if fid in self._wsum:
            return self._wsum[fid]
        if fid in stack or depth > 12:
            return {}
        b = self.w.bodies.get(fid)
        if b is None:
            return {}
        out = {}
        for bb, i, s in b.all_stmts():
            c = self.cell_of(s["p"])
            if c:
                r = s["r"]
                vals = None
                if r["k"] == "agg" and r.get("adt") == self.cells[c]:
                    vals = {r["variant"]}
                elif r["k"] == "use":
                    o = origin(b, r["o"])
                    if o["k"] == "agg" and o["r"].get("adt") == self.cells[c]:
                        vals = {o["r"]["variant"]}
                if c in out and out[c] is not None and vals is not None:
                    out[c] = out[c] | vals
                elif c in out:
                    out[c] = None if (out[c] is None or vals is None) else out[c]
                else:
                    out[c] = vals
        for cid in callees(self.w, b):
            sub = self.writes(cid, depth + 1, stack + (fid,))
            for c, v in sub.items():
                if c in out:
                    out[c] = None if (out[c] is None or v is None) else (out[c] | v)
                else:
                    out[c] = v
        if not stack:
            self._wsum[fid] = out
        return out

    # ------------------------------------------------------------ the analysis
    def analyze(self, body, entry=None, ctx=None, cap=24):
        """returns (events, state_in).  Trace-partitioned: state_in[bb] is a list of distinct abstract states
        ({'cell': {cell: frozenset}, 'loc':.., 'alias':.., 'ladt':..}); beyond `cap` states per block they are joined."""
        U = self.universe
        init = {"cell": {c: (entry.get(c, U[c]) if entry else U[c]) for c in self.cells}, "loc": {}, "alias": {}, "ladt": {}}
        state_in = {0: [init]}
        keys_in = {0: {_skey(init)}}
        work = [(0, init)]
        events = {}
        iters = 0
        while work:
            iters += 1
            if iters > 60000:
                break
            bb, st0 = work.pop()
            st = _copy(st0)
            blk = body.blocks[bb]
            for i, s in enumerate(blk["st"]):
                if "p" not in s:
                    continue
                self._stmt(body, bb, i, s, st, events, ctx)
            t = blk["term"]
            outs = self._term(body, bb, t, st)
            for succ, sst in outs:
                if succ is None or body.is_cleanup(succ):
                    continue
                k = _skey(sst)
                ks = keys_in.setdefault(succ, set())
                if k in ks:
                    continue
                lst = state_in.setdefault(succ, [])
                if len(lst) >= cap:
                    j = lst[0]
                    for x in lst[1:]:
                        j, _ = _join(j, x)
                    j, _ = _join(j, sst)
                    kj = _skey(j)
                    state_in[succ] = [j]
                    if kj in ks and len(lst) == 1:
                        continue
                    keys_in[succ] = {kj} | ks
                    work.append((succ, j))
                else:
                    ks.add(k)
                    lst.append(sst)
                    work.append((succ, sst))
        return list(events.values()), state_in

    def states_at_end(self, body, bb, state_in):
        """abstract states at the end of block bb (before its terminator)"""
        out = []
        for st0 in state_in.get(bb, []):
            st = _copy(st0)
            for i, s in enumerate(body.blocks[bb]["st"]):
                if "p" in s:
                    self._stmt(body, bb, i, s, st, {}, None)
            out.append(st)
        return out

    def _value_of_operand(self, body, op, st):
        """(value set or None=unknown, alias cell or None, adt)"""
        c = op_const(op)
        if c is not None:
            return None, None, None
        p = op_place(op)
        cell = self.cell_of(p)
        if cell:
            return st["cell"][cell], cell, self.cells[cell]
        k = self._enum_local(body, p)
        if k is not None and k in st["loc"]:
            return st["loc"][k], st["alias"].get(k), st["ladt"].get(k)
        return None, None, None

    def _set_local(self, st, k, val, alias, adt):
        if val is None:
            st["loc"].pop(k, None)
            st["alias"].pop(k, None)
            st["ladt"].pop(k, None)
        else:
            st["loc"][k] = val
            st["ladt"][k] = adt
            if alias:
                st["alias"][k] = alias
            else:
                st["alias"].pop(k, None)

    def _kill_prefix(self, st, l):
        for k in [k for k in st["loc"] if k[0] == l]:
            st["loc"].pop(k, None)
            st["alias"].pop(k, None)
            st["ladt"].pop(k, None)

    def _stmt(self, body, bb, i, s, st, events, ctx):
        p, r = s["p"], s["r"]
        cell = self.cell_of(p)
        k = r["k"]
        if cell:
            U = self.universe[cell]
            prior = st["cell"][cell]
            new, identity = U, False
            if k == "agg" and r.get("adt") == self.cells[cell]:
                new = frozenset([r["variant"]])
            elif k == "use":
                v, al, adt = self._value_of_operand(body, r["o"], st)
                if v is not None and adt == self.cells[cell]:
                    new = v
                    identity = (al == cell)
            key = (bb, i)
            if key in events:
                e = events[key]
                e.pairs.add((prior, new, identity))
                e.prior = e.prior | prior
                e.new = e.new | new
                e.identity = e.identity and identity
            else:
                events[key] = Event(body, bb, i, cell, prior, new, identity, s.get("s", body.span), ctx)
            st["cell"][cell] = new
            if not identity:
                for kk in [kk for kk, c in st["alias"].items() if c == cell]:
                    st["alias"].pop(kk, None)
            return
        lk = self._enum_local(body, p)
        if lk is None:
            # write through a deref etc: if it may alias a tracked local we ignore (locals holding enum copies are temps)
            return
        if not lk[1]:
            self._kill_prefix(st, lk[0])
        if k == "use":
            v, al, adt = self._value_of_operand(body, r["o"], st)
            self._set_local(st, lk, v, al, adt)
        elif k == "agg":
            if r.get("ak") == "adt" and r.get("adt") in self.adts and self.w.adts.get(r["adt"], {}).get("kind") == "enum":
                self._set_local(st, lk, frozenset([r["variant"]]), None, r["adt"])
            elif r.get("ak") == "tuple":
                self._set_local(st, lk, None, None, None)
                for j, o in enumerate(r["ops"]):
                    v, al, adt = self._value_of_operand(body, o, st)
                    if v is not None:
                        self._set_local(st, (lk[0], lk[1] + (j,)), v, al, adt)
            else:
                self._set_local(st, lk, None, None, None)
        else:
            self._set_local(st, lk, None, None, None)

    def _discr_source(self, body, op, st):
        """if op is `discriminant(Q)` return ('cell', cell) / ('loc', key) and adt"""
        o = origin(body, op)
        if o["k"] != "discr":
            return None
        p = o["p"]
        cell = self.cell_of(p)
        if cell:
            return ("cell", cell, self.cells[cell])
        k = self._enum_local(body, p)
        if k is not None and k in st["loc"]:
            return ("loc", k, st["ladt"].get(k))
        # untracked local of a tracked enum type: start tracking from T
        if k is not None and o.get("adt") in self.adts:
            st["loc"][k] = self.variant_universe_for_adt(o["adt"])
            st["ladt"][k] = o["adt"]
            return ("loc", k, o["adt"])
        return None

    def _refine(self, st, src, keep):
        """intersect src with keep; returns False if infeasible"""
        kind, key, adt = src
        st = _copy(st)
        if kind == "cell":
            nv = st["cell"][key] & keep
            st["cell"][key] = nv
            for kk, c in st["alias"].items():
                if c == key and kk in st["loc"]:
                    st["loc"][kk] = st["loc"][kk] & keep
            return st if nv else None
        nv = st["loc"][key] & keep
        st["loc"][key] = nv
        al = st["alias"].get(key)
        if al:
            st["cell"][al] = st["cell"][al] & keep
            if not st["cell"][al]:
                return None
        return st if nv else None

    def _term(self, body, bb, t, st):
        k = t["k"]
        if k == "switch":
            src = self._discr_source(body, t["d"], st)
            if src is not None and src[2]:
                adt = src[2]
                outs = []
                listed = set()
                for v, tgt in t["targets"]:
                    name = self.w.variant_of_discr(adt, v)
                    if name is None:
                        outs.append((tgt, _copy(st)))
                        continue
                    listed.add(name)
                    s2 = self._refine(st, src, frozenset([name]))
                    if s2 is not None:
                        outs.append((tgt, s2))
                uni = self.variant_universe_for_adt(adt)
                s2 = self._refine(st, src, uni - listed)
                if s2 is not None:
                    outs.append((t["else"], s2))
                return outs
            # bool test from PartialEq::eq / ne against a constant variant
            o = origin(body, t["d"])
            neg = False
            while o["k"] == "not":
                neg = not neg
                o = o["a"]
            if o["k"] == "call" and re.search(r"PartialEq>::(eq|ne)$|^std::cmp::PartialEq::(eq|ne)$", o["t"]["f"]) and len(o["t"]["args"]) == 2:
                is_ne = o["t"]["f"].endswith("ne")
                a0 = deref_origin(body, o["t"]["args"][0])
                a1 = deref_origin(body, o["t"]["args"][1])
                for x, y in ((a0, a1), (a1, a0)):
                    if x["k"] == "place" and y["k"] == "agg":
                        cell = self.cell_of(x["p"])
                        var = y["r"].get("variant")
                        if cell and y["r"].get("adt") == self.cells[cell] and var:
                            src = ("cell", cell, self.cells[cell])
                            eqset = frozenset([var])
                            uni = self.universe[cell]
                            true_keep, false_keep = (eqset, uni - eqset)
                            if is_ne != neg:
                                true_keep, false_keep = false_keep, true_keep
                            outs = []
                            ft = None
                            for v, tgt in t["targets"]:
                                if v == 0:
                                    ft = tgt
                            s_t = self._refine(st, src, true_keep)
                            if s_t is not None:
                                outs.append((t["else"], s_t))
                            if ft is not None:
                                s_f = self._refine(st, src, false_keep)
                                if s_f is not None:
                                    outs.append((ft, s_f))
                            return outs
            return [(s, _copy(st)) for s in body.succ(bb)]
        if k == "call":
            # effect of callees on cells
            fid = t["f"]
            targets = []
            if fid in self.w.bodies:
                targets.append(fid)
            for cid in closure_args(body, t):
                if cid in self.w.bodies:
                    targets.append(cid)
            for tg in targets:
                ws = self.writes(tg)
                for c, v in ws.items():
                    if v is None:
                        st["cell"][c] = self.universe[c]
                    else:
                        st["cell"][c] = st["cell"][c] | frozenset(v)
                    for kk in [kk for kk, cc in st["alias"].items() if cc == c]:
                        st["alias"].pop(kk, None)
            # destination
            dk = self._enum_local(body, t["d"])
            if dk is not None:
                if not dk[1]:
                    self._kill_prefix(st, dk[0])
                self._set_local(st, dk, None, None, None)
            return [(s, _copy(st)) for s in body.succ(bb)]
        return [(s, _copy(st)) for s in body.succ(bb)]

    # ------------------------------------------------------------ context-sensitive walk
    def walk(self, root_id, depth=3):
        """analyse root with T entry and every in-repo callee (and closure) with the entry state observed at its call
        sites, to the given inlining depth; returns all events"""
        out = []
        seen = set()

        def rec(fid, entry, d, chain):
            b = self.w.bodies.get(fid)
            if b is None:
                return
            key = (fid, tuple(sorted((c, tuple(sorted(v))) for c, v in (entry or {}).items())))
            if key in seen:
                return
            seen.add(key)
            ev, sin = self.analyze(b, entry, ctx=chain)
            out.extend(ev)
            if d <= 0:
                return
            for bb in sorted(sin):
                t = b.term(bb)
                if t["k"] != "call":
                    continue
                tg = []
                if t["f"] in self.w.bodies:
                    tg.append(t["f"])
                tg += [c for c in closure_args(b, t) if c in self.w.bodies]
                if not tg:
                    continue
                sts = self.states_at_end(b, bb, sin)
                if not sts:
                    continue
                ent = {}
                for st in sts:
                    for c, v in st["cell"].items():
                        ent[c] = ent.get(c, frozenset()) | v
                for x in tg:
                    rec(x, ent, d - 1, chain + (fid,))
        rec(root_id, None, depth, ())
        return out


def _skey(st):
    return (tuple(sorted((c, tuple(sorted(v))) for c, v in st["cell"].items())),
            tuple(sorted((str(k), tuple(sorted(v))) for k, v in st["loc"].items())),
            tuple(sorted((str(k), v) for k, v in st["alias"].items())))


def _copy(st):
    return {"cell": dict(st["cell"]), "loc": dict(st["loc"]), "alias": dict(st["alias"]), "ladt": dict(st["ladt"])}


def _join(a, b):
    changed = False
    out = _copy(a)
    for c, v in b["cell"].items():
        nv = out["cell"][c] | v
        if nv != out["cell"][c]:
            out["cell"][c] = nv
            changed = True
    # locals: keep only keys present in both (else unknown); union values
    for k in list(out["loc"].keys()):
        if k not in b["loc"]:
            out["loc"].pop(k)
            out["alias"].pop(k, None)
            out["ladt"].pop(k, None)
            changed = True
        else:
            nv = out["loc"][k] | b["loc"][k]
            if nv != out["loc"][k]:
                out["loc"][k] = nv
                changed = True
            if out["alias"].get(k) != b["alias"].get(k) and k in out["alias"]:
                out["alias"].pop(k, None)
                changed = True
    return out, changed
