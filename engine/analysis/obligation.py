"""Obligation (acquire / release / RAII) dataflow over MIR, including the cancellation (`Yield` drop) edges of async bodies.

An obligation "a table entry was registered and nobody owns it yet" is created by an ACQUIRE call and must be gone at
every exit: Return, the error arm of `?`, and the drop edge of every Yield (the future is dropped while suspended).
It is discharged by a RELEASE call, by a DISCHARGE call (ownership passes to a handle whose Drop releases - checked
elsewhere), or by being handed to a guard: a local whose type's drop glue reaches RELEASE.  Moving a guard into a call
that is not itself a discharge gives the obligation back (e.g. `guard.disarm()`).

Closures passed to once-combinators are summarised bottom-up: (outstanding on Ok-return, outstanding on Err-return),
and the summary is applied at the combinator call through the `?` / match on its result.

Path-sensitive: the state is a set of configurations (outstanding, live guards, kind of value last stored in _0,
pending results)."""
from .facts import *
from .flow import origin, closure_args, is_once_combinator, is_maybe_combinator, drop_glue_targets, reach_bodies


class Spec:
    def __init__(self, acquire, release, discharge=(), guard_types=(), carriers=()):
        self.acquire = acquire          # callee patterns creating the obligation
        self.release = release          # callee patterns removing it
        self.discharge = discharge      # callee patterns / aggregate ADTs that take ownership
        self.guard_types = set(guard_types)
        self.carriers = carriers


class Leak:
    def __init__(self, body, bb, kind, site, note=""):
        self.body, self.bb, self.kind, self.site, self.note = body, bb, kind, site, note

    def __repr__(self):
        return f"<leak {self.kind} in {self.body.id} bb{self.bb} {self.site}>"


class Obligations:
    def __init__(self, world, spec):
        self.w = world
        self.spec = spec
        self._sum = {}

    def guard_adt(self, body, ty_idx):
        t = body.peel(body.tys[ty_idx]) if body.tys[ty_idx].get("k") == "adt" else body.tys[ty_idx]
        return t.get("adt") in self.spec.guard_types

    def discover_guard_types(self):
        """ADTs with a Drop impl whose body family may call RELEASE"""
        out = set()
        for im in self.w.impls:
            if im.get("trait") == "std::ops::Drop" and im.get("self_adt"):
                for it in im["items"]:
                    fam = reach_bodies(self.w, [it])
                    for fid in fam:
                        if any(True for _ in self.w.bodies[fid].calls(self.spec.release)):
                            out.add(im["self_adt"])
        return out

    # ------------------------------------------------------------------
    def summary(self, fid, stack=()):
        """(may be outstanding on Ok/plain return, may be outstanding on Err return, leaks inside)"""
        if fid in self._sum:
            return self._sum[fid]
        if fid in stack:
            return (False, False, [])
        b = self.w.bodies.get(fid)
        if b is None:
            return (False, False, [])
        res = self.analyze(b, stack + (fid,))
        self._sum[fid] = res
        return res

    def analyze(self, body, stack=()):
        spec = self.spec
        # configuration: (outstanding, guards frozenset, retkind, pending frozenset of (local, ok, err))
        init = (False, frozenset(), None, frozenset())
        state = {0: {init}}
        work = [0]
        leaks = {}
        ret_ok = ret_err = False
        n = 0
        while work:
            n += 1
            if n > 50000:
                break
            bb = work.pop()
            cfgs = state[bb]
            blk = body.blocks[bb]
            outs = []  # (succ, cfg)
            for cfg in cfgs:
                O, G, K, P = cfg
                for s in blk["st"]:
                    if "p" not in s:
                        continue
                    O, G, K, P = self._stmt(body, s, O, G, K, P)
                t = blk["term"]
                k = t["k"]
                if k == "return":
                    if O:
                        if K == "err":
                            ret_err = True
                        else:
                            ret_ok = True
                    continue
                if k in ("cordrop", "resume", "abort", "unreachable"):
                    continue
                if k == "yield":
                    if O:
                        leaks[(bb, "cancel")] = Leak(body, bb, "cancel", t.get("s", body.span),
                                                      "the future can be dropped while suspended here with the obligation outstanding and no guard")
                    outs.append((t["resume"], (O, G, K, P)))
                    # the drop edge only runs destructors; guards release there
                    continue
                if k == "drop":
                    l = t["p"]["l"]
                    if not t["p"].get("p") and l in G:
                        G = G - {l}
                    outs.append((t["t"], (O, G, K, P)))
                    continue
                if k == "call":
                    for succ, c2 in self._call(body, bb, t, O, G, K, P, stack):
                        outs.append((succ, c2))
                    continue
                if k == "switch":
                    # pending result resolved by `?` (ControlFlow) or a match on Result
                    o = origin(body, t["d"])
                    handled = False
                    if o["k"] == "discr" and not o["p"].get("p"):
                        l = o["p"]["l"]
                        pend = [p for p in P if p[0] == l]
                        if pend:
                            _, okv, errv = pend[0]
                            P2 = frozenset(p for p in P if p[0] != l)
                            for v, tgt in t["targets"]:
                                # ControlFlow: 0 = Continue, 1 = Break ; Result: 0 = Ok, 1 = Err
                                outs.append((tgt, (O or (okv if v == 0 else errv), G, K, P2)))
                            outs.append((t["else"], (O or okv or errv, G, K, P2)))
                            handled = True
                    if not handled:
                        for s2 in body.succ(bb):
                            outs.append((s2, (O, G, K, P)))
                    continue
                for s2 in body.succ(bb):
                    outs.append((s2, (O, G, K, P)))
            for succ, c2 in outs:
                if succ is None or body.is_cleanup(succ):
                    continue
                cur = state.setdefault(succ, set())
                if c2 not in cur:
                    if len(cur) > 64:
                        # widen: merge to a single conservative configuration
                        O2 = any(c[0] for c in cur) or c2[0]
                        cur.clear()
                        cur.add((O2, frozenset(), None, frozenset()))
                    else:
                        cur.add(c2)
                    work.append(succ)
        return (ret_ok, ret_err, list(leaks.values()))

    def _stmt(self, body, s, O, G, K, P):
        p, r = s["p"], s["r"]
        k = r["k"]
        # moves of pending results / guards between locals
        if k == "use":
            src = op_place(r["o"])
            if src is not None and "m" in r["o"]:
                sl = src["l"]
                if not p.get("p"):
                    dl = p["l"]
                    if sl in G and not src.get("p"):
                        G = (G - {sl}) | {dl}
                    pend = [x for x in P if x[0] == sl]
                    if pend and not src.get("p"):
                        P = frozenset(x for x in P if x[0] != sl) | {(dl, pend[0][1], pend[0][2])}
        if k == "agg":
            adt = r.get("adt")
            if adt in self.spec.guard_types and not p.get("p"):
                if O:
                    O = False
                G = G | {p["l"]}
            elif adt and callee_in(adt, self.spec.discharge):
                O = False
            if p["l"] == 0 and not p.get("p") and adt == "std::result::Result":
                K = "ok" if r.get("variant") == "Ok" else "err"
            # moving a guard into an aggregate (e.g. the returned handle) keeps it alive there
            for o in r.get("ops", ()):
                src = op_place(o)
                if src is not None and "m" in o and not src.get("p") and src["l"] in G and not p.get("p"):
                    G = (G - {src["l"]}) | {p["l"]}
        if p["l"] == 0 and not p.get("p") and k == "use":
            K = None
        return O, G, K, P

    def _call(self, body, bb, t, O, G, K, P, stack):
        spec = self.spec
        succ = t["t"]
        if succ is None:
            return []
        f = t["f"]
        dl = t["d"]["l"] if not t["d"].get("p") else None
        # guards moved into the call
        moved = []
        for a in t["args"]:
            src = op_place(a)
            if src is not None and "m" in a and not src.get("p") and src["l"] in G:
                moved.append(src["l"])
        if callee_matches(t, spec.release):
            return [(succ, (False, G, K, P))]
        if callee_matches(t, spec.discharge):
            G2 = G - set(moved)
            return [(succ, (False, G2, K, P))]
        if callee_matches(t, spec.acquire):
            rty = body.tys[body.locals[dl]["ty"]] if dl is not None else {}
            if rty.get("adt") == "std::result::Result" and dl is not None:
                return [(succ, (O, G, K, P | {(dl, True, False)}))]
            return [(succ, (True, G, K, P))]
        if dl is not None and O:
            rty = body.tys[body.locals[dl]["ty"]]
            if rty.get("adt") in spec.guard_types and any(op_place(a) is not None for a in t["args"]):
                return [(succ, (False, G | {dl}, K, P))]
        if moved:
            G = G - set(moved)
            # a consuming call that is not a discharge hands the obligation back, unless the callee itself always releases
            cb = self.w.bodies.get(f)
            released = False
            if cb is not None:
                from .flow import always_calls
                released = always_calls(self.w, cb, spec.release)
            if not released:
                O = True
        if dl == 0:
            K = "err" if re.search(r"FromResidual>::from_residual$|FromResidual::from_residual$", f) else None
        # `?`: Try::branch moves a pending result
        if re.search(r"Try>::branch$|Try::branch$", f) and t["args"]:
            src = op_place(t["args"][0])
            if src is not None and not src.get("p"):
                pend = [x for x in P if x[0] == src["l"]]
                if pend and dl is not None:
                    P = frozenset(x for x in P if x[0] != src["l"]) | {(dl, pend[0][1], pend[0][2])}
            return [(succ, (O, G, K, P))]
        # in-repo callee / closure through a combinator: apply its summary
        targets = []
        if f in self.w.bodies and f not in stack:
            targets.append((f, "direct"))
        for cid in closure_args(body, t):
            if cid in self.w.bodies and cid not in stack:
                targets.append((cid, "closure"))
        okv = errv = False
        from .flow import always_calls
        for cid, kind in targets:
            if kind == "closure" and not is_once_combinator(t):
                continue
            if O and always_calls(self.w, self.w.bodies[cid], spec.release):
                O = False
        for cid, kind in targets:
            so, se, inner = self.summary(cid, stack)
            okv = okv or so
            errv = errv or se
        if okv or errv:
            rty = body.tys[body.locals[dl]["ty"]] if dl is not None else {}
            if rty.get("adt") == "std::result::Result" and dl is not None:
                P = P | {(dl, okv, errv)}
                return [(succ, (O, G, K, P))]
            return [(succ, (O or okv or errv, G, K, P))]
        return [(succ, (O, G, K, P))]


def callee_in(name, pats):
    if not pats:
        return False
    for p in (pats if isinstance(pats, (list, tuple, set)) else [pats]):
        if hasattr(p, "search"):
            if p.search(name):
                return True
        elif p == name:
            return True
    return False
