"""Fact loader: resolved MIR (mir_built) facts dumped by engine/extract, one JSON per crate.

Everything a rule sees comes from here: bodies (CFG, statements with typed places, resolved callees),
the ADT table, trait impls, statics.  Nothing in this package executes the analysed code.
"""
import json, os, re, glob
from collections import defaultdict


class Body:
    __slots__ = ("id", "crate", "kind", "parent", "span", "argc", "locals", "blocks", "tys", "raw",
                 "_succ", "_pred", "_defs", "_vt", "world", "upvars", "is_async", "vis", "impl_trait", "coroutine", "x")

    def __init__(self, raw, crate, tys, world):
        self.raw = raw
        self.id = raw["id"]
        self.crate = crate
        self.kind = raw["kind"]
        self.parent = raw.get("parent")
        self.span = raw["span"]
        self.argc = raw["argc"]
        self.locals = raw["locals"]
        self.blocks = raw["blocks"]
        self.upvars = raw.get("upvars", {})
        self.is_async = raw.get("is_async", False)
        self.vis = raw.get("vis")
        self.impl_trait = raw.get("impl_trait")
        self.coroutine = raw.get("coroutine")
        self.x = raw.get("x")
        self.tys = tys
        self.world = world
        self._succ = None
        self._pred = None
        self._defs = None
        self._vt = None

    # ------------------------------------------------------------ types
    def ty(self, idx):
        return self.tys[idx]

    def local_ty(self, l):
        return self.tys[self.locals[l]["ty"]]

    def local_name(self, l):
        return self.locals[l].get("n")

    def peel(self, t):
        """strip references / raw pointers / Box"""
        while True:
            if t.get("k") in ("ref", "ptr"):
                t = self.tys[t["inner"]]
            elif t.get("k") == "adt" and t["adt"] in ("std::boxed::Box",) and t["args"]:
                t = self.tys[t["args"][0]]
            else:
                return t

    def local_adt(self, l):
        t = self.peel(self.local_ty(l))
        return t.get("adt")

    def ty_str(self, idx):
        return self.tys[idx]["s"]

    # ------------------------------------------------------------ CFG
    def term(self, bb):
        return self.blocks[bb]["term"]

    def is_cleanup(self, bb):
        return self.blocks[bb].get("cleanup", False)

    def succ(self, bb):
        """Normal-flow successors: no unwind edges, only the real target of false edges.
        Yield has two successors: resume and (tagged separately) the cancellation drop edge."""
        if self._succ is None:
            self._succ = [self._succ_of(i) for i in range(len(self.blocks))]
        return self._succ[bb]

    def _succ_of(self, bb):
        t = self.blocks[bb]["term"]
        k = t["k"]
        if k == "goto":
            return [t["t"]]
        if k == "switch":
            out = []
            for _, b in t["targets"]:
                if b not in out:
                    out.append(b)
            if t["else"] not in out:
                out.append(t["else"])
            return out
        if k in ("drop", "assert"):
            return [t["t"]]
        if k == "call":
            return [t["t"]] if t["t"] is not None else []
        if k == "yield":
            out = [t["resume"]]
            if t.get("drop") is not None:
                out.append(t["drop"])
            return out
        if k == "falseedge":
            return [t["real"]]
        if k == "falseunwind":
            return [t["real"]]
        return []

    def pred(self, bb):
        if self._pred is None:
            p = [[] for _ in self.blocks]
            for i in range(len(self.blocks)):
                if self.is_cleanup(i):
                    continue
                for s in self.succ(i):
                    p[s].append(i)
            self._pred = p
        return self._pred[bb]

    def reachable(self, start=0, removed_blocks=(), removed_edges=(), stop=()):
        """blocks reachable from `start` over normal flow, never entering removed blocks / crossing removed edges;
        blocks in `stop` are reached but not expanded"""
        removed_blocks = set(removed_blocks)
        removed_edges = set(removed_edges)
        stop = set(stop)
        if start in removed_blocks:
            return set()
        seen = {start}
        work = [start]
        while work:
            b = work.pop()
            if b in stop:
                continue
            for s in self.succ(b):
                if s in seen or s in removed_blocks or (b, s) in removed_edges:
                    continue
                seen.add(s)
                work.append(s)
        return seen

    def live_blocks(self):
        return self.reachable(0)

    def exits(self, kinds=("return",)):
        live = self.live_blocks()
        return [b for b in live if self.term(b)["k"] in kinds]

    def dominated_by_block(self, target, dom):
        """every path entry->target passes through block dom"""
        if target == dom:
            return True
        return target not in self.reachable(0, removed_blocks=[dom])

    def dominated_by_edge(self, target, edge):
        return self.dominated_by_any(target, edges=[edge])

    def dominated_by_any(self, target, blocks=(), edges=(), _depth=0):
        """every path entry->target passes through one of the blocks or edges.  Feasible paths only, for one correlation the
        code base uses all the time: a verdict carried in an enum local (`let v = if c { None } else { f() }; if let Some(x) = v { .. }`).
        A path that takes the `Some` edge of the test got its value from a definition that can be `Some`; if every such
        definition lies behind `edges`, so does the target."""
        blocks, edges = list(blocks), list(edges)
        if target not in self.reachable(0, removed_blocks=blocks, removed_edges=edges):
            return True
        if _depth >= 2:
            return False
        for (sbb, tgt, local, variant) in self._variant_tests():
            if target in self.reachable(0, removed_blocks=blocks, removed_edges=edges + [(sbb, tgt)]):
                continue
            poss = []
            for d in self.defs().get(local, []):
                r = d[2].get("r") if d[1] != "term" else None
                if r is not None and r["k"] == "agg" and r.get("variant") and r["variant"] != variant:
                    continue
                if r is not None and variant in (True, False) and r["k"] == "use" and op_const(r.get("o")) is not None and \
                        op_const(r["o"]).get("v") in (0, 1) and bool(op_const(r["o"])["v"]) != variant:
                    continue   # `let f = a && b` lowers to `f = if a { b } else { false }`: the true edge of a test of f never follows the `false`
                poss.append(d[0])
            if poss and sbb not in poss and all(self.dominated_by_any(x, blocks, edges, _depth + 1) for x in poss):
                return True
        return False

    def _variant_tests(self):
        """(switch block, target block, local, variant name) for every `switchInt(discriminant(local))` edge that names one variant"""
        if getattr(self, "_vt", None) is None:
            out = []
            for bb in sorted(self.live_blocks()):
                t = self.term(bb)
                if t["k"] != "switch":
                    continue
                pl = t["d"].get("c") or t["d"].get("m")
                if not isinstance(pl, dict) or pl.get("p"):
                    continue
                # a test of a boolean flag that has several definitions (one of them a constant)
                fl = pl["l"]
                fd = self.defs().get(fl, [])
                if len(fd) == 1 and fd[0][1] != "term" and fd[0][2]["r"]["k"] == "use":
                    o = fd[0][2]["r"]["o"]
                    p2 = (o.get("m") or o.get("c")) if isinstance(o, dict) and "k" not in o else None
                    if isinstance(p2, dict) and not p2.get("p"):
                        fl = p2["l"]
                        fd = self.defs().get(fl, [])
                if len(fd) >= 2 and len(t["targets"]) == 1 and t["targets"][0][0] == 0 and \
                        any(d[1] != "term" and d[2]["r"]["k"] == "use" and op_const(d[2]["r"].get("o")) is not None for d in fd):
                    out.append((bb, t["else"], fl, True))
                    out.append((bb, t["targets"][0][1], fl, False))
                    continue
                ds = [d for d in self.defs().get(pl["l"], []) if d[1] != "term" and d[2]["r"]["k"] == "discr"]
                if len(ds) != 1 or len(self.defs().get(pl["l"], [])) != 1:
                    continue
                r = ds[0][2]["r"]
                src = r["p"]
                if src.get("p") or not r.get("adt"):
                    continue
                local = src["l"]
                # `_t = move v; discriminant(_t)`: look through one whole-local move
                d1 = self.defs().get(local, [])
                if len(d1) == 1 and d1[0][1] != "term" and d1[0][2]["r"]["k"] == "use":
                    o = d1[0][2]["r"]["o"]
                    p2 = o.get("m") or o.get("c") if isinstance(o, dict) else None
                    if isinstance(p2, dict) and not p2.get("p") and "k" not in o:
                        local = p2["l"]
                tg = {}
                for v, b2 in t["targets"]:
                    tg.setdefault(b2, []).append(v)
                for b2, vs in tg.items():
                    if len(vs) == 1 and b2 != t["else"]:
                        name = self.world.variant_of_discr(r["adt"], vs[0]) if self.world is not None else None
                        if name is not None:
                            out.append((bb, b2, local, name))
            self._vt = out
        return self._vt

    # ------------------------------------------------------------ statements
    def stmts(self, bb):
        return [s for s in self.blocks[bb]["st"] if "p" in s]

    def all_stmts(self):
        for bb in sorted(self.live_blocks()):
            for i, s in enumerate(self.blocks[bb]["st"]):
                if "p" in s:
                    yield bb, i, s

    def calls(self, pat=None):
        """(bb, term) for every live call terminator whose resolved callee matches pat"""
        for bb in sorted(self.live_blocks()):
            t = self.term(bb)
            if t["k"] == "call" and (pat is None or callee_matches(t, pat)):
                yield bb, t

    def defs(self):
        """local -> list of (bb, idx or 'term', rvalue-or-term) for whole-local definitions (no projection)
        plus partial writes flagged separately"""
        if self._defs is None:
            d = defaultdict(list)
            for bb in range(len(self.blocks)):
                if self.is_cleanup(bb):
                    continue
                for i, s in enumerate(self.blocks[bb]["st"]):
                    if "p" in s:
                        d[s["p"]["l"]].append((bb, i, s))
                t = self.term(bb)
                if t["k"] == "call":
                    d[t["d"]["l"]].append((bb, "term", t))
                elif t["k"] == "yield":
                    d[t["ra"]["l"]].append((bb, "term", t))
            self._defs = d
        return self._defs

    def line(self, s):
        sp = s.get("s", "")
        return sp

    def site(self, bb, idx=None):
        if idx is None or idx == "term":
            return self.term(bb).get("s", self.span)
        return self.blocks[bb]["st"][idx].get("s", self.span)


def short_span(sp):
    """file:line (drop column)"""
    m = re.match(r"^(.*?):(\d+):\d+$", sp)
    return f"{m.group(1)}:{m.group(2)}" if m else sp


# ---------------------------------------------------------------- place / operand helpers

def op_place(op):
    if op is None:
        return None
    return op.get("c") or op.get("m")


def op_local(op):
    """local of an operand that is a bare local (no projection), else None"""
    p = op_place(op)
    if p is not None and not p.get("p"):
        return p["l"]
    return None


def op_base(op):
    p = op_place(op)
    return p["l"] if p is not None else None


def op_const(op):
    if op is not None and "k" in op and "c" not in op and "m" not in op:
        return op
    return None


def place_fields(p):
    """['Owner::field', ...] along the projection"""
    out = []
    for e in p.get("p", ()):  # type: ignore
        if isinstance(e, dict) and "f" in e:
            out.append(f"{e['o']}::{e['f']}")
    return out


def place_has_field(p, field):
    return field in place_fields(p)


def place_last_field(p):
    f = place_fields(p)
    return f[-1] if f else None


def place_variants(p):
    return [e["v"] for e in p.get("p", ()) if isinstance(e, dict) and "v" in e]


def place_str(body, p):
    s = f"_{p['l']}"
    n = body.local_name(p["l"])
    if n:
        s = f"{n}(_{p['l']})"
    for e in p.get("p", ()):
        if e == "*":
            s = f"(*{s})"
        elif isinstance(e, dict) and "f" in e:
            s += f".{e['f']}"
        elif isinstance(e, dict) and "v" in e:
            s += f" as {e['v']}"
        elif isinstance(e, dict) and "ix" in e:
            s += f"[_{e['ix']}]"
        else:
            s += f"[{e}]"
    return s


def op_str(body, op):
    if op is None:
        return "?"
    if "c" in op:
        return place_str(body, op["c"])
    if "m" in op:
        return "move " + place_str(body, op["m"])
    return op.get("fn") or str(op.get("k"))


def callee_matches(t, pat):
    f = t.get("f", "")
    ft = t.get("ft", "")
    if isinstance(pat, (list, tuple, set, frozenset)):
        return any(callee_matches(t, p) for p in pat)
    if hasattr(pat, "search"):
        return bool(pat.search(f)) or bool(pat.search(ft))
    return f == pat or ft == pat


# ---------------------------------------------------------------- world

class World:
    def __init__(self):
        self.bodies = {}
        self.adts = {}
        self.impls = []
        self.statics = []
        self.consts = []
        self.fns = {}
        self.crates = []
        self.tys = {}
        self._children = None
        self._callers = None

    @staticmethod
    def load(paths, known=None):
        """known: set of body ids of the reference tree; functions outside it (freshly extracted helpers) are inlined
        into their same-crate callers so that intraprocedural rules look through them"""
        w = World()
        for p in sorted(paths):
            d = json.load(open(p))
            crate = d["crate"]
            w.crates.append(crate)
            tys = d["tys"]
            w.tys[crate] = tys
            for rb in d["bodies"]:
                b = Body(rb, crate, tys, w)
                w.bodies[b.id] = b
            for k, v in d["adts"].items():
                if k not in w.adts or v.get("local"):
                    v = dict(v)
                    v["crate"] = crate
                    w.adts[k] = v
            for im in d["impls"]:
                im = dict(im)
                im["crate"] = crate
                w.impls.append(im)
            for s in d["statics"]:
                s = dict(s)
                s["crate"] = crate
                w.statics.append(s)
            for s in d["consts"]:
                s = dict(s)
                s["crate"] = crate
                w.consts.append(s)
            for f in d["fns"]:
                f = dict(f)
                f["crate"] = crate
                w.fns[f["id"]] = f
        w.inlined = {}
        w.renamed = {}
        w.new_fns = set(i for i in w.bodies if known is not None and i not in known)
        if known is not None:
            _alias_renamed_fields(w)
            _alias_renamed(w, known)
            _inline_new_helpers(w, known)
        _sink_ref_writes(w)
        return w

    def body(self, id):
        return self.bodies.get(id)

    def find(self, pat):
        r = re.compile(pat)
        return [b for i, b in self.bodies.items() if r.search(i)]

    def children(self, id):
        """closures / async blocks syntactically nested in body `id` (direct children)"""
        if self._children is None:
            c = defaultdict(list)
            for b in self.bodies.values():
                if b.parent and b.kind in ("Closure", "SyntheticCoroutineBody", "InlineConst"):
                    c[b.parent].append(b.id)
            self._children = c
        return self._children.get(id, [])

    def family(self, id):
        """body + all nested closure bodies, transitively"""
        out = []
        work = [id]
        seen = set()
        while work:
            i = work.pop()
            if i in seen:
                continue
            seen.add(i)
            if i in self.bodies:
                b = self.bodies[i]
                out.append(b)
                # closures constructed in the body although they are nested elsewhere by name: the closures of a helper that was
                # inlined into this body (section 2.2a) keep the helper's name as their parent
                for bl in b.blocks:
                    for st in bl["st"]:
                        r = st.get("r") or {}
                        if r.get("k") == "agg" and r.get("def") and r["def"] in self.bodies and r["def"] not in seen:
                            work.append(r["def"])
                    # a freshly extracted helper handed over as a function value (`is_some_and(has_work_to_send)`) is never called by
                    # name, so it cannot be inlined (2.2a): it belongs to the family of the body that passes it on
                    t = bl["term"]
                    if t["k"] == "call":
                        for a in t["args"]:
                            fi = a.get("fn") if isinstance(a, dict) else None
                            if fi and fi in getattr(self, "new_fns", ()) and fi in self.bodies and fi not in seen:
                                work.append(fi)
            work.extend(self.children(i))
        return out

    def callers(self):
        """callee id -> set of (caller body id) ; closure construction counts as a call edge parent->closure"""
        if self._callers is None:
            c = defaultdict(set)
            for b in self.bodies.values():
                for bb, t in b.calls():
                    c[t["f"]].add(b.id)
                    if t.get("ft") and t["ft"] != t["f"]:
                        c[t["ft"]].add(b.id)
            self._callers = c
        return self._callers

    def enum_variants(self, adt):
        a = self.adts.get(adt)
        if not a:
            return None
        return [(v.get("discr"), v["name"]) for v in a["variants"]]

    def variant_of_discr(self, adt, val):
        for d, n in self.enum_variants(adt) or ():
            if d == val:
                return n
        return None

    def drop_impl(self, adt):
        """body id of `<adt as Drop>::drop` if present"""
        for im in self.impls:
            if im.get("self_adt") == adt and im.get("trait") == "std::ops::Drop":
                for it in im["items"]:
                    return it
        return None

    def implements(self, adt, trait):
        return any(im.get("self_adt") == adt and im.get("trait") == trait for im in self.impls)


def load_dir(d, known=None):
    return World.load(glob.glob(os.path.join(d, "*.json")), known=known)


# ---------------------------------------------------------------- inlining of freshly extracted helpers

def _shift_place(p, lo, bo):
    q = {"l": p["l"] + lo}
    if p.get("p"):
        pr = []
        for e in p["p"]:
            if isinstance(e, dict) and "ix" in e:
                e = dict(e)
                e["ix"] = e["ix"] + lo
            pr.append(e)
        q["p"] = pr
    return q


def _shift_op(o, lo, bo):
    if o is None:
        return o
    if "c" in o:
        return {"c": _shift_place(o["c"], lo, bo)}
    if "m" in o:
        return {"m": _shift_place(o["m"], lo, bo)}
    return o


def _shift_rv(r, lo, bo):
    r = dict(r)
    for k in ("o", "a", "b"):
        if k in r and isinstance(r[k], dict):
            r[k] = _shift_op(r[k], lo, bo)
    if "p" in r and isinstance(r["p"], dict):
        r["p"] = _shift_place(r["p"], lo, bo)
    if "ops" in r:
        r["ops"] = [_shift_op(x, lo, bo) for x in r["ops"]]
    return r


def _shift_term(t, lo, bo):
    t = dict(t)
    for k in ("t", "u", "resume", "drop", "real", "imag", "else"):
        if k in t and isinstance(t[k], int):
            t[k] = t[k] + bo
    if "targets" in t:
        t["targets"] = [[v, b + bo] for v, b in t["targets"]]
    for k in ("d", "p", "ra"):
        if k in t and isinstance(t[k], dict) and "l" in t[k]:
            t[k] = _shift_place(t[k], lo, bo)
    if t["k"] == "switch":
        t["d"] = _shift_op(t["d"], lo, bo)
    for k in ("c", "v", "fo"):
        if k in t and isinstance(t[k], dict):
            t[k] = _shift_op(t[k], lo, bo)
    if "args" in t:
        t["args"] = [_shift_op(x, lo, bo) for x in t["args"]]
    return t


def _inline_new_helpers(w, known, max_rounds=3, max_blocks=400):
    # freshly written helpers are inlined; implementations of std traits (a newly derived PartialEq / Clone / Default, an operator) are not:
    # the rules read them as the calls they are (`state == from` is a test of `state` against a value)
    new = {i for i, b in w.bodies.items() if i not in known and b.kind in ("Fn", "AssocFn") and not b.coroutine and not b.is_async
           and not re.match(r"^<.* as (std|core)::", i)}
    if not new:
        return
    # callers per new helper (for closure re-parenting)
    ncallers = {}
    for b in w.bodies.values():
        for bl in b.blocks:
            t = bl["term"]
            if t["k"] == "call" and t.get("f") in new:
                ncallers.setdefault(t["f"], set()).add(b.id)
    for _ in range(max_rounds):
        changed = False
        for b in list(w.bodies.values()):
            if len(b.blocks) > max_blocks:
                continue
            i = 0
            while i < len(b.blocks):
                t = b.blocks[i]["term"]
                if t["k"] == "call" and t.get("f") in new and t["f"] != b.id and w.bodies[t["f"]].crate == b.crate and len(w.bodies[t["f"]].blocks) < 200 and len(b.blocks) < max_blocks:
                    c = w.bodies[t["f"]]
                    lo, bo = len(b.locals), len(b.blocks)
                    b.locals.extend(dict(l) for l in c.locals)
                    blk = b.blocks[i]
                    for k, a in enumerate(t["args"]):
                        blk["st"].append({"p": {"l": lo + k + 1}, "r": {"k": "use", "o": a}, "s": t.get("s", "")})
                    dest, target = t["d"], t.get("t")
                    for cb in c.blocks:
                        nb = {"st": [], "term": None}
                        if cb.get("cleanup"):
                            nb["cleanup"] = True
                        for s_ in cb["st"]:
                            if "p" in s_:
                                ns = dict(s_)
                                ns["p"] = _shift_place(s_["p"], lo, bo)
                                ns["r"] = _shift_rv(s_["r"], lo, bo)
                                nb["st"].append(ns)
                            elif "dead" in s_:
                                nb["st"].append({"dead": s_["dead"] + lo})
                        ct = cb["term"]
                        if ct["k"] == "return":
                            nb["st"].append({"p": dest, "r": {"k": "use", "o": {"m": {"l": lo}}}, "s": ct.get("s", "")})
                            nb["term"] = {"k": "goto", "t": target, "s": ct.get("s", "")} if target is not None else {"k": "unreachable", "s": ct.get("s", "")}
                        else:
                            nb["term"] = _shift_term(ct, lo, bo)
                        b.blocks.append(nb)
                    blk["term"] = {"k": "goto", "t": bo, "s": t.get("s", ""), "inlined": c.id}
                    w.inlined.setdefault(b.id, []).append(c.id)
                    b._succ = b._pred = b._defs = b._vt = None
                    changed = True
                    # closures of a helper with a single caller now belong to that caller
                    if len(ncallers.get(c.id, ())) == 1:
                        for cl in w.bodies.values():
                            if cl.parent == c.id:
                                cl.parent = b.id
                        w._children = None
                i += 1
        if not changed:
            break
    # a helper whose every call site was inlined is represented by its callers from now on: rules that sweep "all bodies"
    # (who-may-write, typestate with a T entry) must not also judge it out of context
    still_called = set()
    for b in w.bodies.values():
        for bl in b.blocks:
            t = bl["term"]
            if t["k"] == "call" and t.get("f") in new:
                still_called.add(t["f"])
            for s_ in bl["st"]:
                r = s_.get("r")
                if r:
                    for o in [r.get("o"), r.get("a"), r.get("b")] + list(r.get("ops", [])):
                        if isinstance(o, dict) and o.get("fn") in new:
                            still_called.add(o["fn"])
            for a in bl["term"].get("args", ()):
                if isinstance(a, dict) and a.get("fn") in new:
                    still_called.add(a["fn"])
    inlined_everywhere = {c for c in ncallers if c not in still_called}
    w.removed_helpers = sorted(inlined_everywhere)
    for c in inlined_everywhere:
        # keep nested closures of multi-caller helpers attributed to the helper's first caller
        callers = sorted(ncallers[c])
        for cl in w.bodies.values():
            if cl.parent == c:
                cl.parent = callers[0]
        w.bodies.pop(c, None)
    w._children = None
    w._callers = None


def _alias_renamed_fields(w):
    """A field of a repository struct / enum variant that disappeared while exactly one new field of the same type appeared in the
    same struct is a rename: every place projection, aggregate and ADT entry is rewritten to the reference name
    (rules/known_fields.json), so rules that name fields keep working."""
    p = os.path.join(os.path.dirname(os.path.dirname(os.path.dirname(os.path.abspath(__file__)))), "rules", "known_fields.json")
    w.renamed_fields = {}
    if not os.path.exists(p):
        return
    ref = json.load(open(p))
    alias = {}
    for aid, a in w.adts.items():
        if not a.get("local"):
            continue
        tys = w.tys[a["crate"]]
        for v in a["variants"]:
            k = aid if a["kind"] != "enum" else f"{aid}::{v['name']}"
            if k not in ref:
                continue
            old = [(n, t) for n, t in ref[k]]
            new = [(f["name"], tys[f["ty"]]["s"] if "ty" in f else None) for f in v["fields"]]
            oldn, newn = {n for n, _ in old}, {n for n, _ in new}
            missing = [(n, t) for n, t in old if n not in newn]
            added = [(n, t) for n, t in new if n not in oldn]
            for n, t in missing:
                cand = [a_ for a_, t2 in added if t2 == t]
                if len(cand) == 1 and sum(1 for _, t3 in missing if t3 == t) == 1 and not n.isdigit():
                    alias[(k, cand[0])] = n
                    for f in v["fields"]:
                        if f["name"] == cand[0]:
                            f["name"] = n
    if not alias:
        return
    w.renamed_fields = {f"{k}::{a}": n for (k, a), n in alias.items()}
    owners = {k for k, _ in alias}

    def walk(x):
        if isinstance(x, dict):
            if "f" in x and "o" in x and (x["o"], x["f"]) in alias:
                x["f"] = alias[(x["o"], x["f"])]
            if x.get("k") == "agg" and x.get("fields"):
                ow = x.get("adt") if not x.get("variant") or x.get("adt") in owners else f"{x.get('adt')}::{x.get('variant')}"
                if ow in owners:
                    x["fields"] = [alias.get((ow, f), f) for f in x["fields"]]
            for v_ in x.values():
                walk(v_)
        elif isinstance(x, list):
            for v_ in x:
                walk(v_)
    for b in w.bodies.values():
        walk(b.blocks)


def _sink_ref_writes(w):
    """Normalisation: `*r = CONST` where r can only hold `&mut <field place>` references taken in this body (possibly on different
    branches: `let r = if c { &mut self.a } else { &mut self.b }; *r = V`, typically a small `fn slot_mut(..) -> &mut T` helper that
    was inlined) is rewritten as a direct write `<field place> = CONST` at each point where the reference is taken.  Only constant
    right-hand sides (a field-less enum variant, a literal) are moved, so the value cannot depend on anything in between."""
    w.sunk_writes = 0
    for b in w.bodies.values():
        if len(b.blocks) > 600:
            continue
        defs = None
        for bi, bl in enumerate(b.blocks):
            k = 0
            while k < len(bl["st"]):
                s = bl["st"][k]
                if "p" not in s or s["p"].get("p") != ["*"] or 1 <= s["p"]["l"] <= b.argc:
                    k += 1
                    continue
                rv = _const_rv(b, s["r"])
                if rv is None:
                    k += 1
                    continue
                if defs is None:
                    defs = _raw_defs(b)
                leaves = _ref_leaves(b, defs, s["p"]["l"], 0, set())
                if not leaves:
                    k += 1
                    continue
                for (lb, li, place) in sorted(leaves, key=lambda x: (x[0], -x[1])):
                    b.blocks[lb]["st"].insert(li + 1, {"p": place, "r": rv, "s": s.get("s", ""), "sunk": True})
                    if lb == bi and li < k:
                        k += 1
                del bl["st"][k]
                w.sunk_writes += 1
                defs = None
                b._succ = b._pred = b._defs = b._vt = None
    return w.sunk_writes


def _const_rv(b, r):
    if r["k"] == "agg" and not r.get("ops") and r.get("ak") == "adt":
        return r
    if r["k"] == "use":
        o = r["o"]
        if op_const(o) is not None:
            return r
        p = o.get("m") or o.get("c")
        if isinstance(p, dict) and "l" in p and not p.get("p") and not (1 <= p["l"] <= b.argc):
            ds = [(bi, k, s) for bi, bl in enumerate(b.blocks) for k, s in enumerate(bl["st"]) if "p" in s and s["p"]["l"] == p["l"] and not s["p"].get("p")]
            if len(ds) == 1 and ds[0][2]["r"]["k"] == "agg" and not ds[0][2]["r"].get("ops") and ds[0][2]["r"].get("ak") == "adt":
                return ds[0][2]["r"]
    return None


def _raw_defs(b):
    d = {}
    for bi, bl in enumerate(b.blocks):
        for k, s in enumerate(bl["st"]):
            if "p" in s and not s["p"].get("p"):
                d.setdefault(s["p"]["l"], []).append((bi, k, s))
        t = bl["term"]
        if t["k"] == "call" and isinstance(t.get("d"), dict) and not t["d"].get("p"):
            d.setdefault(t["d"]["l"], []).append((bi, "term", t))
    return d


def _ref_leaves(b, defs, l, depth, seen):
    """[(block, stmt index, place)] of the `&mut <place with a field>` borrows local l may hold; None if l can hold anything else"""
    if depth > 8 or l in seen or 1 <= l <= b.argc:
        return None
    seen = seen | {l}
    ds = defs.get(l, [])
    if not ds:
        return None
    out = []
    for bi, k, s in ds:
        if k == "term":
            return None
        r = s["r"]
        if r["k"] == "ref" and r.get("bk") in ("mut", "Mut"):
            pl = r["p"]
            pr = pl.get("p") or []
            if pr == ["*"]:
                sub_ = _ref_leaves(b, defs, pl["l"], depth + 1, seen)
                if sub_ is None:
                    return None
                out += sub_
            elif any(isinstance(e, dict) and e.get("f") is not None for e in pr):
                out.append((bi, k, pl))
            else:
                return None
        elif r["k"] == "use":
            q = (r["o"].get("m") or r["o"].get("c")) if isinstance(r["o"], dict) else None
            if not isinstance(q, dict) or "l" not in q or q.get("p"):
                return None
            sub_ = _ref_leaves(b, defs, q["l"], depth + 1, seen)
            if sub_ is None:
                return None
            out += sub_
        else:
            return None
    return out


def _sig(w, fid):
    f = w.fns.get(fid)
    if not f:
        return None
    tys = w.tys[f["crate"]]
    return (tuple(tys[i]["s"] for i in f["inputs"]), tys[f["output"]]["s"])


def _fingerprint(b):
    fp = set()
    for bl in b.blocks:
        t = bl["term"]
        if t["k"] == "call" and not str(t.get("x", "")).startswith("m:"):
            fp.add("call:" + t.get("f", ""))
        for s_ in bl["st"]:
            if "p" in s_:
                for f in place_fields(s_["p"]):
                    fp.add("w:" + f)
                r = s_["r"]
                if r.get("k") == "agg" and r.get("adt"):
                    fp.add("agg:" + r["adt"] + "::" + str(r.get("variant")))
    return sorted(fp)


def _alias_renamed(w, known):
    """A known function that disappeared while exactly one new function with the same signature appeared in the same scope
    (module / impl) is a rename: analyse the new body under the old name, so anchors keep working."""
    known_fns = {k for k in known if "{closure" not in k and "{constant" not in k}
    present = set(w.bodies.keys())
    missing = [k for k in known_fns if k not in present and k.startswith(tuple(c + "::" for c in w.crates) + tuple("<" + c for c in w.crates))]
    new = [i for i, b in w.bodies.items() if i not in known and b.kind in ("Fn", "AssocFn")]
    if not missing or not new:
        return
    # signatures of missing functions are not available any more: pair by scope and by the signature recorded for the new one,
    # requiring uniqueness on both sides within the scope
    by_scope_new = {}
    for n in new:
        by_scope_new.setdefault(n.rsplit("::", 1)[0], []).append(n)
    by_scope_missing = {}
    for k in missing:
        by_scope_missing.setdefault(k.rsplit("::", 1)[0], []).append(k)
    sigs = known if isinstance(known, dict) else {}
    pairs = []
    for scope, ks in by_scope_missing.items():
        ns = by_scope_new.get(scope, [])
        if len(ks) == 1 and len(ns) == 1:
            pairs.append((ks[0], ns[0]))
            continue
        # several renames in one scope: pair by signature, unique on both sides
        for k in ks:
            sk = sigs.get(k)
            if not sk:
                continue
            sk_sig = sk[:2] if isinstance(sk, list) else sk
            cand = [n for n in ns if _sig(w, n) is not None and [list(_sig(w, n)[0]), _sig(w, n)[1]] == sk_sig]
            if not cand and isinstance(sk, list) and len(sk) > 2:
                # renamed *and* its (private) parameters reordered: same parameter types as a multiset, same result, and the body does
                # the same things (fingerprint); rules must then find parameters by type / role, not by position
                perm = [n for n in ns if _sig(w, n) is not None and sorted(_sig(w, n)[0]) == sorted(sk_sig[0]) and _sig(w, n)[1] == sk_sig[1]]
                fk = set(sk[2])
                good = [n for n in perm if len(fk & set(_fingerprint(w.bodies[n]))) / max(1, len(fk | set(_fingerprint(w.bodies[n])))) >= 0.6]
                if len(good) == 1 and not any(p2[1] == good[0] for p2 in pairs):
                    pairs.append((k, good[0]))
                    continue
            same_old = [k2 for k2 in ks if (sigs.get(k2) or [None, None])[:2] == sk_sig]
            if len(cand) == 1 and len(same_old) == 1:
                pairs.append((k, cand[0]))
            elif cand and len(sk) > 2:
                # same signature several times: decide by body fingerprint (callees, written fields, constructed variants)
                fk = set(sk[2])
                scored = []
                for n in cand:
                    fn_ = set(_fingerprint(w.bodies[n]))
                    j = len(fk & fn_) / max(1, len(fk | fn_))
                    scored.append((j, n))
                scored.sort(reverse=True)
                if scored[0][0] >= 0.6 and (len(scored) == 1 or scored[0][0] - scored[1][0] >= 0.2):
                    if not any(p2[1] == scored[0][1] for p2 in pairs):
                        pairs.append((k, scored[0][1]))
    for k, n in pairs:
        # the callers of the old name must all call the new one now (no caller of n that is itself new)
        nb = w.bodies.pop(n)
        nb.id = k
        nb.raw["id"] = k
        w.bodies[k] = nb
        if n in w.fns:
            w.fns[k] = dict(w.fns.pop(n), id=k)
        for b in w.bodies.values():
            if b.parent and (b.parent == n or b.parent.startswith(n + "::")):
                b.parent = k + b.parent[len(n):]
            for bl in b.blocks:
                t = bl["term"]
                if t["k"] == "call":
                    if t.get("f") == n:
                        t["f"] = k
                    if t.get("ft") == n:
                        t["ft"] = k
                for s_ in bl["st"]:
                    r = s_.get("r")
                    if r and r.get("def", "").startswith(n + "::"):
                        r["def"] = k + r["def"][len(n):]
        # closures of the renamed function
        for cid in [c for c in list(w.bodies) if c.startswith(n + "::")]:
            cb = w.bodies.pop(cid)
            cb.id = k + cid[len(n):]
            cb.raw["id"] = cb.id
            w.bodies[cb.id] = cb
        for tys in w.tys.values():
            for t in tys:
                if isinstance(t, dict) and t.get("def", "").startswith(n + "::"):
                    t["def"] = k + t["def"][len(n):]
        w.renamed[n] = k
    w._children = None
    w._callers = None
