"""Side engines, thorough tier only: E5 compile-fail witnesses (type-level clauses) and E6 clippy cross-reference
(an independent, type-resolved inventory of disallowed types / methods compared with the extractor's own site set)."""
import os, re, json, shutil, subprocess, time
from .runner import Instance, VERIF, log

WITNESSES = {
    "ProtocolNotClone": ("C02", "C02-R5", "turmoil::Protocol is not Clone (E0277) and its compiling twin builds"),
    "SegmentNotClone": ("C02", "C02-R5", "turmoil::Segment is not Clone (E0277)"),
    "SentRefDeliverConsumes": ("C08", "C08-R6", "SentRef::deliver twice is a use-after-move (E0382)"),
    "LinksBorrowSim": ("C08", "C08-R6", "Sim::step inside Sim::links is a borrow conflict (E0502)"),
    "RuleGuardNotSend": ("C19", "C19-R5", "RuleGuard is !Send (E0277)"),
    "SimNotSend": ("C01", "C01-R7", "Sim is !Send (E0277): single-threaded by construction"),
}


def witnesses(prop, repo, work):
    """build the witness crate against `repo` and run its doctests under nightly; one Instance per witness of this property"""
    mine = {k: v for k, v in WITNESSES.items() if v[0] == prop}
    if not mine:
        return []
    d = os.path.join(work, "witnesses")
    os.makedirs(os.path.join(d, "src"), exist_ok=True)
    os.makedirs(os.path.join(d, ".cargo"), exist_ok=True)
    src = os.path.join(VERIF, "witnesses")
    with open(os.path.join(src, "Cargo.toml.in")) as f:
        toml = f.read().replace("@REPO@", repo)
    with open(os.path.join(d, "Cargo.toml"), "w") as f:
        f.write(toml)
    shutil.copy(os.path.join(src, "src", "lib.rs"), os.path.join(d, "src", "lib.rs"))
    shutil.copy(os.path.join(src, ".cargo", "config.toml"), os.path.join(d, ".cargo", "config.toml"))
    shutil.copy(os.path.join(repo, "Cargo.lock"), os.path.join(d, "Cargo.lock"))
    env = dict(os.environ, CARGO_NET_OFFLINE="true", CARGO_TARGET_DIR=os.path.join(work, "target-witnesses"))
    env.pop("RUSTFLAGS", None)
    r = subprocess.run(["cargo", "+nightly", "test", "--doc", "--offline"], cwd=d, env=env, stdout=subprocess.PIPE, stderr=subprocess.STDOUT, text=True)
    out = r.stdout
    res = []
    for name, (p, rule, what) in sorted(mine.items()):
        lines = [l for l in out.splitlines() if re.search(rf"test src/lib\.rs - {name} \(line \d+\)", l)]
        ok = len(lines) >= 2 and all(l.rstrip().endswith("... ok") for l in lines)
        msg = what if ok else (f"witness `{name}` or its compiling twin failed: " + "; ".join(l.strip() for l in lines)[:300] if lines else
                               f"witness `{name}` did not run (doctest build failed): " + out[-400:].replace("\n", " | "))
        res.append(Instance(rule, f"{rule}:witness:{name}", ok, "witnesses/src/lib.rs", msg, None, "witness"))
    return res


CLIPPY_TOML = """disallowed-types = [
  { path = "std::collections::HashMap", reason = "RandomState order" },
  { path = "std::collections::HashSet", reason = "RandomState order" },
]
disallowed-methods = [
  { path = "std::time::SystemTime::now", reason = "wall clock" },
  { path = "std::time::Instant::now", reason = "wall clock" },
  { path = "rand::SeedableRng::from_os_rng", reason = "entropy" },
  { path = "rand::rng", reason = "entropy" },
  { path = "rand::random", reason = "entropy" },
  { path = "uuid::Uuid::new_v4", reason = "entropy" },
  { path = "std::thread::spawn", reason = "threads" },
]
"""


def clippy_sites(repo, work):
    """(file, line, what) reported by clippy's disallowed_types / disallowed_methods on the four crates"""
    d = os.path.join(work, "clippy-conf")
    os.makedirs(d, exist_ok=True)
    with open(os.path.join(d, "clippy.toml"), "w") as f:
        f.write(CLIPPY_TOML)
    env = dict(os.environ, CARGO_NET_OFFLINE="true", CLIPPY_CONF_DIR=d, CARGO_TARGET_DIR=os.path.join(work, "target-clippy"))
    cmd = ["cargo", "+nightly", "clippy", "--offline", "--message-format=json", "-p", "turmoil", "-p", "turmoil-fs", "-p", "turmoil-net", "-p", "turmoil-io-uring",
           "--features", "turmoil/unstable-fs,turmoil/unstable-io_uring,turmoil/unstable-barriers,turmoil/regex", "--",
           "-A", "clippy::all", "-W", "clippy::disallowed_types", "-W", "clippy::disallowed_methods"]
    # force re-lint of the members
    for sub in (".fingerprint",):
        import glob
        for pk in ("turmoil", "turmoil-fs", "turmoil-net", "turmoil-io-uring"):
            for x in glob.glob(os.path.join(work, "target-clippy", "debug", sub, pk + "-*")):
                shutil.rmtree(x, ignore_errors=True)
    r = subprocess.run(cmd, cwd=repo, env=env, stdout=subprocess.PIPE, stderr=subprocess.PIPE, text=True)
    sites = set()
    for line in r.stdout.splitlines():
        try:
            m = json.loads(line)
        except Exception:
            continue
        if m.get("reason") != "compiler-message":
            continue
        msg = m["message"]
        code = (msg.get("code") or {}).get("code", "")
        if code not in ("clippy::disallowed_types", "clippy::disallowed_methods"):
            continue
        for sp in msg.get("spans", []):
            if sp.get("is_primary"):
                sites.add((sp["file_name"], sp["line_start"], code.split("::")[1], msg["message"][:80]))
    return sites, r.returncode
