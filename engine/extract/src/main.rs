//! tv-extract: rustc_private driver that dumps resolved MIR facts (mir_built) of a crate as JSON.
//!
//! Injected with RUSTC_WORKSPACE_WRAPPER under `cargo +nightly check`; argv[1] is the real rustc
//! path and is dropped. One JSON file per rustc process is written to $TV_OUT/<crate>.<pid>.json
//! for crates whose name is listed in $TV_CRATES (comma separated).
#![feature(rustc_private)]
#![allow(clippy::all)]

extern crate rustc_abi;
extern crate rustc_driver;
extern crate rustc_hir;
extern crate rustc_interface;
extern crate rustc_middle;
extern crate rustc_span;

mod json;

use json::J;
use rustc_driver::Compilation;
use rustc_hir::def::DefKind;
use rustc_hir::def_id::{DefId, LocalDefId, LOCAL_CRATE};
use rustc_middle::mir::{
    self, AggregateKind, BasicBlock, Body, BorrowKind, Operand, Place, PlaceRef, ProjectionElem,
    Rvalue, StatementKind, TerminatorKind, UnwindAction, VarDebugInfoContents,
};
use rustc_middle::ty::print::with_no_trimmed_paths;
use rustc_middle::ty::{self, GenericArgKind, Instance, Ty, TyCtxt, TypingEnv};
use rustc_span::{ExpnKind, Span};
use std::collections::HashMap;

struct Cb;

impl rustc_driver::Callbacks for Cb {
    fn after_expansion<'tcx>(
        &mut self,
        _c: &rustc_interface::interface::Compiler,
        tcx: TyCtxt<'tcx>,
    ) -> Compilation {
        let krate = tcx.crate_name(LOCAL_CRATE).to_string();
        let wanted = std::env::var("TV_CRATES").unwrap_or_default();
        if !wanted.split(',').any(|c| c == krate) {
            return Compilation::Continue;
        }
        let out_dir = match std::env::var("TV_OUT") {
            Ok(d) => d,
            Err(_) => return Compilation::Continue,
        };
        let mut ex = Extractor::new(tcx, krate.clone());
        let doc = ex.run();
        let path = format!("{}/{}.{}.json", out_dir, krate, std::process::id());
        let tmp = format!("{}.tmp", path);
        let mut s = String::with_capacity(1 << 24);
        doc.write(&mut s);
        std::fs::write(&tmp, s).expect("write facts");
        std::fs::rename(&tmp, &path).expect("rename facts");
        Compilation::Continue
    }
}

fn main() {
    let mut args: Vec<String> = vec!["rustc".to_string()];
    args.extend(std::env::args().skip(2));
    rustc_driver::run_compiler(&args, &mut Cb);
}

struct Extractor<'tcx> {
    tcx: TyCtxt<'tcx>,
    krate: String,
    tys: Vec<J>,
    ty_ix: HashMap<Ty<'tcx>, usize>,
    adts: Vec<(String, J)>,
    adt_seen: HashMap<DefId, ()>,
    path_cache: HashMap<DefId, String>,
}

fn js(s: impl Into<String>) -> J {
    J::Str(s.into())
}
fn jn(n: usize) -> J {
    J::Num(n as i128)
}

impl<'tcx> Extractor<'tcx> {
    fn new(tcx: TyCtxt<'tcx>, krate: String) -> Self {
        Extractor {
            tcx,
            krate,
            tys: Vec::new(),
            ty_ix: HashMap::new(),
            adts: Vec::new(),
            adt_seen: HashMap::new(),
            path_cache: HashMap::new(),
        }
    }

    // ---------------------------------------------------------------- paths

    fn plain_path(&self, did: DefId) -> String {
        let s = with_no_trimmed_paths!(self.tcx.def_path_str(did));
        if did.is_local() {
            format!("{}::{}", self.krate, s)
        } else {
            s
        }
    }

    /// Stable readable path of an item: `krate::mod::Type::method`, `<krate::T as path::Trait>::m`,
    /// `parent::{closure#0}`.
    fn path(&mut self, did: DefId) -> String {
        if let Some(p) = self.path_cache.get(&did) {
            return p.clone();
        }
        let tcx = self.tcx;
        let kind = tcx.def_kind(did);
        let p = match kind {
            DefKind::Closure | DefKind::SyntheticCoroutineBody | DefKind::InlineConst | DefKind::AnonConst => {
                match tcx.opt_parent(did) {
                    Some(par) => {
                        let pp = self.path(par);
                        let key = tcx.def_key(did);
                        format!("{}::{}", pp, key.disambiguated_data.as_sym(true))
                    }
                    None => self.plain_path(did),
                }
            }
            DefKind::AssocFn | DefKind::AssocConst { .. } | DefKind::AssocTy => {
                if let Some(impl_did) = tcx.impl_of_assoc(did) {
                    let self_ty = tcx.type_of(impl_did).instantiate_identity().skip_norm_wip();
                    let self_s = self.ty_short(self_ty);
                    let name = tcx.item_name(did).to_string();
                    match tcx.impl_opt_trait_ref(impl_did) {
                        Some(tr) => {
                            let tdid = tr.skip_binder().def_id;
                            let tp = self.path(tdid);
                            format!("<{} as {}>::{}", self_s, tp, name)
                        }
                        None => format!("{}::{}", self_s, name),
                    }
                } else {
                    self.plain_path(did)
                }
            }
            _ => {
                // items nested in an impl method (fn in fn, statics from macros) keep rustc's path
                self.plain_path(did)
            }
        };
        self.path_cache.insert(did, p.clone());
        p
    }

    /// Short name of a type for use inside item paths: ADT path without generic args, else Display.
    fn ty_short(&mut self, t: Ty<'tcx>) -> String {
        match t.kind() {
            ty::Adt(def, _) => self.path(def.did()),
            ty::Ref(_, inner, m) => {
                let i = self.ty_short(*inner);
                if m.is_mut() {
                    format!("&mut {}", i)
                } else {
                    format!("&{}", i)
                }
            }
            _ => with_no_trimmed_paths!(format!("{}", t)),
        }
    }

    // ---------------------------------------------------------------- types

    fn ty(&mut self, t: Ty<'tcx>) -> usize {
        if let Some(&i) = self.ty_ix.get(&t) {
            return i;
        }
        let idx = self.tys.len();
        self.tys.push(J::Null);
        self.ty_ix.insert(t, idx);
        let s = with_no_trimmed_paths!(format!("{}", t));
        let mut o: Vec<(String, J)> = vec![("s".into(), js(s))];
        match t.kind() {
            ty::Adt(def, args) => {
                o.push(("k".into(), js("adt")));
                let p = self.path(def.did());
                o.push(("adt".into(), js(p)));
                let mut a = Vec::new();
                for ga in args.iter() {
                    match ga.kind() {
                        GenericArgKind::Type(t2) => a.push(jn(self.ty(t2))),
                        GenericArgKind::Const(c) => a.push(js(format!("{}", c))),
                        GenericArgKind::Lifetime(_) => {}
                    }
                }
                o.push(("args".into(), J::Arr(a)));
                self.note_adt(def.did());
            }
            ty::Ref(_, inner, m) => {
                o.push(("k".into(), js("ref")));
                o.push(("mut".into(), J::Bool(m.is_mut())));
                let i = self.ty(*inner);
                o.push(("inner".into(), jn(i)));
            }
            ty::RawPtr(inner, m) => {
                o.push(("k".into(), js("ptr")));
                o.push(("mut".into(), J::Bool(m.is_mut())));
                let i = self.ty(*inner);
                o.push(("inner".into(), jn(i)));
            }
            ty::Tuple(ts) => {
                o.push(("k".into(), js("tuple")));
                let a: Vec<J> = ts.iter().map(|t2| jn(self.ty(t2))).collect();
                o.push(("args".into(), J::Arr(a)));
            }
            ty::Slice(inner) => {
                o.push(("k".into(), js("slice")));
                let i = self.ty(*inner);
                o.push(("inner".into(), jn(i)));
            }
            ty::Array(inner, _) => {
                o.push(("k".into(), js("array")));
                let i = self.ty(*inner);
                o.push(("inner".into(), jn(i)));
            }
            ty::Closure(did, args) => {
                o.push(("k".into(), js("closure")));
                let p = self.path(*did);
                o.push(("def".into(), js(p)));
                let ups: Vec<J> = args.as_closure().upvar_tys().iter().map(|t2| jn(self.ty(t2))).collect();
                o.push(("upvars".into(), J::Arr(ups)));
            }
            ty::Coroutine(did, args) => {
                o.push(("k".into(), js("coroutine")));
                let p = self.path(*did);
                o.push(("def".into(), js(p)));
                let ups: Vec<J> = args.as_coroutine().upvar_tys().iter().map(|t2| jn(self.ty(t2))).collect();
                o.push(("upvars".into(), J::Arr(ups)));
            }
            ty::CoroutineClosure(did, _) => {
                o.push(("k".into(), js("coroutine_closure")));
                let p = self.path(*did);
                o.push(("def".into(), js(p)));
            }
            ty::FnDef(did, args) => {
                o.push(("k".into(), js("fndef")));
                let p = self.path(*did);
                o.push(("def".into(), js(p)));
                let mut a = Vec::new();
                for ga in args.iter() {
                    if let GenericArgKind::Type(t2) = ga.kind() {
                        a.push(jn(self.ty(t2)));
                    }
                }
                o.push(("args".into(), J::Arr(a)));
            }
            ty::FnPtr(..) => o.push(("k".into(), js("fnptr"))),
            ty::Dynamic(preds, ..) => {
                o.push(("k".into(), js("dyn")));
                if let Some(p) = preds.principal_def_id() {
                    let pp = self.path(p);
                    o.push(("def".into(), js(pp)));
                }
            }
            ty::Param(_) => o.push(("k".into(), js("param"))),
            ty::Alias(..) => o.push(("k".into(), js("alias"))),
            ty::Bool | ty::Char | ty::Int(_) | ty::Uint(_) | ty::Float(_) | ty::Str | ty::Never => {
                o.push(("k".into(), js("prim")))
            }
            _ => o.push(("k".into(), js("other"))),
        }
        self.tys[idx] = J::Obj(o);
        idx
    }

    fn note_adt(&mut self, did: DefId) {
        if self.adt_seen.contains_key(&did) {
            return;
        }
        self.adt_seen.insert(did, ());
        let tcx = self.tcx;
        let def = tcx.adt_def(did);
        let full = did.is_local();
        // foreign ADTs: only enums (variant names / discriminants) and field names, no field types
        let mut o: Vec<(String, J)> = Vec::new();
        o.push((
            "kind".into(),
            js(if def.is_enum() {
                "enum"
            } else if def.is_union() {
                "union"
            } else {
                "struct"
            }),
        ));
        o.push(("local".into(), J::Bool(full)));
        if full {
            o.push(("span".into(), js(self.span_str(tcx.def_span(did)))));
        }
        let mut vs = Vec::new();
        if def.is_enum() || full {
            for (vi, v) in def.variants().iter_enumerated() {
                let mut vo: Vec<(String, J)> = vec![("name".into(), js(v.name.to_string()))];
                if def.is_enum() {
                    let d = def.discriminant_for_variant(tcx, vi);
                    vo.push(("discr".into(), J::Num(d.val as i128)));
                }
                let mut fs = Vec::new();
                for f in v.fields.iter() {
                    let mut fo: Vec<(String, J)> = vec![("name".into(), js(f.name.to_string()))];
                    if full {
                        let fty = tcx.type_of(f.did).instantiate_identity().skip_norm_wip();
                        fo.push(("ty".into(), jn(self.ty(fty))));
                    }
                    fs.push(J::Obj(fo));
                }
                vo.push(("fields".into(), J::Arr(fs)));
                vs.push(J::Obj(vo));
            }
        }
        o.push(("variants".into(), J::Arr(vs)));
        let p = self.path(did);
        self.adts.push((p, J::Obj(o)));
    }

    // ---------------------------------------------------------------- spans

    fn span_str(&self, sp: Span) -> String {
        let s = self.tcx.sess.source_map().span_to_diagnostic_string(sp);
        // "file:line:col: line:col" -> "file:line:col"
        match s.find(": ") {
            Some(i) => s[..i].to_string(),
            None => s,
        }
    }

    fn exp_str(&self, sp: Span) -> Option<String> {
        if !sp.from_expansion() {
            return None;
        }
        let d = sp.ctxt().outer_expn_data();
        Some(match d.kind {
            ExpnKind::Macro(_, name) => format!("m:{}", name),
            ExpnKind::Desugaring(k) => format!("d:{:?}", k),
            ExpnKind::AstPass(k) => format!("a:{:?}", k),
            ExpnKind::Root => "root".to_string(),
        })
    }

    fn span_fields(&self, sp: Span, o: &mut Vec<(String, J)>) {
        // for macro expansions also report where the macro was invoked
        if let Some(x) = self.exp_str(sp) {
            o.push(("x".into(), js(x)));
            o.push(("s".into(), js(self.span_str(sp.source_callsite()))));
        } else {
            o.push(("s".into(), js(self.span_str(sp))));
        }
    }

    // ---------------------------------------------------------------- places / operands

    fn place(&mut self, body: &Body<'tcx>, p: Place<'tcx>, upnames: &HashMap<usize, String>) -> J {
        self.place_ref(body, p.as_ref(), upnames)
    }

    fn place_ref(&mut self, body: &Body<'tcx>, p: PlaceRef<'tcx>, upnames: &HashMap<usize, String>) -> J {
        let tcx = self.tcx;
        let mut pty = mir::PlaceTy::from_ty(body.local_decls[p.local].ty);
        let mut proj = Vec::new();
        for elem in p.projection.iter() {
            match elem {
                ProjectionElem::Deref => proj.push(js("*")),
                ProjectionElem::Field(f, _) => {
                    let base = pty.ty;
                    let mut fo: Vec<(String, J)> = Vec::new();
                    match base.kind() {
                        ty::Adt(def, _) => {
                            let vi = pty.variant_index.unwrap_or(rustc_abi::FIRST_VARIANT);
                            let v = def.variant(vi);
                            let name = v.fields[*f].name.to_string();
                            fo.push(("f".into(), js(name)));
                            let owner = self.path(def.did());
                            fo.push(("o".into(), js(owner)));
                        }
                        ty::Closure(did, _) | ty::Coroutine(did, _) | ty::CoroutineClosure(did, _) => {
                            let name = if p.local.as_usize() == 1 {
                                upnames.get(&f.as_usize()).cloned()
                            } else {
                                None
                            };
                            fo.push(("f".into(), js(name.unwrap_or_else(|| format!("{}", f.as_usize())))));
                            let owner = self.path(*did);
                            fo.push(("o".into(), js(format!("{{env}}{}", owner))));
                        }
                        ty::Tuple(_) => {
                            fo.push(("f".into(), js(format!("{}", f.as_usize()))));
                            fo.push(("o".into(), js("(tuple)")));
                        }
                        _ => {
                            fo.push(("f".into(), js(format!("{}", f.as_usize()))));
                            fo.push(("o".into(), js("(?)")));
                        }
                    }
                    fo.push(("i".into(), jn(f.as_usize())));
                    proj.push(J::Obj(fo));
                }
                ProjectionElem::Downcast(name, vi) => {
                    let n = match name {
                        Some(n) => n.to_string(),
                        None => match pty.ty.kind() {
                            ty::Adt(def, _) => def.variant(*vi).name.to_string(),
                            _ => format!("{}", vi.as_usize()),
                        },
                    };
                    proj.push(J::Obj(vec![("v".into(), js(n))]));
                }
                ProjectionElem::Index(l) => proj.push(J::Obj(vec![("ix".into(), jn(l.as_usize()))])),
                ProjectionElem::ConstantIndex { offset, from_end, .. } => proj.push(J::Obj(vec![
                    ("ci".into(), J::Num(*offset as i128)),
                    ("fe".into(), J::Bool(*from_end)),
                ])),
                ProjectionElem::Subslice { .. } => proj.push(js("sub")),
                ProjectionElem::OpaqueCast(_) => proj.push(js("oc")),
                ProjectionElem::UnwrapUnsafeBinder(_) => proj.push(js("ub")),
            }
            pty = pty.projection_ty(tcx, *elem);
        }
        let mut o: Vec<(String, J)> = vec![("l".into(), jn(p.local.as_usize()))];
        if !proj.is_empty() {
            o.push(("p".into(), J::Arr(proj)));
        }
        J::Obj(o)
    }

    fn operand(&mut self, body: &Body<'tcx>, op: &Operand<'tcx>, upnames: &HashMap<usize, String>) -> J {
        match op {
            Operand::Copy(p) => J::Obj(vec![("c".into(), self.place(body, *p, upnames))]),
            Operand::Move(p) => J::Obj(vec![("m".into(), self.place(body, *p, upnames))]),
            Operand::Constant(c) => {
                let t = c.const_.ty();
                let mut o: Vec<(String, J)> = Vec::new();
                let s = with_no_trimmed_paths!(format!("{}", c.const_));
                o.push(("k".into(), js(s)));
                o.push(("ty".into(), jn(self.ty(t))));
                if let mir::Const::Unevaluated(u, _) = c.const_ {
                    if u.promoted.is_none() {
                        let p = self.path(u.def);
                        o.push(("def".into(), js(p)));
                    } else {
                        o.push(("promoted".into(), J::Bool(true)));
                    }
                }
                if let Some(sd) = c.check_static_ptr(self.tcx) {
                    let p = self.path(sd);
                    o.push(("static".into(), js(p)));
                }
                match t.kind() {
                    ty::FnDef(did, _) => {
                        let p = self.path(*did);
                        o.push(("fn".into(), js(p)));
                    }
                    _ => {
                        if let Some(si) = c.const_.try_eval_scalar_int(self.tcx, TypingEnv::fully_monomorphized()) {
                            let sz = si.size();
                            let v = si.to_bits(sz);
                            o.push(("v".into(), J::Num(v as i128)));
                        }
                    }
                }
                J::Obj(o)
            }
            Operand::RuntimeChecks(_) => J::Obj(vec![("k".into(), js("runtime_checks"))]),
        }
    }

    fn rvalue(&mut self, body: &Body<'tcx>, rv: &Rvalue<'tcx>, up: &HashMap<usize, String>) -> J {
        let tcx = self.tcx;
        let mut o: Vec<(String, J)> = Vec::new();
        match rv {
            Rvalue::Use(op, ..) => {
                o.push(("k".into(), js("use")));
                o.push(("o".into(), self.operand(body, op, up)));
            }
            Rvalue::Repeat(op, _) => {
                o.push(("k".into(), js("repeat")));
                o.push(("o".into(), self.operand(body, op, up)));
            }
            Rvalue::Ref(_, bk, p) => {
                o.push(("k".into(), js("ref")));
                let b = match bk {
                    BorrowKind::Shared => "shared",
                    BorrowKind::Fake(_) => "fake",
                    BorrowKind::Mut { .. } => "mut",
                };
                o.push(("bk".into(), js(b)));
                o.push(("p".into(), self.place(body, *p, up)));
            }
            Rvalue::ThreadLocalRef(did) => {
                o.push(("k".into(), js("tlref")));
                let p = self.path(*did);
                o.push(("def".into(), js(p)));
            }
            Rvalue::RawPtr(k, p) => {
                o.push(("k".into(), js("addr")));
                o.push(("bk".into(), js(format!("{:?}", k))));
                o.push(("p".into(), self.place(body, *p, up)));
            }
            Rvalue::Cast(ck, op, t) => {
                o.push(("k".into(), js("cast")));
                o.push(("ck".into(), js(format!("{:?}", ck))));
                o.push(("o".into(), self.operand(body, op, up)));
                o.push(("ty".into(), jn(self.ty(*t))));
            }
            Rvalue::BinaryOp(bop, ab) => {
                o.push(("k".into(), js("bin")));
                o.push(("op".into(), js(format!("{:?}", bop))));
                o.push(("a".into(), self.operand(body, &ab.0, up)));
                o.push(("b".into(), self.operand(body, &ab.1, up)));
            }
            Rvalue::UnaryOp(uop, a) => {
                o.push(("k".into(), js("un")));
                o.push(("op".into(), js(format!("{:?}", uop))));
                o.push(("a".into(), self.operand(body, a, up)));
            }
            Rvalue::Discriminant(p) => {
                o.push(("k".into(), js("discr")));
                o.push(("p".into(), self.place(body, *p, up)));
                let pt = p.ty(&body.local_decls, tcx).ty;
                if let ty::Adt(def, _) = pt.kind() {
                    let ap = self.path(def.did());
                    o.push(("adt".into(), js(ap)));
                    self.note_adt(def.did());
                }
            }
            Rvalue::Aggregate(kind, ops) => {
                o.push(("k".into(), js("agg")));
                match &**kind {
                    AggregateKind::Array(_) => o.push(("ak".into(), js("array"))),
                    AggregateKind::Tuple => o.push(("ak".into(), js("tuple"))),
                    AggregateKind::Adt(did, vi, _, _, active) => {
                        o.push(("ak".into(), js("adt")));
                        let def = tcx.adt_def(*did);
                        let ap = self.path(*did);
                        o.push(("adt".into(), js(ap)));
                        self.note_adt(*did);
                        let v = def.variant(*vi);
                        o.push(("variant".into(), js(v.name.to_string())));
                        let names: Vec<J> = match active {
                            Some(f) => vec![js(v.fields[*f].name.to_string())],
                            None => v.fields.iter().map(|f| js(f.name.to_string())).collect(),
                        };
                        o.push(("fields".into(), J::Arr(names)));
                    }
                    AggregateKind::Closure(did, _) => {
                        o.push(("ak".into(), js("closure")));
                        let p = self.path(*did);
                        o.push(("def".into(), js(p)));
                    }
                    AggregateKind::Coroutine(did, _) => {
                        o.push(("ak".into(), js("coroutine")));
                        let p = self.path(*did);
                        o.push(("def".into(), js(p)));
                    }
                    AggregateKind::CoroutineClosure(did, _) => {
                        o.push(("ak".into(), js("coroutine_closure")));
                        let p = self.path(*did);
                        o.push(("def".into(), js(p)));
                    }
                    AggregateKind::RawPtr(..) => o.push(("ak".into(), js("rawptr"))),
                }
                let a: Vec<J> = ops.iter().map(|x| self.operand(body, x, up)).collect();
                o.push(("ops".into(), J::Arr(a)));
            }
            Rvalue::CopyForDeref(p) => {
                o.push(("k".into(), js("use")));
                o.push(("o".into(), J::Obj(vec![("c".into(), self.place(body, *p, up))])));
                o.push(("cfd".into(), J::Bool(true)));
            }
            Rvalue::WrapUnsafeBinder(op, _) => {
                o.push(("k".into(), js("use")));
                o.push(("o".into(), self.operand(body, op, up)));
            }
        }
        J::Obj(o)
    }

    // ---------------------------------------------------------------- bodies

    fn bb(b: BasicBlock) -> J {
        jn(b.as_usize())
    }
    fn unwind(u: &UnwindAction) -> J {
        match u {
            UnwindAction::Cleanup(b) => Self::bb(*b),
            _ => J::Null,
        }
    }

    fn body(&mut self, ldid: LocalDefId, body: &Body<'tcx>) -> J {
        let tcx = self.tcx;
        let did = ldid.to_def_id();
        let kind = tcx.def_kind(did);
        let mut o: Vec<(String, J)> = Vec::new();
        let id = self.path(did);
        o.push(("id".into(), js(id)));
        o.push(("kind".into(), js(format!("{:?}", kind))));
        if let Some(par) = tcx.opt_parent(did) {
            let pk = tcx.def_kind(par);
            if matches!(kind, DefKind::Closure | DefKind::SyntheticCoroutineBody | DefKind::InlineConst | DefKind::AnonConst)
                || matches!(pk, DefKind::Fn | DefKind::AssocFn | DefKind::Closure)
            {
                let pp = self.path(par);
                o.push(("parent".into(), js(pp)));
            }
        }
        if let Some(ck) = tcx.coroutine_kind(did) {
            o.push(("coroutine".into(), js(format!("{:?}", ck))));
        }
        if matches!(kind, DefKind::Fn | DefKind::AssocFn) {
            o.push(("vis".into(), js(format!("{:?}", tcx.visibility(did)))));
            o.push(("is_async".into(), J::Bool(tcx.asyncness(did).is_async())));
            if let Some(impl_did) = tcx.impl_of_assoc(did) {
                let self_ty = tcx.type_of(impl_did).instantiate_identity().skip_norm_wip();
                o.push(("impl_self".into(), jn(self.ty(self_ty))));
                if let Some(tr) = tcx.impl_opt_trait_ref(impl_did) {
                    let tp = self.path(tr.skip_binder().def_id);
                    o.push(("impl_trait".into(), js(tp)));
                }
            }
        }
        let sp = body.span;
        o.push(("span".into(), js(self.span_str(sp))));
        if let Some(x) = self.exp_str(tcx.def_span(did)) {
            o.push(("x".into(), js(x)));
        }
        o.push(("argc".into(), jn(body.arg_count)));

        // names of locals / upvars from debug info
        let mut names: HashMap<usize, String> = HashMap::new();
        let mut upnames: HashMap<usize, String> = HashMap::new();
        for v in body.var_debug_info.iter() {
            if let VarDebugInfoContents::Place(p) = &v.value {
                if p.projection.is_empty() {
                    names.entry(p.local.as_usize()).or_insert_with(|| v.name.to_string());
                } else if p.local.as_usize() == 1 {
                    for e in p.projection.iter() {
                        if let ProjectionElem::Field(f, _) = e {
                            upnames.entry(f.as_usize()).or_insert_with(|| v.name.to_string());
                            break;
                        }
                    }
                }
            }
        }
        let mut locals = Vec::new();
        for (l, d) in body.local_decls.iter_enumerated() {
            let mut lo: Vec<(String, J)> = vec![("ty".into(), jn(self.ty(d.ty)))];
            if let Some(n) = names.get(&l.as_usize()) {
                lo.push(("n".into(), js(n.clone())));
            }
            if d.is_user_variable() {
                lo.push(("u".into(), J::Bool(true)));
            }
            locals.push(J::Obj(lo));
        }
        o.push(("locals".into(), J::Arr(locals)));
        if !upnames.is_empty() {
            let mut u: Vec<(String, J)> = upnames.iter().map(|(k, v)| (format!("{}", k), js(v.clone()))).collect();
            u.sort_by(|a, b| a.0.cmp(&b.0));
            o.push(("upvars".into(), J::Obj(u)));
        }

        let tenv = TypingEnv::post_analysis(tcx, did);
        let mut blocks = Vec::new();
        for (_bb, data) in body.basic_blocks.iter_enumerated() {
            let mut bo: Vec<(String, J)> = Vec::new();
            if data.is_cleanup {
                bo.push(("cleanup".into(), J::Bool(true)));
            }
            let mut stmts = Vec::new();
            for st in data.statements.iter() {
                match &st.kind {
                    StatementKind::Assign(b) => {
                        let (p, rv) = &**b;
                        let mut so: Vec<(String, J)> = Vec::new();
                        so.push(("p".into(), self.place(body, *p, &upnames)));
                        so.push(("r".into(), self.rvalue(body, rv, &upnames)));
                        self.span_fields(st.source_info.span, &mut so);
                        stmts.push(J::Obj(so));
                    }
                    StatementKind::SetDiscriminant { place, variant_index } => {
                        let mut so: Vec<(String, J)> = Vec::new();
                        so.push(("p".into(), self.place(body, **place, &upnames)));
                        so.push((
                            "r".into(),
                            J::Obj(vec![("k".into(), js("setdiscr")), ("vi".into(), jn(variant_index.as_usize()))]),
                        ));
                        self.span_fields(st.source_info.span, &mut so);
                        stmts.push(J::Obj(so));
                    }
                    StatementKind::StorageDead(l) => {
                        stmts.push(J::Obj(vec![("dead".into(), jn(l.as_usize()))]));
                    }
                    _ => {}
                }
            }
            bo.push(("st".into(), J::Arr(stmts)));
            let term = data.terminator();
            let mut to: Vec<(String, J)> = Vec::new();
            match &term.kind {
                TerminatorKind::Goto { target } => {
                    to.push(("k".into(), js("goto")));
                    to.push(("t".into(), Self::bb(*target)));
                }
                TerminatorKind::SwitchInt { discr, targets } => {
                    to.push(("k".into(), js("switch")));
                    to.push(("d".into(), self.operand(body, discr, &upnames)));
                    let mut ts = Vec::new();
                    for (v, b) in targets.iter() {
                        ts.push(J::Arr(vec![J::Num(v as i128), Self::bb(b)]));
                    }
                    to.push(("targets".into(), J::Arr(ts)));
                    to.push(("else".into(), Self::bb(targets.otherwise())));
                }
                TerminatorKind::UnwindResume => to.push(("k".into(), js("resume"))),
                TerminatorKind::UnwindTerminate(_) => to.push(("k".into(), js("abort"))),
                TerminatorKind::Return => to.push(("k".into(), js("return"))),
                TerminatorKind::Unreachable => to.push(("k".into(), js("unreachable"))),
                TerminatorKind::Drop { place, target, unwind, replace, .. } => {
                    to.push(("k".into(), js("drop")));
                    to.push(("p".into(), self.place(body, *place, &upnames)));
                    let pt = place.ty(&body.local_decls, tcx).ty;
                    to.push(("ty".into(), jn(self.ty(pt))));
                    to.push(("t".into(), Self::bb(*target)));
                    to.push(("u".into(), Self::unwind(unwind)));
                    if *replace {
                        to.push(("replace".into(), J::Bool(true)));
                    }
                }
                TerminatorKind::Call { func, args, destination, target, unwind, fn_span, .. } => {
                    to.push(("k".into(), js("call")));
                    let fty = func.ty(&body.local_decls, tcx);
                    match fty.kind() {
                        ty::FnDef(cdid, cargs) => {
                            let tp = self.path(*cdid);
                            to.push(("ft".into(), js(tp.clone())));
                            let resolved = Instance::try_resolve(tcx, tenv, *cdid, cargs).ok().flatten();
                            match resolved {
                                Some(inst) => {
                                    let rd = inst.def_id();
                                    let rp = self.path(rd);
                                    to.push(("f".into(), js(rp)));
                                    to.push(("ik".into(), js(instance_kind(&inst))));
                                }
                                None => {
                                    to.push(("f".into(), js(tp)));
                                    to.push(("ik".into(), js("unresolved")));
                                }
                            }
                            let mut ga = Vec::new();
                            for a in cargs.iter() {
                                match a.kind() {
                                    GenericArgKind::Type(t2) => ga.push(jn(self.ty(t2))),
                                    GenericArgKind::Const(c) => ga.push(js(format!("{}", c))),
                                    GenericArgKind::Lifetime(_) => {}
                                }
                            }
                            to.push(("ga".into(), J::Arr(ga)));
                        }
                        _ => {
                            to.push(("f".into(), js("(indirect)")));
                            to.push(("fo".into(), self.operand(body, func, &upnames)));
                            to.push(("fty".into(), jn(self.ty(fty))));
                        }
                    }
                    let a: Vec<J> = args.iter().map(|x| self.operand(body, &x.node, &upnames)).collect();
                    to.push(("args".into(), J::Arr(a)));
                    let at: Vec<J> = args
                        .iter()
                        .map(|x| {
                            let t = x.node.ty(&body.local_decls, tcx);
                            jn(self.ty(t))
                        })
                        .collect();
                    to.push(("at".into(), J::Arr(at)));
                    to.push(("d".into(), self.place(body, *destination, &upnames)));
                    to.push(("t".into(), target.map(Self::bb).unwrap_or(J::Null)));
                    to.push(("u".into(), Self::unwind(unwind)));
                    to.push(("fs".into(), js(self.span_str(*fn_span))));
                }
                TerminatorKind::TailCall { func, args, .. } => {
                    to.push(("k".into(), js("tailcall")));
                    to.push(("fo".into(), self.operand(body, func, &upnames)));
                    let a: Vec<J> = args.iter().map(|x| self.operand(body, &x.node, &upnames)).collect();
                    to.push(("args".into(), J::Arr(a)));
                }
                TerminatorKind::Assert { cond, expected, target, msg, .. } => {
                    to.push(("k".into(), js("assert")));
                    to.push(("c".into(), self.operand(body, cond, &upnames)));
                    to.push(("exp".into(), J::Bool(*expected)));
                    to.push(("t".into(), Self::bb(*target)));
                    let m = format!("{:?}", msg);
                    let m = m.split(|c: char| !c.is_alphanumeric()).next().unwrap_or("").to_string();
                    to.push(("msg".into(), js(m)));
                }
                TerminatorKind::Yield { value, resume, resume_arg, drop } => {
                    to.push(("k".into(), js("yield")));
                    to.push(("v".into(), self.operand(body, value, &upnames)));
                    to.push(("resume".into(), Self::bb(*resume)));
                    to.push(("ra".into(), self.place(body, *resume_arg, &upnames)));
                    to.push(("drop".into(), drop.map(Self::bb).unwrap_or(J::Null)));
                }
                TerminatorKind::CoroutineDrop => to.push(("k".into(), js("cordrop"))),
                TerminatorKind::FalseEdge { real_target, imaginary_target } => {
                    to.push(("k".into(), js("falseedge")));
                    to.push(("real".into(), Self::bb(*real_target)));
                    to.push(("imag".into(), Self::bb(*imaginary_target)));
                }
                TerminatorKind::FalseUnwind { real_target, .. } => {
                    to.push(("k".into(), js("falseunwind")));
                    to.push(("real".into(), Self::bb(*real_target)));
                }
                TerminatorKind::InlineAsm { .. } => to.push(("k".into(), js("asm"))),
            }
            self.span_fields(term.source_info.span, &mut to);
            bo.push(("term".into(), J::Obj(to)));
            blocks.push(J::Obj(bo));
        }
        o.push(("blocks".into(), J::Arr(blocks)));
        J::Obj(o)
    }

    // ---------------------------------------------------------------- driver

    fn run(&mut self) -> J {
        let tcx = self.tcx;
        // Clone every built body first: resolving instances below may trigger queries that steal mir_built.
        let mut owned: Vec<(LocalDefId, Body<'tcx>)> = Vec::new();
        for ldid in tcx.hir_body_owners() {
            let kind = tcx.def_kind(ldid.to_def_id());
            match kind {
                DefKind::Fn | DefKind::AssocFn | DefKind::Closure | DefKind::SyntheticCoroutineBody => {}
                _ => continue,
            }
            let steal = tcx.mir_built(ldid);
            let b = steal.borrow().clone();
            owned.push((ldid, b));
        }
        let mut bodies = Vec::new();
        for (ldid, b) in owned.iter() {
            bodies.push(self.body(*ldid, b));
        }

        // items: ADTs, impls, statics, consts
        let mut impls = Vec::new();
        let mut statics = Vec::new();
        let mut consts = Vec::new();
        let mut fns = Vec::new();
        for ldid in tcx.hir_crate_items(()).definitions() {
            let did = ldid.to_def_id();
            match tcx.def_kind(did) {
                DefKind::Struct | DefKind::Enum | DefKind::Union => self.note_adt(did),
                DefKind::Impl { .. } => {
                    let mut io: Vec<(String, J)> = Vec::new();
                    let self_ty = tcx.type_of(did).instantiate_identity().skip_norm_wip();
                    io.push(("self".into(), jn(self.ty(self_ty))));
                    if let ty::Adt(def, _) = self_ty.kind() {
                        let ap = self.path(def.did());
                        io.push(("self_adt".into(), js(ap)));
                    }
                    if let Some(tr) = tcx.impl_opt_trait_ref(did) {
                        let tp = self.path(tr.skip_binder().def_id);
                        io.push(("trait".into(), js(tp)));
                    }
                    let items: Vec<J> = tcx
                        .associated_items(did)
                        .in_definition_order()
                        .map(|it| {
                            let p = self.path(it.def_id);
                            js(p)
                        })
                        .collect();
                    io.push(("items".into(), J::Arr(items)));
                    io.push(("span".into(), js(self.span_str(tcx.def_span(did)))));
                    if let Some(x) = self.exp_str(tcx.def_span(did)) {
                        io.push(("x".into(), js(x)));
                    }
                    impls.push(J::Obj(io));
                }
                DefKind::Static { mutability, nested, .. } => {
                    let mut so: Vec<(String, J)> = Vec::new();
                    let p = self.path(did);
                    so.push(("id".into(), js(p)));
                    let t = tcx.type_of(did).instantiate_identity().skip_norm_wip();
                    so.push(("ty".into(), jn(self.ty(t))));
                    so.push(("mut".into(), J::Bool(mutability.is_mut())));
                    so.push(("nested".into(), J::Bool(nested)));
                    so.push(("tls".into(), J::Bool(tcx.is_thread_local_static(did))));
                    so.push(("span".into(), js(self.span_str(tcx.def_span(did)))));
                    if let Some(x) = self.exp_str(tcx.def_span(did)) {
                        so.push(("x".into(), js(x)));
                        so.push(("cs".into(), js(self.span_str(tcx.def_span(did).source_callsite()))));
                    }
                    statics.push(J::Obj(so));
                }
                DefKind::Const { .. } => {
                    let mut so: Vec<(String, J)> = Vec::new();
                    let p = self.path(did);
                    so.push(("id".into(), js(p)));
                    let t = tcx.type_of(did).instantiate_identity().skip_norm_wip();
                    so.push(("ty".into(), jn(self.ty(t))));
                    so.push(("span".into(), js(self.span_str(tcx.def_span(did)))));
                    if let Some(x) = self.exp_str(tcx.def_span(did)) {
                        so.push(("x".into(), js(x)));
                    }
                    consts.push(J::Obj(so));
                }
                DefKind::Fn | DefKind::AssocFn => {
                    // signatures (also for trait methods without body)
                    let mut fo: Vec<(String, J)> = Vec::new();
                    let p = self.path(did);
                    fo.push(("id".into(), js(p)));
                    let sig = tcx.fn_sig(did).instantiate_identity().skip_norm_wip().skip_binder();
                    let ins: Vec<J> = sig.inputs().iter().map(|t| jn(self.ty(*t))).collect();
                    fo.push(("inputs".into(), J::Arr(ins)));
                    fo.push(("output".into(), jn(self.ty(sig.output()))));
                    fo.push(("vis".into(), js(format!("{:?}", tcx.visibility(did)))));
                    fo.push(("span".into(), js(self.span_str(tcx.def_span(did)))));
                    fns.push(J::Obj(fo));
                }
                _ => {}
            }
        }

        let adts = std::mem::take(&mut self.adts);
        let tys = std::mem::take(&mut self.tys);
        J::Obj(vec![
            ("crate".into(), js(self.krate.clone())),
            ("bodies".into(), J::Arr(bodies)),
            ("tys".into(), J::Arr(tys)),
            ("adts".into(), J::Obj(adts)),
            ("impls".into(), J::Arr(impls)),
            ("statics".into(), J::Arr(statics)),
            ("consts".into(), J::Arr(consts)),
            ("fns".into(), J::Arr(fns)),
        ])
    }
}

fn instance_kind(i: &Instance<'_>) -> &'static str {
    use ty::InstanceKind::*;
    match i.def {
        Item(_) => "item",
        Intrinsic(_) => "intrinsic",
        Virtual(..) => "virtual",
        ClosureOnceShim { .. } => "closure_once_shim",
        FnPtrShim(..) => "fnptr_shim",
        DropGlue(..) => "drop_glue",
        CloneShim(..) => "clone_shim",
        _ => "other",
    }
}
