//! E5 - compile-fail witnesses: type-level clauses of C01 / C02 / C08 / C19, each paired with a compiling twin that differs
//! only in the offending line (a witness whose path is merely wrong would also "fail to compile").
//! Run with `cargo +nightly test --doc --offline` (nightly enforces the error code).

/// C02-R5 / C08-R6: a message in flight cannot be duplicated - `turmoil::Protocol` is not `Clone`.
/// ```compile_fail,E0277
/// fn needs_clone<T: Clone>() {}
/// needs_clone::<turmoil::Protocol>();
/// ```
/// twin (compiles): the same bound on a type that is Clone
/// ```
/// fn needs_clone<T: Clone>() {}
/// needs_clone::<turmoil::Datagram>();
/// ```
pub struct ProtocolNotClone;

/// C02-R5: `turmoil::Segment` is not `Clone` either.
/// ```compile_fail,E0277
/// fn needs_clone<T: Clone>() {}
/// needs_clone::<turmoil::Segment>();
/// ```
/// ```
/// fn needs_debug<T: std::fmt::Debug>() {}
/// needs_debug::<turmoil::Segment>();
/// ```
pub struct SegmentNotClone;

/// C08-R6: `SentRef::deliver` consumes the reference - delivering the same in-flight message twice does not type-check.
/// ```compile_fail,E0382
/// fn twice(s: turmoil::SentRef<'_>) {
///     s.deliver();
///     s.deliver();
/// }
/// ```
/// ```
/// fn once(s: turmoil::SentRef<'_>) {
///     s.deliver();
/// }
/// ```
pub struct SentRefDeliverConsumes;

/// C08: the links iterator borrows the simulation - it cannot be stepped while in-flight messages are being inspected.
/// ```compile_fail,E0502
/// let mut sim = turmoil::Builder::new().build();
/// sim.links(|_links| {
///     let _ = sim.step();
/// });
/// ```
/// ```
/// let mut sim = turmoil::Builder::new().build();
/// sim.links(|_links| {});
/// let _ = sim.step();
/// ```
pub struct LinksBorrowSim;

/// C19-R5: `RuleGuard` is `!Send` (its Drop uninstalls through a thread-local).
/// ```compile_fail,E0277
/// fn needs_send<T: Send>() {}
/// needs_send::<turmoil_net::RuleGuard>();
/// ```
/// ```
/// fn needs_send<T: Send>() {}
/// needs_send::<turmoil_net::RuleId>();
/// ```
pub struct RuleGuardNotSend;

/// C01: a `Sim` is single-threaded by construction - it is `!Send`.
/// ```compile_fail,E0277
/// fn needs_send<T: Send>() {}
/// needs_send::<turmoil::Sim<'static>>();
/// ```
/// ```
/// fn needs_send<T: Send>() {}
/// needs_send::<turmoil::Builder>();
/// ```
pub struct SimNotSend;
