//! Audit C17 / hypothesis 1: a SYN whose 4-tuple equals that of a dead
//! (reset, TCP state `Closed`) connection the server application still
//! holds must be demultiplexed to the listener, not to the dead socket.
//!
//! The client's ephemeral allocator is driven through one full wrap so
//! that the second connect reuses the source port of the first.

use std::time::Duration;

use tokio::io::AsyncWriteExt;
use turmoil_net::fixture::ClientServer;
use turmoil_net::shim::tokio::net::{TcpListener, TcpStream, UdpSocket};

const EPHEMERAL: usize = 65535 - 49152 + 1;

#[test]
fn syn_reusing_the_pair_of_a_reset_connection_reaches_the_listener() {
    scenario(EPHEMERAL - 1, true);
}

/// Control: identical history, but the cursor is not driven all the way
/// round, so the second connect uses a fresh pair. Passes on the
/// unmodified tree - the failure above is due to the reused pair alone.
#[test]
fn control_fresh_pair_connects() {
    scenario(10, false);
}

fn scenario(cycle: usize, expect_same_port: bool) {
    ClientServer::new()
        .server("server", async move {
            let listener = TcpListener::bind("0.0.0.0:9000").await.unwrap();
            // First connection: push one byte so the client can abort
            // with unread data (RST), then keep the dead handle around
            // like an idle connection pool would.
            let (mut first, _) = listener.accept().await.unwrap();
            first.write_all(b"x").await.unwrap();
            let mut held = vec![first];
            loop {
                let (s, _) = listener.accept().await.unwrap();
                held.push(s);
            }
        })
        .run("client", async move {
            let c1 = TcpStream::connect("server:9000").await.unwrap();
            let p1 = c1.local_addr().unwrap().port();
            // Wait for the byte without consuming it, then drop: unread
            // data on close is an abortive close (RST to the server).
            let mut b = [0u8; 1];
            assert_eq!(c1.peek(&mut b).await.unwrap(), 1);
            drop(c1);
            // Let the RST reach the server.
            tokio::time::sleep(Duration::from_millis(20)).await;

            // Drive the (shared) ephemeral cursor once around the range.
            for _ in 0..cycle {
                let u = UdpSocket::bind("0.0.0.0:0").await.unwrap();
                drop(u);
            }

            let c2 = tokio::time::timeout(
                Duration::from_secs(5),
                TcpStream::connect("server:9000"),
            )
            .await
            .expect("connect did not finish");
            let c2 = c2.expect(
                "a listener is bound at server:9000 and the previous connection of this \
                 socket pair is dead: the SYN must reach the listener",
            );
            // Sanity: the scenario really reused the pair.
            assert_eq!(c2.local_addr().unwrap().port() == p1, expect_same_port);
        });
}
