//! Audit C19 / F1: Verdict::Deliver with a delay near Duration::MAX panics the fixture scheduler.
#![allow(unused_imports)]
use std::cell::RefCell;
use std::rc::Rc;
use std::time::Duration;

use turmoil_net::fixture::ClientServer;
use turmoil_net::shim::tokio::net::UdpSocket;
use turmoil_net::{rule, Packet, RuleGuard, Verdict};

type Got = Rc<RefCell<Vec<Vec<u8>>>>;

/// Server that records every datagram it receives (a panic inside a server
/// task would be swallowed by the fixture, so assertions live in the test).
async fn recorder(got: Got) {
    let s = UdpSocket::bind("0.0.0.0:9000").await.unwrap();
    let mut buf = [0u8; 16];
    loop {
        let (n, _) = s.recv_from(&mut buf).await.unwrap();
        got.borrow_mut().push(buf[..n].to_vec());
    }
}

/// H1: a very large delay ("hold for ever") must simply never deliver.
#[test]
fn h1_deliver_duration_max() {
    let got: Got = Rc::default();
    ClientServer::new()
        .server("server", recorder(got.clone()))
        .run("client", async move {
            let c = UdpSocket::bind("0.0.0.0:0").await.unwrap();
            let g = rule(|_: &Packet| Verdict::Deliver(Duration::MAX));
            c.send_to(b"one", "server:9000").await.unwrap();
            tokio::time::sleep(Duration::from_millis(5)).await;
            drop(g);
            c.send_to(b"two", "server:9000").await.unwrap();
            tokio::time::sleep(Duration::from_millis(5)).await;
        });
    assert_eq!(*got.borrow(), vec![b"two".to_vec()]);
}

