//! C10-F4: the emptiness check used by remove_dir and by rename-onto-a-
//! directory does not see children that arrived in the directory by rename.
#![cfg(feature = "unstable-fs")]
use turmoil::fs::shim::std::fs::{create_dir, exists, read_dir, remove_dir, rename, write};
use turmoil::Builder;

#[test]
fn remove_dir_with_child_moved_in() {
    let mut sim = Builder::new().build();
    sim.client("t", async {
        create_dir("/d")?;
        write("/f", b"x")?;
        rename("/f", "/d/f")?;
        assert_eq!(read_dir("/d")?.count(), 1);
        assert!(remove_dir("/d").is_err(), "remove_dir succeeded on a non-empty directory");
        assert!(exists("/d") && exists("/d/f"));
        Ok(())
    });
    sim.run().unwrap();
}

#[test]
fn rename_dir_onto_dir_with_child_moved_in() {
    let mut sim = Builder::new().build();
    sim.client("t", async {
        create_dir("/d")?;
        create_dir("/e")?;
        write("/f", b"x")?;
        rename("/f", "/e/f")?;
        assert!(rename("/d", "/e").is_err(), "rename replaced a non-empty directory");
        Ok(())
    });
    sim.run().unwrap();
}
