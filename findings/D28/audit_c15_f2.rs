//! audit C15 / H5: a host registered by literal address inside the simulated
//! subnet; names registered afterwards must still get distinct addresses.
use std::collections::HashSet;
use std::net::{IpAddr, Ipv4Addr, Ipv6Addr};
use turmoil::{Builder, IpVersion, Result};

#[test]
fn names_do_not_collide_with_literal_host_v4() -> Result {
    let mut sim = Builder::new().build();
    let lit = IpAddr::V4(Ipv4Addr::new(192, 168, 0, 3));
    sim.client(lit, async { Ok(()) });

    let mut seen = HashSet::new();
    seen.insert(lit);
    for i in 0..5 {
        let name = format!("host-{i}");
        let addr = sim.lookup(name.as_str());
        assert!(
            seen.insert(addr),
            "name {name} resolved to {addr}, which is already in use"
        );
        sim.client(name.as_str(), async { Ok(()) });
        assert_eq!(sim.reverse_lookup(addr).as_deref(), Some(name.as_str()));
    }
    sim.run()
}

#[test]
fn names_do_not_collide_with_literal_host_v6() -> Result {
    let mut sim = Builder::new().ip_version(IpVersion::V6).build();
    let lit = IpAddr::V6(Ipv6Addr::new(0xfe80, 0, 0, 0, 0, 0, 0, 2));
    sim.client(lit, async { Ok(()) });

    let mut seen = HashSet::new();
    seen.insert(lit);
    for i in 0..5 {
        let name = format!("host-{i}");
        let addr = sim.lookup(name.as_str());
        assert!(
            seen.insert(addr),
            "name {name} resolved to {addr}, which is already in use"
        );
        sim.client(name.as_str(), async { Ok(()) });
    }
    sim.run()
}
