//! C07 audit, finding F2: a file re-created under the name of a removed file
//! is not a new file - it inherits the removed file's durable bytes and its
//! stale pending writes, and a data sync of the new file rewrites the old
//! file's durable image although the remove/create were never made durable.
//!
//! Property clauses contradicted: "every unsynced create, write, truncate,
//! rename or remove is rolled back. Synced data is never lost or altered and
//! bytes that were never written never appear" (interleaving singled out by
//! the statement: "remove then re-create").
#![cfg(feature = "unstable-fs")]

use std::os::unix::fs::FileExt;
use std::sync::{Arc, Mutex};
use std::time::Duration;
use turmoil::fs::shim::std::fs::{read, remove_file, sync_dir, OpenOptions};
use turmoil::fs::{enter, EnterCtx, Fs, FsConfig};

fn with_fs<R>(f: impl FnOnce(&Arc<Mutex<Fs>>) -> R) -> R {
    let fs = Arc::new(Mutex::new(Fs::new(FsConfig::default(), 7)));
    let _g = enter(
        &fs,
        EnterCtx {
            now: Duration::from_secs(1),
            on_corruption: None,
        },
    );
    f(&fs)
}

fn durable_a() {
    let f = OpenOptions::new()
        .write(true)
        .create_new(true)
        .open("/a")
        .unwrap();
    f.write_all_at(b"AAAA", 0).unwrap();
    f.sync_all().unwrap();
    sync_dir("/").unwrap();
}

fn s(v: Vec<u8>) -> String {
    String::from_utf8_lossy(&v).into_owned()
}

/// remove /a ; create_new /a ; write "B" ; sync_all ; CRASH  (no sync_dir).
/// Neither the remove nor the create is durable, so after the crash /a is the
/// ORIGINAL file and must read "AAAA". (Even under the most lenient reading
/// it could only be "AAAA" or "B" - never a blend of both files.)
#[test]
fn remove_recreate_write_syncall_crash() {
    with_fs(|fs| {
        durable_a();
        remove_file("/a").unwrap();
        let f = OpenOptions::new()
            .write(true)
            .create_new(true)
            .open("/a")
            .unwrap();
        f.write_all_at(b"B", 0).unwrap();
        f.sync_all().unwrap();
        drop(f);

        fs.lock().unwrap().crash();

        let got = s(read("/a").expect("unsynced remove must be rolled back"));
        assert_ne!(got, "BAAA", "post-crash contents blend two different files");
        assert_eq!(got, "AAAA");
    });
}

/// Same with File::create-style truncation: the durable "AAAA" of the old
/// file is destroyed by syncing the *new* file, although the directory was
/// never synced.
#[test]
fn remove_recreate_truncate_syncall_crash() {
    with_fs(|fs| {
        durable_a();
        remove_file("/a").unwrap();
        let f = OpenOptions::new()
            .write(true)
            .create(true)
            .truncate(true)
            .open("/a")
            .unwrap();
        f.sync_all().unwrap();
        drop(f);

        fs.lock().unwrap().crash();

        assert_eq!(s(read("/a").unwrap()), "AAAA");
    });
}

/// write "ZZ" to /a (never synced) ; remove /a ; create_new /a ; sync_dir(/)
/// ; sync_all(new /a) ; CRASH.  The new file is durably present and was never
/// written: it must be empty. The unsynced write belonged to the removed file.
#[test]
fn stale_write_of_removed_file_leaks_into_new_file() {
    with_fs(|fs| {
        durable_a();
        let old = OpenOptions::new().write(true).open("/a").unwrap();
        old.write_all_at(b"ZZ", 0).unwrap();
        drop(old);
        remove_file("/a").unwrap();
        let f = OpenOptions::new()
            .write(true)
            .create_new(true)
            .open("/a")
            .unwrap();
        sync_dir("/").unwrap();
        f.sync_all().unwrap();
        drop(f);

        fs.lock().unwrap().crash();

        assert_eq!(
            s(read("/a").unwrap()),
            "",
            "new file was never written; 'ZZ' was written to the removed file"
        );
    });
}

/// remove /a ; create /a (truncate) ; write "NEW" ; sync_all ; sync_dir(/) ;
/// CRASH.  Everything was synced - this is the textbook "replace a file"
/// sequence - so /a must read "NEW". Observed: /a is durably EMPTY (the
/// RemoveFile flushed by sync_dir deletes the inode that sync_all just wrote
/// the new data into, the following CreateFile makes a fresh empty one).
#[test]
fn remove_recreate_write_syncall_syncdir_crash() {
    with_fs(|fs| {
        durable_a();
        remove_file("/a").unwrap();
        let f = OpenOptions::new()
            .write(true)
            .create(true)
            .truncate(true)
            .open("/a")
            .unwrap();
        f.write_all_at(b"NEW", 0).unwrap();
        f.sync_all().unwrap();
        drop(f);
        sync_dir("/").unwrap();

        fs.lock().unwrap().crash();

        assert_eq!(
            s(read("/a").unwrap()),
            "NEW",
            "data synced with sync_all + sync_dir must survive"
        );
    });
}
