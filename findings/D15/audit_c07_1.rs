//! C07 audit, finding F1: a data sync (sync_all / sync_data) issued on a file
//! after a still-pending rename does not make the file's data durable.
//!
//! Property clause contradicted: "its contents are those at its last data
//! sync (sync_all, sync_data or an io_uring fsync) ... Synced data is never
//! lost or altered" - for the interleaving the statement singles out
//! ("write then rename then sync_dir").
#![cfg(feature = "unstable-fs")]

use std::os::unix::fs::FileExt;
use std::sync::atomic::{AtomicUsize, Ordering};
use std::sync::{Arc, Mutex};
use std::time::Duration;
use tokio::sync::Notify;
use turmoil::fs::shim::std::fs::{read, rename, sync_dir, OpenOptions};
use turmoil::fs::{enter, EnterCtx, Fs, FsConfig};
use turmoil::Builder;

fn with_fs<R>(f: impl FnOnce(&Arc<Mutex<Fs>>) -> R) -> R {
    let fs = Arc::new(Mutex::new(Fs::new(FsConfig::default(), 7)));
    let _g = enter(
        &fs,
        EnterCtx {
            now: Duration::from_secs(1),
            on_corruption: None,
        },
    );
    f(&fs)
}

/// /a is fully durable with contents "AAAA".
fn durable_a() {
    let f = OpenOptions::new()
        .write(true)
        .create_new(true)
        .open("/a")
        .unwrap();
    f.write_all_at(b"AAAA", 0).unwrap();
    f.sync_all().unwrap();
    sync_dir("/").unwrap();
}

/// write /a ; rename /a -> /b ; sync_all(/b) ; CRASH (rename not yet durable).
/// The rename is rolled back, so the file is back at /a; its data was synced
/// after the write, so it must read "XXAA".
#[test]
fn write_rename_syncall_crash() {
    with_fs(|fs| {
        durable_a();
        let f = OpenOptions::new().write(true).open("/a").unwrap();
        f.write_all_at(b"XX", 0).unwrap();
        drop(f);
        rename("/a", "/b").unwrap();
        let g = OpenOptions::new().read(true).open("/b").unwrap();
        g.sync_all().unwrap(); // returns Ok
        drop(g);

        fs.lock().unwrap().crash();

        assert!(read("/b").is_err(), "unsynced rename must be rolled back");
        assert_eq!(
            String::from_utf8_lossy(&read("/a").unwrap()),
            "XXAA",
            "data written before sync_all() must survive the crash"
        );
    });
}

/// write /a ; rename /a -> /b ; sync_dir(/) ; sync_all(/b) ; CRASH.
/// Everything was synced: /b must exist with "XXAA".
#[test]
fn write_rename_syncdir_syncall_crash() {
    with_fs(|fs| {
        durable_a();
        let f = OpenOptions::new().write(true).open("/a").unwrap();
        f.write_all_at(b"XX", 0).unwrap();
        drop(f);
        rename("/a", "/b").unwrap();
        sync_dir("/").unwrap();
        let g = OpenOptions::new().read(true).open("/b").unwrap();
        g.sync_all().unwrap();
        drop(g);

        fs.lock().unwrap().crash();

        assert!(read("/a").is_err());
        assert_eq!(
            String::from_utf8_lossy(&read("/b").unwrap()),
            "XXAA",
            "write + rename + sync_dir + sync_all: nothing is pending, data must survive"
        );
    });
}

/// rename /a -> /b ; write /b ; sync_all(/b) ; sync_dir(/) ; CRASH.
/// Everything was synced: /b must exist with "XXAA".
#[test]
fn rename_write_syncall_syncdir_crash() {
    with_fs(|fs| {
        durable_a();
        rename("/a", "/b").unwrap();
        let g = OpenOptions::new().write(true).open("/b").unwrap();
        g.write_all_at(b"XX", 0).unwrap();
        g.sync_all().unwrap();
        drop(g);
        sync_dir("/").unwrap();

        fs.lock().unwrap().crash();

        assert!(read("/a").is_err());
        assert_eq!(
            String::from_utf8_lossy(&read("/b").unwrap()),
            "XXAA",
            "rename + write + sync_all + sync_dir: nothing is pending, data must survive"
        );
    });
}

/// Same as `write_rename_syncdir_syncall_crash`, but through Sim::crash /
/// Sim::bounce inside a running simulation, with sync_data instead of sync_all.
#[test]
fn sim_write_rename_syncdir_syncdata_crash() -> turmoil::Result {
    let mut sim = Builder::new().build();
    let phase = Arc::new(AtomicUsize::new(0));
    let notify = Arc::new(Notify::new());
    let (ph, nh) = (phase.clone(), notify.clone());
    sim.host("server", move || {
        let (phase, notify) = (ph.clone(), nh.clone());
        async move {
            if phase.load(Ordering::SeqCst) == 0 {
                durable_a();
                let f = OpenOptions::new().write(true).open("/a")?;
                f.write_all_at(b"XX", 0)?;
                drop(f);
                rename("/a", "/b")?;
                sync_dir("/")?;
                let g = OpenOptions::new().read(true).open("/b")?;
                g.sync_data()?;
            } else {
                assert!(read("/a").is_err());
                assert_eq!(String::from_utf8_lossy(&read("/b")?), "XXAA");
            }
            notify.notify_one();
            std::future::pending::<()>().await;
            Ok(())
        }
    });
    let n = notify.clone();
    sim.client("p0", async move {
        n.notified().await;
        Ok(())
    });
    sim.run()?;
    sim.crash("server");
    phase.store(1, Ordering::SeqCst);
    sim.bounce("server");
    let n = notify.clone();
    sim.client("p1", async move {
        n.notified().await;
        Ok(())
    });
    sim.run()
}

/// Same defect through the other two front ends: the write is an io_uring
/// Write SQE, the rename / sync_dir go through the tokio shim and the data
/// sync is an io_uring Fsync SQE on a handle opened under the new name.
#[cfg(feature = "unstable-io_uring")]
#[test]
fn sim_uring_write_tokio_rename_syncdir_uring_fsync_crash() -> turmoil::Result {
    use std::os::fd::AsRawFd;
    use turmoil::fs::shim::tokio::fs as tfs;
    use turmoil::io_uring::{cqueue, opcode, types, AsyncFd, IoUring};

    struct RingFd(std::os::fd::RawFd);
    impl AsRawFd for RingFd {
        fn as_raw_fd(&self) -> std::os::fd::RawFd {
            self.0
        }
    }
    async fn drain_one(ring: &mut IoUring) -> cqueue::Entry {
        let afd = AsyncFd::new(RingFd(<IoUring as AsRawFd>::as_raw_fd(ring))).unwrap();
        loop {
            let cqe = {
                let mut cq = ring.completion();
                cq.sync();
                cq.next()
            };
            if let Some(c) = cqe {
                return c;
            }
            let _ = afd.readable().await.unwrap();
        }
    }

    let mut sim = Builder::new().build();
    let phase = Arc::new(AtomicUsize::new(0));
    let notify = Arc::new(Notify::new());
    let (ph, nh) = (phase.clone(), notify.clone());
    sim.host("server", move || {
        let (phase, notify) = (ph.clone(), nh.clone());
        async move {
            if phase.load(Ordering::SeqCst) == 0 {
                durable_a();
                let mut ring = IoUring::new(4).unwrap();
                let h = OpenOptions::new().read(true).write(true).open("/a")?;
                let payload = b"XX".to_vec();
                let w = opcode::Write::new(types::Fd(h.as_raw_fd()), payload.as_ptr(), 2)
                    .offset(0)
                    .build()
                    .user_data(1);
                unsafe { ring.submission().push(&w).unwrap() };
                ring.submit().unwrap();
                assert_eq!(drain_one(&mut ring).await.result(), 2);
                drop(h);

                tfs::rename("/a", "/b").await?;
                tfs::sync_dir("/").await?;

                let g = OpenOptions::new().read(true).write(true).open("/b")?;
                let f = opcode::Fsync::new(types::Fd(g.as_raw_fd())).build().user_data(2);
                unsafe { ring.submission().push(&f).unwrap() };
                ring.submit().unwrap();
                assert_eq!(drain_one(&mut ring).await.result(), 0, "fsync CQE ok");
                drop(g);
            } else {
                assert!(read("/a").is_err());
                assert_eq!(String::from_utf8_lossy(&read("/b")?), "XXAA");
            }
            notify.notify_one();
            std::future::pending::<()>().await;
            Ok(())
        }
    });
    let n = notify.clone();
    sim.client("p0", async move {
        n.notified().await;
        Ok(())
    });
    sim.run()?;
    sim.crash("server");
    phase.store(1, Ordering::SeqCst);
    sim.bounce("server");
    let n = notify.clone();
    sim.client("p1", async move {
        n.notified().await;
        Ok(())
    });
    sim.run()
}
