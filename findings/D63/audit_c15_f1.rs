//! Audit C15 / F1: Sim::crash is a no-op for a host whose software future has
//! already returned, so sockets owned by tasks it spawned stay bound.
//!
//! Destination: crates/turmoil/tests/audit_c15_f1.rs
//! Command:     cd /tmp/wt6/C15 && CARGO_TARGET_DIR=/tmp/wt6/C15/target \
//!              cargo test -p turmoil --offline --test audit_c15_f1

use std::io::ErrorKind;
use std::net::{IpAddr, Ipv4Addr};
use std::time::Duration;

use turmoil::net::{TcpListener, TcpStream};
use turmoil::{Builder, Result};

const UNSPEC: IpAddr = IpAddr::V4(Ipv4Addr::UNSPECIFIED);

/// "a port becomes available again once ... its host crashes": the software
/// of a host has returned Ok while a task it spawned still owns a listener.
/// After Sim::crash nothing runs on the host and its ports are released, so a
/// connect to the port is refused (as it is for any other crashed host).
#[test]
fn crash_after_software_returned_releases_ports() -> Result {
    let mut sim = Builder::new()
        .simulation_duration(Duration::from_secs(600))
        .build();

    sim.host("h", || async {
        let l = TcpListener::bind((UNSPEC, 9000)).await?;
        tokio::task::spawn_local(async move {
            loop {
                let _ = l.accept().await;
            }
        });
        Ok(())
    });

    // let the software return
    for _ in 0..10 {
        sim.step()?;
    }
    assert!(!sim.is_host_running("h"));
    sim.crash("h");

    sim.client("c", async {
        let r = tokio::time::timeout(Duration::from_secs(5), TcpStream::connect(("h", 9000))).await;
        match r {
            Ok(Err(e)) => assert_eq!(e.kind(), ErrorKind::ConnectionRefused),
            Ok(Ok(_)) => panic!("connected to a crashed host"),
            Err(_) => panic!("connect to a crashed host hangs: port 9000 is still bound"),
        }
        Ok(())
    });
    sim.run()
}

/// Control: the same host crashed while its software is still running
/// releases the port (this passes on the unmodified tree).
#[test]
fn control_crash_while_running_releases_ports() -> Result {
    let mut sim = Builder::new()
        .simulation_duration(Duration::from_secs(600))
        .build();

    sim.host("h", || async {
        let l = TcpListener::bind((UNSPEC, 9000)).await?;
        tokio::task::spawn_local(async move {
            loop {
                let _ = l.accept().await;
            }
        });
        std::future::pending::<()>().await;
        Ok(())
    });

    for _ in 0..10 {
        sim.step()?;
    }
    assert!(sim.is_host_running("h"));
    sim.crash("h");

    sim.client("c", async {
        let r = tokio::time::timeout(Duration::from_secs(5), TcpStream::connect(("h", 9000))).await;
        match r {
            Ok(Err(e)) => assert_eq!(e.kind(), ErrorKind::ConnectionRefused),
            Ok(Ok(_)) => panic!("connected to a crashed host"),
            Err(_) => panic!("connect to a crashed host hangs: port 9000 is still bound"),
        }
        Ok(())
    });
    sim.run()
}
