//! Audit C20 / F2 (borderline): `Barrier<T>` is `Send`, but `Drop` only
//! unregisters it from the repo of the thread that drops it. A barrier
//! created on the simulation thread and dropped on another thread stays
//! registered: later triggers still match the dead barrier.
#![cfg(feature = "unstable-barriers")]

use std::future::Future;
use std::pin::pin;
use std::task::{Context, Poll, Waker};

use turmoil::barriers::{trigger, trigger_noop, Barrier, Reaction, Triggered};

#[derive(Debug, Clone, PartialEq)]
struct Ev(u32);

fn try_wait<T: std::any::Any + Send>(b: &mut Barrier<T>) -> Option<Triggered<T>> {
    let mut cx = Context::from_waker(Waker::noop());
    let fut = pin!(b.wait());
    match fut.poll(&mut cx) {
        Poll::Ready(Some(t)) => Some(t),
        Poll::Ready(None) => panic!("wait() -> None"),
        Poll::Pending => None,
    }
}

/// A dropped Panic barrier must not panic later triggers.
#[test]
fn panic_barrier_dropped_on_another_thread_is_dead() {
    let b = Barrier::build(Reaction::Panic, |_: &Ev| true);
    std::thread::spawn(move || drop(b)).join().unwrap();
    // "Triggers that match no live barrier -- including after the barrier
    // has been dropped -- return immediately and are reported nowhere."
    trigger_noop(Ev(1));
}

/// A dropped Noop barrier must not swallow triggers that a later-created
/// live barrier matches.
#[test]
fn noop_barrier_dropped_on_another_thread_does_not_shadow() {
    let dead = Barrier::new(|_: &Ev| true);
    let mut live = Barrier::new(|_: &Ev| true);
    std::thread::spawn(move || drop(dead)).join().unwrap();
    trigger_noop(Ev(7));
    let got = try_wait(&mut live).map(|t| (*t).clone());
    assert_eq!(got, Some(Ev(7)), "the only live matching barrier must be told");
}

/// Same for the async trigger in a simulation.
#[test]
fn sim_trigger_after_cross_thread_drop() -> turmoil::Result {
    let dead = Barrier::build(Reaction::Suspend, |_: &Ev| true);
    let mut live = Barrier::new(|_: &Ev| true);
    std::thread::spawn(move || drop(dead)).join().unwrap();
    let mut sim = turmoil::Builder::new().build();
    sim.client("a", async {
        trigger(Ev(3)).await;
        Ok(())
    });
    sim.run()?;
    let got = try_wait(&mut live).map(|t| (*t).clone());
    assert_eq!(got, Some(Ev(3)));
    Ok(())
}
