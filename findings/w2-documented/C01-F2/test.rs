//! audit C01 - the turmoil-net fixtures must run the same programs the same
//! way every time. A server `select!`s over two sockets that become readable
//! in the same tick; the order in which it serves them is observable by the
//! client (order of the replies on the wire).
use std::time::Duration;

use turmoil_net::fixture::{self, ClientServer};
use turmoil_net::shim::tokio::net::UdpSocket;

const ROUNDS: usize = 24;

/// Returns, per round, which of the server's two sockets answered first.
fn run_client_server() -> Vec<u8> {
    ClientServer::new()
        .server("server", async move {
            let a = UdpSocket::bind("0.0.0.0:9000").await.unwrap();
            let b = UdpSocket::bind("0.0.0.0:9001").await.unwrap();
            let mut ba = [0u8; 8];
            let mut bb = [0u8; 8];
            loop {
                tokio::select! {
                    r = a.recv_from(&mut ba) => { let (n, from) = r.unwrap(); a.send_to(&ba[..n], from).await.unwrap(); }
                    r = b.recv_from(&mut bb) => { let (n, from) = r.unwrap(); b.send_to(&bb[..n], from).await.unwrap(); }
                }
            }
        })
        .run("client", async move {
            let c = UdpSocket::bind("0.0.0.0:0").await.unwrap();
            let mut firsts = Vec::new();
            for _ in 0..ROUNDS {
                // Both datagrams leave in the same tick and reach the server
                // together.
                c.send_to(b"A", "server:9000").await.unwrap();
                c.send_to(b"B", "server:9001").await.unwrap();
                let mut buf = [0u8; 8];
                let (_, from1) = c.recv_from(&mut buf).await.unwrap();
                let (_, _from2) = c.recv_from(&mut buf).await.unwrap();
                firsts.push((from1.port() - 9000) as u8);
                tokio::time::sleep(Duration::from_millis(5)).await;
            }
            firsts
        })
}

/// Same on the loopback-only fixture: two branches ready in the same poll.
fn run_lo() -> Vec<u8> {
    fixture::lo(async {
        let a = UdpSocket::bind("127.0.0.1:9000").await.unwrap();
        let b = UdpSocket::bind("127.0.0.1:9001").await.unwrap();
        let c = UdpSocket::bind("127.0.0.1:0").await.unwrap();
        let mut firsts = Vec::new();
        for _ in 0..ROUNDS {
            c.send_to(b"A", "127.0.0.1:9000").await.unwrap();
            c.send_to(b"B", "127.0.0.1:9001").await.unwrap();
            let mut ba = [0u8; 8];
            let mut bb = [0u8; 8];
            tokio::select! {
                _ = a.recv_from(&mut ba) => { firsts.push(0); let _ = b.recv_from(&mut bb).await; }
                _ = b.recv_from(&mut bb) => { firsts.push(1); let _ = a.recv_from(&mut ba).await; }
            }
        }
        firsts
    })
}

#[test]
fn client_server_fixture_repeats_the_same_execution() {
    let first = run_client_server();
    for i in 0..5 {
        assert_eq!(first, run_client_server(), "run {i} served the sockets in a different order");
    }
}

#[test]
fn lo_fixture_repeats_the_same_execution() {
    let first = run_lo();
    for i in 0..5 {
        assert_eq!(first, run_lo(), "run {i} took the select branches in a different order");
    }
}
