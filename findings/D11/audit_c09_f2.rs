//! Audit C09 / F2: `readable()` parks one datagram outside the bounded queue,
//! so a socket holds udp_capacity + 1 datagrams instead of dropping the one
//! beyond the capacity.
//!
//! Destination: crates/turmoil/tests/audit_c09_f2.rs
//! Run: CARGO_TARGET_DIR=/tmp/wt3/C09/target cargo test -p turmoil --offline --test audit_c09_f2
#![allow(unused_imports, dead_code)]

use std::{
    net::{IpAddr, Ipv4Addr, Ipv6Addr, SocketAddr},
    time::Duration,
};

use tokio::time::{sleep, timeout};
use turmoil::{net::UdpSocket, Builder, IpVersion, Result};

const GROUP: Ipv4Addr = Ipv4Addr::new(239, 0, 0, 1);
const PORT: u16 = 9000;

fn fixed_latency_sim(ms: u64) -> turmoil::Sim<'static> {
    Builder::new()
        .ip_version(IpVersion::V4)
        .tick_duration(Duration::from_millis(1))
        .min_message_latency(Duration::from_millis(ms))
        .max_message_latency(Duration::from_millis(ms))
        .build()
}

/// H2: with udp_capacity = N at most N datagrams are ever pending for a
/// socket, whichever receive path is used.
#[test]
fn capacity_with_readable_path() -> Result {
    let mut sim = Builder::new()
        .ip_version(IpVersion::V4)
        .min_message_latency(Duration::from_millis(1))
        .max_message_latency(Duration::from_millis(1))
        .udp_capacity(1)
        .build();

    sim.client("server", async move {
        let sock = UdpSocket::bind((Ipv4Addr::UNSPECIFIED, PORT)).await?;
        sock.readable().await?;
        // slow receiver: sits on the readiness event
        sleep(Duration::from_millis(200)).await;
        let mut n = 0;
        let mut buf = [0u8; 4];
        let mut seen = vec![];
        while let Ok((len, _)) = sock.try_recv_from(&mut buf) {
            seen.push(buf[..len].to_vec());
            n += 1;
        }
        assert!(
            n <= 1,
            "udp_capacity(1) but {n} datagrams were queued for the socket: {seen:?}"
        );
        Ok(())
    });

    sim.client("client", async move {
        let sock = UdpSocket::bind((Ipv4Addr::UNSPECIFIED, 0)).await?;
        for i in 0..4u8 {
            sock.send_to(&[i], ("server", PORT)).await?;
            sleep(Duration::from_millis(10)).await;
        }
        sleep(Duration::from_millis(300)).await;
        Ok(())
    });

    sim.run()
}
