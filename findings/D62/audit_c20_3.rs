//! Audit C20 / F1: a Panic (or, through the documented `trigger_noop`
//! panic, a Suspend) barrier that matches an `FsCorruption` trigger fires
//! while the host's `Fs` mutex is held. The unwinding poisons the mutex, so
//! instead of "panicking the triggering code" the process aborts (the open
//! `File` is dropped during the unwind and its destructor panics on the
//! poisoned mutex), and if the panic is caught every later fs call of that
//! host panics with "Fs mutex poisoned" -- including reads that match no
//! live barrier any more.
#![cfg(all(feature = "unstable-barriers", feature = "unstable-fs"))]

use std::cell::RefCell;
use std::future::Future;
use std::os::unix::fs::FileExt;
use std::pin::pin;
use std::rc::Rc;
use std::task::{Context, Poll, Waker};

use turmoil::barriers::{Barrier, Reaction, Triggered};
use turmoil::fs::shim::std::fs::OpenOptions;
use turmoil::fs::FsCorruption;
use turmoil::{Builder, Result};

fn try_wait<T: std::any::Any + Send>(b: &mut Barrier<T>) -> Option<Triggered<T>> {
    let mut cx = Context::from_waker(Waker::noop());
    let fut = pin!(b.wait());
    match fut.poll(&mut cx) {
        Poll::Ready(Some(t)) => Some(t),
        Poll::Ready(None) => panic!("wait() -> None"),
        Poll::Pending => None,
    }
}

/// The plain contract: the Panic barrier panics the triggering code. The
/// panic must be an ordinary unwinding panic that the test can observe
/// (it surfaces from `Sim::run`), and the barrier is told once. On the
/// unmodified tree the test binary dies with SIGABRT ("panic in a
/// destructor during cleanup") instead.
#[test]
fn panic_barrier_on_corruption_panics_the_read() {
    let mut builder = Builder::new();
    builder.fs().corruption_probability(1.0);
    let mut sim = builder.build();
    let mut b = Barrier::build(Reaction::Panic, |_: &FsCorruption| true);
    sim.client("a", async move {
        let file = OpenOptions::new()
            .read(true)
            .write(true)
            .create(true)
            .open("/p.dat")?;
        file.write_all_at(b"0123456789abcdef", 0)?;
        let mut buf = [0u8; 8];
        file.read_at(&mut buf, 0)?;
        Ok(())
    });
    let res = std::panic::catch_unwind(std::panic::AssertUnwindSafe(|| sim.run()));
    assert!(res.is_err(), "the injected panic must surface as a panic");
    let mut n = 0;
    while try_wait(&mut b).is_some() {
        n += 1;
    }
    assert_eq!(n, 1);
}

/// The panic is caught by the software under test ("testing how panics are
/// handled"); the test then drops the barrier. Later corrupted reads match
/// no live barrier: they must return normally and be reported nowhere.
#[test]
fn corruption_panic_barrier_then_dropped() -> Result {
    let mut builder = Builder::new();
    builder.fs().corruption_probability(1.0);
    let mut sim = builder.build();

    let slot: Rc<RefCell<Option<Barrier<FsCorruption>>>> = Rc::new(RefCell::new(Some(
        Barrier::build(Reaction::Panic, |_: &FsCorruption| true),
    )));
    let s = slot.clone();
    let reports = Rc::new(RefCell::new(0usize));
    let r = reports.clone();

    sim.client("a", async move {
        let file = OpenOptions::new()
            .read(true)
            .write(true)
            .create(true)
            .open("/p.dat")?;
        file.write_all_at(b"0123456789abcdef", 0)?;

        let mut buf = [0u8; 8];
        let res = std::panic::catch_unwind(std::panic::AssertUnwindSafe(|| {
            file.read_at(&mut buf, 0)
        }));
        assert!(res.is_err(), "the Panic barrier must panic the corrupted read");

        // The test observed the trigger exactly once ...
        let mut b = s.borrow_mut().take().unwrap();
        while try_wait(&mut b).is_some() {
            *r.borrow_mut() += 1;
        }
        // ... and drops the barrier: no live barrier is left.
        drop(b);

        // Corrupted again, matches no live barrier: must simply return.
        let mut buf = [0u8; 8];
        let n = file.read_at(&mut buf, 0)?;
        assert_eq!(n, 8);
        Ok(())
    });
    sim.run()?;
    assert_eq!(*reports.borrow(), 1);
    Ok(())
}

/// Same through the ring: the corrupted read executes when its CQE is
/// drained, with both the `Fs` and the io_uring host mutex held.
#[cfg(feature = "unstable-io_uring")]
#[test]
fn ring_corruption_panic_barrier_then_dropped() -> Result {
    use std::os::fd::AsRawFd;
    use turmoil::io_uring::{opcode, types, IoUring};

    let mut builder = Builder::new();
    builder.fs().corruption_probability(1.0);
    let mut sim = builder.build();
    let slot: Rc<RefCell<Option<Barrier<FsCorruption>>>> = Rc::new(RefCell::new(Some(
        Barrier::build(Reaction::Panic, |_: &FsCorruption| true),
    )));
    let s = slot.clone();
    let reports = Rc::new(RefCell::new(0usize));
    let r = reports.clone();

    sim.client("a", async move {
        let file = OpenOptions::new()
            .read(true)
            .write(true)
            .create(true)
            .open("/r.dat")?;
        file.write_all_at(b"0123456789abcdef", 0)?;
        let fd = types::Fd(file.as_raw_fd());
        let mut ring = IoUring::new(4).expect("ring");

        let mut buf = vec![0u8; 8];
        let rd = opcode::Read::new(fd, buf.as_mut_ptr(), 8).offset(0).build().user_data(1);
        unsafe { ring.submission().push(&rd).expect("push") };
        ring.submit().expect("submit");
        tokio::time::sleep(std::time::Duration::from_millis(50)).await;
        let res = std::panic::catch_unwind(std::panic::AssertUnwindSafe(|| {
            let mut cq = ring.completion();
            cq.sync();
            cq.next().map(|e| e.result())
        }));
        assert!(res.is_err(), "the Panic barrier must panic the ring read");

        let mut b = s.borrow_mut().take().unwrap();
        while try_wait(&mut b).is_some() {
            *r.borrow_mut() += 1;
        }
        drop(b);

        // No live barrier any more: ring and fs keep working.
        let mut buf2 = vec![0u8; 8];
        let rd = opcode::Read::new(fd, buf2.as_mut_ptr(), 8).offset(0).build().user_data(2);
        unsafe { ring.submission().push(&rd).expect("push") };
        ring.submit().expect("submit");
        tokio::time::sleep(std::time::Duration::from_millis(50)).await;
        let e = {
            let mut cq = ring.completion();
            cq.sync();
            cq.next()
        }
        .expect("cqe");
        assert_eq!(e.user_data(), 2);
        assert_eq!(e.result(), 8);
        let mut b3 = [0u8; 4];
        assert_eq!(file.read_at(&mut b3, 0)?, 4);
        drop(ring);
        drop(file);
        Ok(())
    });
    sim.run()?;
    assert_eq!(*reports.borrow(), 1);
    Ok(())
}
