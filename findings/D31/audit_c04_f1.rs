//! C04 audit: crash of a *connecting* host, enumerated over every step of the
//! handshake. A peer that has accepted the connection (the stream is
//! established from its side) and is blocked reading from it must be
//! unblocked (EOF / reset) promptly after `Sim::crash` returns.

use std::cell::RefCell;
use std::rc::Rc;
use std::time::Duration;

use tokio::io::AsyncReadExt;
use turmoil::net::{TcpListener, TcpStream};
use turmoil::{Builder, Result};

#[derive(Default, Debug)]
struct Obs {
    /// `accept()` returned on the peer.
    accepted: bool,
    /// The peer's blocked `read` returned (Ok(n) or Err).
    read_done: Option<std::result::Result<usize, std::io::ErrorKind>>,
    /// Streams left in the crashed host's table (sampled by the peer).
    connector_streams_after: Option<usize>,
}

fn run(crash_after_steps: usize, connector_first: bool) -> (Obs, bool) {
    let mut sim = Builder::new()
        .tick_duration(Duration::from_millis(1))
        .min_message_latency(Duration::from_millis(1))
        .max_message_latency(Duration::from_millis(1))
        .build();

    let obs = Rc::new(RefCell::new(Obs::default()));

    let connector = |sim: &mut turmoil::Sim<'_>| {
        sim.host("connector", || async {
            let _s = TcpStream::connect("peer:80").await?;
            std::future::pending::<()>().await;
            Ok(())
        });
    };
    let peer = |sim: &mut turmoil::Sim<'_>, obs: Rc<RefCell<Obs>>| {
        sim.host("peer", move || {
            let obs = obs.clone();
            async move {
                let l = TcpListener::bind("0.0.0.0:80").await?;
                let (mut s, _) = l.accept().await?;
                obs.borrow_mut().accepted = true;
                let mut buf = [0u8; 8];
                let r = s.read(&mut buf).await.map_err(|e| e.kind());
                obs.borrow_mut().read_done = Some(r);
                std::future::pending::<()>().await;
                Ok(())
            }
        });
    };

    if connector_first {
        connector(&mut sim);
        peer(&mut sim, obs.clone());
    } else {
        peer(&mut sim, obs.clone());
        connector(&mut sim);
    }

    for _ in 0..crash_after_steps {
        sim.step().unwrap();
    }
    let accepted_at_crash = obs.borrow().accepted;
    sim.crash("connector");

    // Healthy link, 1ms latency: 50 further steps is far more than "prompt".
    for _ in 0..50 {
        sim.step().unwrap();
    }

    let o = std::mem::take(&mut *obs.borrow_mut());
    (o, accepted_at_crash)
}

fn check(connector_first: bool) {
    let mut failures = vec![];
    for crash_after in 0..8 {
        let (obs, accepted_at_crash) = run(crash_after, connector_first);
        // Only the streams that were established (accepted) at the crash
        // instant are in scope; later SYNs never arrive (the connector is dead).
        if accepted_at_crash && obs.read_done.is_none() {
            failures.push((crash_after, obs));
        }
    }
    assert!(
        failures.is_empty(),
        "peer still blocked 50 steps after Sim::crash(connector) for crash points: {failures:#?}"
    );
}

#[test]
fn peer_unblocked_when_connector_crashes_connector_registered_first() -> Result {
    check(true);
    Ok(())
}

#[test]
fn peer_unblocked_when_connector_crashes_peer_registered_first() -> Result {
    check(false);
    Ok(())
}
