//! Audit C08 / F2: the server half of the TCP handshake (SYN-ACK) does not
//! travel over the link at all: `TcpListener::accept` completes the client's
//! `connect` through a oneshot channel carried inside the SYN. A hold placed
//! after the SYN was delivered, but before the listener accepts, does not stop
//! the handshake from completing in the server -> client direction.

use std::{cell::Cell, future, rc::Rc, time::Duration};

use turmoil::{
    net::{TcpListener, TcpStream},
    Builder, Result, Sim,
};

const PORT: u16 = 9000;

fn in_flight(sim: &Sim<'_>) -> usize {
    let mut n = 0;
    sim.links(|links| {
        for link in links {
            n += link.count();
        }
    });
    n
}

/// Hold from the Sim handle between steps.
#[test]
fn f2_syn_ack_crosses_held_link_sim_handle() -> Result {
    let mut sim = Builder::new()
        .min_message_latency(Duration::from_millis(2))
        .max_message_latency(Duration::from_millis(2))
        .build();

    let accepted = Rc::new(Cell::new(false));
    let connected = Rc::new(Cell::new(false));

    let acc = accepted.clone();
    sim.host("server", move || {
        let acc = acc.clone();
        async move {
            let l = TcpListener::bind(("0.0.0.0", PORT)).await?;
            // busy server: the SYN sits in the accept queue for a while
            tokio::time::sleep(Duration::from_millis(50)).await;
            let (_s, _) = l.accept().await?;
            acc.set(true);
            future::pending::<()>().await;
            Ok(())
        }
    });

    let con = connected.clone();
    sim.client("client", async move {
        let _s = TcpStream::connect(("server", PORT)).await?;
        con.set(true);
        future::pending::<()>().await;
        Ok(())
    });

    // let the SYN reach the server's accept queue
    for _ in 0..10 {
        sim.step()?;
    }
    assert_eq!(in_flight(&sim), 0, "SYN already delivered");
    assert!(!accepted.get() && !connected.get());

    sim.hold("client", "server");

    for _ in 0..500 {
        sim.step()?;
    }

    assert!(accepted.get(), "server accepted the queued SYN");
    assert!(
        !connected.get(),
        "the handshake completed on the client (SYN-ACK server -> client) while \
         the link was held; links iterator shows {} in-flight messages",
        in_flight(&sim)
    );
    Ok(())
}

/// Hold from inside host code: the server holds the link right before
/// accepting.
#[test]
fn f2_syn_ack_crosses_held_link_host_code() -> Result {
    let mut sim = Builder::new()
        .min_message_latency(Duration::from_millis(2))
        .max_message_latency(Duration::from_millis(2))
        .build();

    let connected_while_held = Rc::new(Cell::new(false));
    let held = Rc::new(Cell::new(false));

    let h = held.clone();
    sim.client("server", async move {
        let l = TcpListener::bind(("0.0.0.0", PORT)).await?;
        tokio::time::sleep(Duration::from_millis(50)).await;
        turmoil::hold("client", "server");
        h.set(true);
        let (_s, _) = l.accept().await?;
        tokio::time::sleep(Duration::from_millis(500)).await;
        h.set(false);
        turmoil::release("client", "server");
        Ok(())
    });

    let (h, c) = (held.clone(), connected_while_held.clone());
    sim.client("client", async move {
        let _s = TcpStream::connect(("server", PORT)).await?;
        c.set(h.get());
        Ok(())
    });

    sim.run()?;

    assert!(
        !connected_while_held.get(),
        "connect() returned on the client while the link was held"
    );
    Ok(())
}
