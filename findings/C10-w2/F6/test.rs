//! Audit C10 / F6: while a rename(a, b) has not been made durable, every data
//! operation issued through the NEW name b (write, set_len, the truncation of
//! File::create / OpenOptions::truncate) is silently dropped from what reads,
//! lengths and metadata report. No sync, no stale handle, no crash involved.
//!
//! Destination: crates/turmoil/tests/audit_c10_f6.rs
//! Run: CARGO_TARGET_DIR=/tmp/wt6/C10/target cargo test --offline -p turmoil \
//!        --features unstable-fs,unstable-io_uring --test audit_c10_f6
#![cfg(feature = "unstable-fs")]
use std::io::Write;
use std::os::unix::fs::FileExt;
use turmoil::fs::shim::std::fs::*;
use turmoil::{Builder, Result};

fn run(f: impl FnOnce() -> std::io::Result<()> + 'static) -> Result {
    let mut sim = Builder::new().build();
    sim.client("t", async move {
        f()?;
        Ok(())
    });
    sim.run()
}

/// write tmp, rename into place, append to the file under its final name.
#[test]
fn append_after_rename() -> Result {
    run(|| {
        write("/tmp", b"abc")?;
        rename("/tmp", "/f")?;
        let mut f = OpenOptions::new().append(true).open("/f")?;
        f.write_all(b"de")?;
        assert_eq!(metadata("/f")?.len(), 5);
        assert_eq!(read("/f")?, b"abcde");
        Ok(())
    })
}

/// The handle that wrote the bytes cannot read them back.
#[test]
fn write_at_and_read_back_through_the_same_new_handle() -> Result {
    run(|| {
        write("/tmp", b"abc")?;
        rename("/tmp", "/f")?;
        let f = OpenOptions::new().read(true).write(true).open("/f")?;
        f.write_all_at(b"XYZ", 1)?;
        let mut buf = [0u8; 4];
        let n = f.read_at(&mut buf, 0)?;
        assert_eq!(&buf[..n], b"aXYZ");
        Ok(())
    })
}

/// File::create on the new name does not truncate.
#[test]
fn truncate_after_rename() -> Result {
    run(|| {
        write("/tmp", b"abc")?;
        rename("/tmp", "/f")?;
        write("/f", b"Z")?; // File::create + write_at
        assert_eq!(read("/f")?, b"Z");
        Ok(())
    })
}

/// set_len through the new name.
#[test]
fn set_len_after_rename() -> Result {
    run(|| {
        write("/tmp", b"abcdef")?;
        rename("/tmp", "/f")?;
        let f = OpenOptions::new().write(true).open("/f")?;
        f.set_len(2)?;
        assert_eq!(f.metadata()?.len(), 2);
        assert_eq!(read("/f")?, b"ab");
        Ok(())
    })
}

/// The source is durable in every respect; only the rename is pending.
#[test]
fn durable_file_renamed_then_written() -> Result {
    run(|| {
        let f = File::create("/tmp")?;
        f.write_all_at(b"abc", 0)?;
        f.sync_all()?;
        sync_dir("/")?;
        drop(f);
        rename("/tmp", "/f")?;
        let g = OpenOptions::new().write(true).open("/f")?;
        g.write_all_at(b"de", 3)?;
        assert_eq!(read("/f")?, b"abcde");
        Ok(())
    })
}

/// Same through io_uring: a ring write on an fd opened under the new name.
#[cfg(feature = "unstable-io_uring")]
#[test]
fn ring_write_after_rename() -> Result {
    use std::os::fd::AsRawFd;
    use turmoil::io_uring::{opcode, types, AsyncFd, IoUring};
    let mut sim = Builder::new().build();
    sim.client("t", async move {
        write("/tmp", b"abc")?;
        rename("/tmp", "/f")?;
        let f = OpenOptions::new().read(true).write(true).open("/f")?;
        let ring = IoUring::new(4)?;
        let mut ring = AsyncFd::new(ring)?;
        let payload = b"de".to_vec();
        let e = opcode::Write::new(types::Fd(f.as_raw_fd()), payload.as_ptr(), 2)
            .offset(3)
            .build()
            .user_data(1);
        unsafe { ring.get_mut().submission().push(&e).unwrap() };
        ring.get_ref().submit()?;
        let _ = ring.readable().await?;
        let mut cq = ring.get_mut().completion();
        cq.sync();
        let cqe = cq.next().expect("cqe");
        assert_eq!(cqe.result(), 2);
        assert_eq!(read("/f")?, b"abcde");
        Ok(())
    });
    sim.run()
}
