//! Audit C16: with an MTU smaller than the IP + UDP headers no datagram
//! fits at all, yet an empty one is accepted and put on the wire: the
//! budget `mtu - ip_hdr - 8` saturates at 0 instead of going negative.

use std::cell::RefCell;
use std::net::{IpAddr, SocketAddr};
use std::rc::Rc;
use std::time::Duration;

use turmoil_net::fixture::ClientServer;
use turmoil_net::shim::tokio::net::UdpSocket;
use turmoil_net::{rule, KernelConfig, Packet, Transport, Verdict};

fn probe(mtu: u32, v6: bool) {
    let (sip, cip, any): (IpAddr, IpAddr, &str) = if v6 {
        ("fd00::1".parse().unwrap(), "fd00::2".parse().unwrap(), "[::]:0")
    } else {
        ("10.0.0.1".parse().unwrap(), "10.0.0.2".parse().unwrap(), "0.0.0.0:0")
    };
    let wire = Rc::new(RefCell::new(Vec::new()));
    let w2 = wire.clone();
    let res = ClientServer::with_config(KernelConfig::default().mtu(mtu))
        .server(sip, async {})
        .run(cip, async move {
            rule(move |p: &Packet| {
                if let Transport::Udp(_) = &p.payload {
                    w2.borrow_mut().push(p.size());
                }
                Verdict::Pass
            })
            .forget();
            let c = UdpSocket::bind(any).await.unwrap();
            let r = c.send_to(&[], SocketAddr::new(sip, 9000)).await;
            tokio::time::sleep(Duration::from_millis(5)).await;
            r
        });
    for size in wire.borrow().iter() {
        assert!(
            *size <= mtu,
            "mtu {mtu} v6 {v6}: send_to returned {res:?} and a {size}-byte UDP packet left the host"
        );
    }
    assert!(
        res.is_err(),
        "mtu {mtu} v6 {v6}: no datagram fits, send_to returned {res:?}"
    );
}

#[test]
fn udp_mtu_below_headers_v4() {
    probe(27, false);
}

#[test]
fn udp_mtu_below_headers_v6() {
    probe(47, true);
}

/// Control: one byte more of MTU and the empty datagram fits exactly.
#[test]
fn udp_mtu_equal_to_headers_is_fine() {
    let r = ClientServer::with_config(KernelConfig::default().mtu(28))
        .server("server", async {})
        .run("client", async move {
            let c = UdpSocket::bind("0.0.0.0:0").await.unwrap();
            let a = c.send_to(&[], "server:9000").await;
            let b = c.send_to(&[1], "server:9000").await;
            (a, b)
        });
    assert_eq!(r.0.unwrap(), 0);
    assert_eq!(r.1.unwrap_err().raw_os_error(), Some(90));
}
