//! C07 audit, finding F4: renaming a non-empty directory does not carry its
//! children. After the rename has been made durable (sync_dir of the parent)
//! and the host crashes, the durable file is not reachable under the
//! directory's new name (it stays keyed under the old, now non-existent,
//! directory).
//!
//! Clause contradicted: "a file is present iff its directory entry was made
//! durable by syncing its parent directory (and has not been durably removed
//! or renamed away) ... Synced data is never lost" - asserted for a regular
//! file all of whose ancestor directories (/ and /e) are durable.
#![cfg(feature = "unstable-fs")]

use std::os::unix::fs::FileExt;
use std::sync::{Arc, Mutex};
use std::time::Duration;
use turmoil::fs::shim::std::fs::{create_dir, metadata, read, rename, sync_dir, OpenOptions};
use turmoil::fs::{enter, EnterCtx, Fs, FsConfig};

fn with_fs<R>(f: impl FnOnce(&Arc<Mutex<Fs>>) -> R) -> R {
    let fs = Arc::new(Mutex::new(Fs::new(FsConfig::default(), 7)));
    let _g = enter(
        &fs,
        EnterCtx {
            now: Duration::from_secs(1),
            on_corruption: None,
        },
    );
    f(&fs)
}

fn s(v: Vec<u8>) -> String {
    String::from_utf8_lossy(&v).into_owned()
}

#[test]
fn durable_dir_rename_keeps_children() {
    with_fs(|fs| {
        create_dir("/d").unwrap();
        sync_dir("/").unwrap();
        let f = OpenOptions::new()
            .write(true)
            .create_new(true)
            .open("/d/f")
            .unwrap();
        f.write_all_at(b"DATA", 0).unwrap();
        f.sync_all().unwrap();
        drop(f);
        sync_dir("/d").unwrap();

        rename("/d", "/e").unwrap();
        sync_dir("/").unwrap();

        fs.lock().unwrap().crash();

        assert!(metadata("/e").map(|m| m.is_dir()).unwrap_or(false), "/e durable");
        assert!(metadata("/d").is_err(), "/d durably renamed away");
        assert_eq!(
            read("/e/f").ok().map(s).as_deref(),
            Some("DATA"),
            "durable file must follow its durably renamed parent directory"
        );
        assert!(read("/d/f").is_err(), "file still reachable under the old directory name");
    });
}
