//! Audit C14 / F1: a per-link (or global) maximum-latency override that ends
//! up below the minimum the link inherited makes every send on that link
//! panic ("overflow when subtracting durations") instead of being delivered
//! within the overridden maximum.
//!
//! Destination: crates/turmoil/tests/audit_c14_4.rs
//! Run: CARGO_TARGET_DIR=/tmp/wt6/C14/target cargo test --offline -p turmoil --test audit_c14_4
use std::cell::RefCell;
use std::net::{IpAddr, Ipv4Addr};
use std::rc::Rc;
use std::time::Duration;

use turmoil::net::UdpSocket;
use turmoil::{Builder, Sim};

const TICK: Duration = Duration::from_millis(1);

/// `a` sends one datagram to `b` at sim time 5 ms; returns the measured
/// delays (receive - send, in virtual time) observed by `b`.
fn one_datagram(sim: &mut Sim<'_>, configure: impl FnOnce(&Sim<'_>)) -> Vec<Duration> {
    let delays: Rc<RefCell<Vec<Duration>>> = Rc::new(RefCell::new(Vec::new()));

    let d = delays.clone();
    sim.client("b", async move {
        let sock = UdpSocket::bind((IpAddr::V4(Ipv4Addr::UNSPECIFIED), 9000)).await?;
        let mut buf = [0u8; 8];
        let (n, _) = sock.recv_from(&mut buf).await?;
        assert_eq!(n, 8);
        let sent = Duration::from_nanos(u64::from_le_bytes(buf));
        d.borrow_mut()
            .push(turmoil::sim_elapsed().unwrap() - sent);
        Ok(())
    });

    sim.client("a", async move {
        let sock = UdpSocket::bind((IpAddr::V4(Ipv4Addr::UNSPECIFIED), 9000)).await?;
        tokio::time::sleep(Duration::from_millis(5)).await;
        let now = turmoil::sim_elapsed().unwrap();
        sock.send_to(&(now.as_nanos() as u64).to_le_bytes(), ("b", 9000))
            .await?;
        Ok(())
    });

    configure(sim);

    let res = sim.run();
    assert!(res.is_ok(), "simulation failed: {res:?}");
    let out = delays.borrow().clone();
    out
}

/// Global window 20..50 ms, the link a<->b is capped at 10 ms before the run.
/// The per-link setting takes precedence, so the datagram has to arrive, and
/// no later than 10 ms + one tick after it was sent.
#[test]
fn link_max_override_below_global_min() {
    let mut sim = Builder::new()
        .tick_duration(TICK)
        .min_message_latency(Duration::from_millis(20))
        .max_message_latency(Duration::from_millis(50))
        .rng_seed(1)
        .build();

    let delays = one_datagram(&mut sim, |sim| {
        sim.set_link_max_message_latency("a", "b", Duration::from_millis(10));
    });

    assert_eq!(delays.len(), 1, "the datagram was not delivered");
    assert!(
        delays[0] <= Duration::from_millis(10) + TICK,
        "delay {:?} exceeds the per-link maximum + one tick",
        delays[0]
    );
}

/// Default global window (0..100 ms). The link is first pinned to 30 ms and
/// later capped at 10 ms.
#[test]
fn link_max_override_below_earlier_fixed_override() {
    let mut sim = Builder::new().tick_duration(TICK).rng_seed(1).build();

    let delays = one_datagram(&mut sim, |sim| {
        sim.set_link_latency("a", "b", Duration::from_millis(30));
        sim.set_link_max_message_latency("a", "b", Duration::from_millis(10));
    });

    assert_eq!(delays.len(), 1, "the datagram was not delivered");
    assert!(
        delays[0] <= Duration::from_millis(10) + TICK,
        "delay {:?} exceeds the per-link maximum + one tick",
        delays[0]
    );
}

/// Same through the global setter: window 20..50 ms, the global maximum is
/// lowered to 10 ms during the run (after a first step).
#[test]
fn global_max_lowered_below_min_mid_run() {
    let mut sim = Builder::new()
        .tick_duration(TICK)
        .min_message_latency(Duration::from_millis(20))
        .max_message_latency(Duration::from_millis(50))
        .rng_seed(1)
        .build();

    let delays = one_datagram(&mut sim, |_| {});
    assert_eq!(delays.len(), 1);
    assert!(delays[0] + TICK >= Duration::from_millis(20));

    // second round on the same simulation, with the lowered maximum
    let delays: Rc<RefCell<Vec<Duration>>> = Rc::new(RefCell::new(Vec::new()));
    let d = delays.clone();
    sim.client("d", async move {
        let sock = UdpSocket::bind((IpAddr::V4(Ipv4Addr::UNSPECIFIED), 9000)).await?;
        let mut buf = [0u8; 8];
        sock.recv_from(&mut buf).await?;
        let sent = Duration::from_nanos(u64::from_le_bytes(buf));
        d.borrow_mut()
            .push(turmoil::sim_elapsed().unwrap() - sent);
        Ok(())
    });
    sim.client("c", async move {
        let sock = UdpSocket::bind((IpAddr::V4(Ipv4Addr::UNSPECIFIED), 9000)).await?;
        tokio::time::sleep(Duration::from_millis(5)).await;
        let now = turmoil::sim_elapsed().unwrap();
        sock.send_to(&(now.as_nanos() as u64).to_le_bytes(), ("d", 9000))
            .await?;
        Ok(())
    });
    sim.set_max_message_latency(Duration::from_millis(10));
    let res = sim.run();
    assert!(res.is_ok(), "simulation failed: {res:?}");
    assert_eq!(delays.borrow().len(), 1, "the datagram was not delivered");
    assert!(delays.borrow()[0] <= Duration::from_millis(10) + TICK);
}
