//! Audit C12 / F2: when a connector's (address, ephemeral port) comes round
//! again while the accepted end of the earlier stream with that address is
//! still open on the listener's host, `accept` panics ("... is already
//! connected") instead of the connect succeeding or being refused.
//!
//! Statement clause: "A turmoil::net TCP connect completes successfully
//! exactly when a listener ... accepts it, ... [otherwise it] fails with
//! ConnectionRefused instead of hanging".
use std::{io::ErrorKind, time::Duration};

use tokio::time::sleep;
use turmoil::{
    net::{TcpListener, TcpStream},
    Builder, Result,
};

fn scenario(mut builder: Builder, connects: usize) -> Result {
    let mut sim = builder
        .tick_duration(Duration::from_millis(1))
        .min_message_latency(Duration::from_millis(1))
        .max_message_latency(Duration::from_millis(1))
        .simulation_duration(Duration::from_secs(3600))
        .build();

    sim.host("server", || async {
        let l = TcpListener::bind(("0.0.0.0", 80)).await?;
        // The first accepted stream is kept open (a long-lived session);
        // all later ones are closed right away.
        let (_first, _) = l.accept().await?;
        loop {
            let (s, _) = l.accept().await?;
            drop(s);
        }
    });

    sim.client("client", async move {
        let mut ok = 0;
        for i in 0..connects {
            match TcpStream::connect("server:80").await {
                Ok(s) => {
                    ok += 1;
                    drop(s)
                }
                Err(e) => assert_eq!(e.kind(), ErrorKind::ConnectionRefused, "connect #{i}"),
            }
        }
        sleep(Duration::from_millis(10)).await;
        // every connect but (at most) the one that collided was accepted
        assert!(ok >= connects - 1, "{ok} of {connects}");
        assert_eq!(turmoil::established_tcp_stream_count(), 0);
        Ok(())
    });

    sim.run()
}

/// Three ephemeral ports, four connects: the fourth reuses the first port.
#[test]
fn port_reuse_while_accepted_end_still_open_small_range() -> Result {
    let mut b = Builder::new();
    b.ephemeral_ports(49152..=49154);
    scenario(b, 4)
}

/// Default configuration (49152..=65535): connect number 16385 reuses the
/// port of connect number 1.
#[test]
fn port_reuse_while_accepted_end_still_open_default_range() -> Result {
    scenario(Builder::new(), 16385)
}
