//! Audit C09 F2: an IPv6 multicast destination that carries a scope id (as
//! every link-local group address does on a real host) reaches no member.

use std::{
    net::{Ipv6Addr, SocketAddr, SocketAddrV6},
    time::Duration,
};

use tokio::time::timeout;
use turmoil::{net::UdpSocket, Builder, IpVersion, Result};

#[test]
fn v6_multicast_with_scope_id_reaches_members() -> Result {
    let mut sim = Builder::new().ip_version(IpVersion::V6).build();
    let group: Ipv6Addr = "ff02::1".parse().unwrap();

    sim.client("rx", async move {
        let rx = UdpSocket::bind((Ipv6Addr::UNSPECIFIED, 9000)).await?;
        rx.join_multicast_v6(&group, 0)?;
        let mut buf = [0u8; 8];
        // first the plain destination: delivered
        let (n, _) = timeout(Duration::from_secs(1), rx.recv_from(&mut buf)).await??;
        assert_eq!(&buf[..n], b"one");
        // then the same group and port with a scope id
        let (n, _) = timeout(Duration::from_secs(1), rx.recv_from(&mut buf))
            .await
            .expect("member did not receive the datagram sent to [ff02::1%2]:9000")?;
        assert_eq!(&buf[..n], b"two");
        Ok(())
    });

    sim.client("tx", async move {
        let tx = UdpSocket::bind((Ipv6Addr::UNSPECIFIED, 0)).await?;
        tokio::time::sleep(Duration::from_millis(10)).await;
        tx.send_to(b"one", SocketAddr::V6(SocketAddrV6::new(group, 9000, 0, 0)))
            .await?;
        tokio::time::sleep(Duration::from_millis(200)).await;
        tx.send_to(b"two", SocketAddr::V6(SocketAddrV6::new(group, 9000, 0, 2)))
            .await?;
        Ok(())
    });

    sim.run()
}
