//! Audit C16: the UDP size check compares `buf.len() as u32` with the
//! MTU budget, so a payload of 4 GiB + k bytes is measured as k bytes.

#![cfg(target_pointer_width = "64")]

use turmoil_net::fixture::ClientServer;
use turmoil_net::shim::tokio::net::UdpSocket;

#[test]
fn udp_payload_over_4gib_is_rejected() {
    ClientServer::new()
        .server("server", async {})
        .run("client", async {
            let c = UdpSocket::bind("0.0.0.0:0").await.unwrap();
            // 4 GiB + 10 bytes; calloc-backed, untouched until copied.
            let huge = vec![0u8; (1usize << 32) + 10];
            let r = c.try_send_to(&huge, "192.168.0.1:9000".parse().unwrap());
            drop(huge);
            match r {
                Err(e) => assert_eq!(e.raw_os_error(), Some(90), "expected EMSGSIZE, got {e:?}"),
                Ok(n) => panic!("a {n}-byte datagram was accepted with mtu 1500"),
            }
        });
}
