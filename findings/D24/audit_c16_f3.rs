//! C16 audit, finding F3: when the MTU leaves no room for TCP payload
//! (MSS == 0) the segmenter spins forever, pushing empty segments onto
//! the outbound queue until memory is exhausted.
//!
//! `KernelConfig::mtu(60)` is a usable setting for IPv4 in this
//! simulator (MSS = 60 - 20 - 20 = 20), but the very same `Net` gives
//! an IPv6 connection MSS = 60 - 40 - 20 = 0. The first write on such a
//! connection never returns control to the test: `segment_one` computes
//! `n = unsent.min(mss) = 0`, emits a zero-length "data" segment,
//! leaves `snd_nxt` where it was and loops.
//!
//! The scenario runs in a child process with a 1 GiB address-space
//! limit and a wall-clock deadline so that the failure is a failed
//! assertion rather than an OOM-killed test run.

use std::net::IpAddr;
use std::process::{Command, Stdio};
use std::time::{Duration, Instant};

use tokio::io::{AsyncReadExt, AsyncWriteExt};
use turmoil_net::fixture::ClientServer;
use turmoil_net::shim::tokio::net::{TcpListener, TcpStream};
use turmoil_net::KernelConfig;

const CHILD_ENV: &str = "AUDIT_C16_3_CHILD";

fn scenario(server_ip: IpAddr, client_ip: IpAddr, bind: &'static str) {
    let cfg = KernelConfig::default().mtu(60);
    ClientServer::with_config(cfg)
        .server(server_ip, async move {
            let listener = TcpListener::bind(bind).await.unwrap();
            let (mut sock, _) = listener.accept().await.unwrap();
            let mut buf = [0u8; 64];
            let _ = sock.read(&mut buf).await;
            std::future::pending::<()>().await;
        })
        .run(client_ip, async move {
            let mut c = TcpStream::connect((server_ip, 9000)).await.unwrap();
            // Accepted into the send buffer (cap is 64 KiB).
            c.write_all(b"0123456789").await.unwrap();
            // Whatever the stack does with bytes it cannot fit into a
            // segment, virtual time has to keep moving.
            tokio::time::sleep(Duration::from_millis(50)).await;
        });
}

/// Control: same MTU over IPv4 (MSS 20) works.
#[test]
fn mtu_60_ipv4_is_usable() {
    scenario(
        "10.0.0.1".parse().unwrap(),
        "10.0.0.2".parse().unwrap(),
        "0.0.0.0:9000",
    );
}

#[test]
fn mtu_60_ipv6_child() {
    if std::env::var_os(CHILD_ENV).is_none() {
        return; // only meaningful under the guard below
    }
    scenario(
        "fd00::1".parse().unwrap(),
        "fd00::2".parse().unwrap(),
        "[::]:9000",
    );
}

#[test]
fn mss_zero_must_not_hang_the_simulation() {
    let exe = std::env::current_exe().unwrap();
    let mut child = Command::new("sh")
        .arg("-c")
        .arg("ulimit -v 1048576; exec \"$0\" --exact mtu_60_ipv6_child --nocapture")
        .arg(&exe)
        .env(CHILD_ENV, "1")
        .stdout(Stdio::null())
        .stderr(Stdio::piped())
        .spawn()
        .unwrap();
    let start = Instant::now();
    let status = loop {
        if let Some(st) = child.try_wait().unwrap() {
            break Some(st);
        }
        if start.elapsed() > Duration::from_secs(20) {
            let _ = child.kill();
            let _ = child.wait();
            break None;
        }
        std::thread::sleep(Duration::from_millis(20));
    };
    let mut err = String::new();
    if let Some(mut e) = child.stderr.take() {
        use std::io::Read;
        let _ = e.read_to_string(&mut err);
    }
    let tail: String = err
        .lines()
        .filter(|l| l.contains("memory allocation") || l.contains("panicked"))
        .collect::<Vec<_>>()
        .join(" | ");
    match status {
        Some(st) => assert!(
            st.success(),
            "IPv6 connection with mtu=60 (MSS 0): child died after {:?} with {st} (1 GiB address space exhausted); stderr: {tail}",
            start.elapsed()
        ),
        None => panic!("IPv6 connection with mtu=60 (MSS 0): simulation still spinning after 20 s wall clock"),
    }
}
