//! Audit C09 / F1: multicast membership is only evaluated when the datagram
//! is sent. A datagram that is still on the link when the member leaves the
//! group (or drops its socket and an unrelated socket re-binds the port) is
//! delivered to a socket that is not a member.
//!
//! Destination: crates/turmoil/tests/audit_c09_f1.rs
//! Run: CARGO_TARGET_DIR=/tmp/wt3/C09/target cargo test -p turmoil --offline --test audit_c09_f1
#![allow(unused_imports, dead_code)]

use std::{
    net::{IpAddr, Ipv4Addr, Ipv6Addr, SocketAddr},
    time::Duration,
};

use tokio::time::{sleep, timeout};
use turmoil::{net::UdpSocket, Builder, IpVersion, Result};

const GROUP: Ipv4Addr = Ipv4Addr::new(239, 0, 0, 1);
const PORT: u16 = 9000;

fn fixed_latency_sim(ms: u64) -> turmoil::Sim<'static> {
    Builder::new()
        .ip_version(IpVersion::V4)
        .tick_duration(Duration::from_millis(1))
        .min_message_latency(Duration::from_millis(ms))
        .max_message_latency(Duration::from_millis(ms))
        .build()
}

/// H1a: a socket that left the group before the datagram arrives must not
/// receive it ("only current members for a multicast group").
#[test]
fn multicast_in_flight_after_leave() -> Result {
    let mut sim = fixed_latency_sim(50);

    sim.client("member", async move {
        let sock = UdpSocket::bind((Ipv4Addr::UNSPECIFIED, PORT)).await?;
        sock.join_multicast_v4(GROUP, Ipv4Addr::UNSPECIFIED)?;
        // sender sends at t=5ms, arrives at ~55ms. Leave at 20ms.
        sleep(Duration::from_millis(20)).await;
        sock.leave_multicast_v4(GROUP, Ipv4Addr::UNSPECIFIED)?;

        let mut buf = [0u8; 8];
        let got = timeout(Duration::from_millis(500), sock.recv_from(&mut buf)).await;
        assert!(
            got.is_err(),
            "socket that is no longer a member of {GROUP} received a multicast datagram: {got:?}"
        );
        Ok(())
    });

    sim.client("sender", async move {
        let sock = UdpSocket::bind((Ipv4Addr::UNSPECIFIED, 0)).await?;
        sleep(Duration::from_millis(5)).await;
        sock.send_to(b"mc", (GROUP, PORT)).await?;
        sleep(Duration::from_millis(600)).await;
        Ok(())
    });

    sim.run()
}

/// H1b: a socket that never joined (fresh bind on the same port after the
/// member socket was dropped) must not receive a multicast datagram.
#[test]
fn multicast_in_flight_to_never_joined_socket() -> Result {
    let mut sim = fixed_latency_sim(50);

    sim.client("member", async move {
        let sock = UdpSocket::bind((Ipv4Addr::UNSPECIFIED, PORT)).await?;
        sock.join_multicast_v4(GROUP, Ipv4Addr::UNSPECIFIED)?;
        sleep(Duration::from_millis(20)).await;
        drop(sock);

        // Unrelated unicast socket on the same port; never joins any group.
        let sock = UdpSocket::bind((Ipv4Addr::UNSPECIFIED, PORT)).await?;
        let mut buf = [0u8; 8];
        let got = timeout(Duration::from_millis(500), sock.recv_from(&mut buf)).await;
        assert!(
            got.is_err(),
            "socket that never joined {GROUP} received a multicast datagram: {got:?}"
        );
        Ok(())
    });

    sim.client("sender", async move {
        let sock = UdpSocket::bind((Ipv4Addr::UNSPECIFIED, 0)).await?;
        sleep(Duration::from_millis(5)).await;
        sock.send_to(b"mc", (GROUP, PORT)).await?;
        sleep(Duration::from_millis(600)).await;
        Ok(())
    });

    sim.run()
}

/// IPv6 flavour of the never-joined case.
#[test]
fn v6_multicast_in_flight_to_never_joined_socket() -> Result {
    let mut sim = Builder::new()
        .ip_version(IpVersion::V6)
        .min_message_latency(Duration::from_millis(50))
        .max_message_latency(Duration::from_millis(50))
        .build();
    let group: Ipv6Addr = "ff08::5".parse().unwrap();
    sim.client("member", async move {
        let s = UdpSocket::bind((Ipv6Addr::UNSPECIFIED, PORT)).await?;
        s.join_multicast_v6(&group, 0)?;
        sleep(Duration::from_millis(20)).await;
        drop(s);
        let s = UdpSocket::bind((Ipv6Addr::UNSPECIFIED, PORT)).await?;
        let mut b = [0u8; 4];
        let got = timeout(Duration::from_millis(300), s.recv_from(&mut b)).await;
        assert!(got.is_err(), "never-joined v6 socket got multicast: {got:?}");
        Ok(())
    });
    sim.client("tx", async move {
        let s = UdpSocket::bind((Ipv6Addr::UNSPECIFIED, 0)).await?;
        sleep(Duration::from_millis(5)).await;
        s.send_to(b"mc", (group, PORT)).await?;
        sleep(Duration::from_millis(400)).await;
        Ok(())
    });
    sim.run()
}
