//! Audit C14 / F1 - the latency window is not honoured when the tick duration
//! is not a whole number of milliseconds.
//!
//! `Rt::tick` advances every runtime (each host's and the topology's) with
//! `tokio::time::sleep(tick)`. tokio timers have millisecond granularity and a
//! paused clock auto-advances to the timer-wheel slot, so one step moves every
//! tokio clock by `tick` rounded UP to a millisecond boundary (250us -> 1ms,
//! 1.5ms -> 2ms), while `Sim::elapsed`, `turmoil::elapsed`,
//! `turmoil::sim_elapsed` and the simulation-duration check all advance by the
//! nominal `tick`. Links schedule deliveries on the (fast) tokio clock, so a
//! message's delay is wrong on the simulation's own virtual clock, and - because
//! the effective quantum is the rounded-up tick - also on the tokio clock.
//!
//! Both clocks are checked below; on an unmodified tree every case fails on at
//! least one of them, several on both.

use std::cell::RefCell;
use std::net::{IpAddr, Ipv4Addr};
use std::rc::Rc;
use std::time::Duration;

use tokio::io::{AsyncReadExt, AsyncWriteExt};
use tokio::time::Instant;
use turmoil::net::{TcpListener, TcpStream, UdpSocket};
use turmoil::Builder;

const PORT: u16 = 4000;

#[derive(Clone, Copy, Debug, Default)]
struct Stamp {
    /// `turmoil::sim_elapsed()`
    sim: Duration,
    /// host's tokio clock, relative to the host's first poll. Both hosts are
    /// registered before the first step, so the two origins coincide.
    inst: Duration,
}

fn window_violations(
    what: &str,
    sent: Stamp,
    recv: Stamp,
    tick: Duration,
    min: Duration,
    max: Duration,
) -> Vec<String> {
    let lo = min.as_nanos() as i128 - tick.as_nanos() as i128;
    let hi = max.as_nanos() as i128 + tick.as_nanos() as i128;
    let mut out = vec![];
    for (clock, s, r) in [
        ("turmoil::sim_elapsed", sent.sim, recv.sim),
        ("tokio Instant", sent.inst, recv.inst),
    ] {
        let d = r.as_nanos() as i128 - s.as_nanos() as i128;
        if d < lo || d > hi {
            out.push(format!(
                "{what}: tick {tick:?}, latency [{min:?}, {max:?}]: delay on {clock} = {:?}, allowed [{:?}, {:?}]",
                Duration::from_nanos(d.unsigned_abs() as u64),
                Duration::from_nanos(lo.max(0) as u64),
                Duration::from_nanos(hi as u64),
            ));
        }
    }
    out
}

/// One UDP datagram a -> b under a fixed latency; returns (sent, received).
fn one_datagram(tick: Duration, lat: Duration) -> (Stamp, Stamp) {
    let mut sim = Builder::new()
        .tick_duration(tick)
        .min_message_latency(lat)
        .max_message_latency(lat)
        .build();

    let sent = Rc::new(RefCell::new(Stamp::default()));
    let recv = Rc::new(RefCell::new(Stamp::default()));

    let r = recv.clone();
    sim.client("b", async move {
        let t0 = Instant::now();
        let sock = UdpSocket::bind((IpAddr::V4(Ipv4Addr::UNSPECIFIED), PORT)).await?;
        let mut buf = [0u8; 1];
        sock.recv_from(&mut buf).await?;
        *r.borrow_mut() = Stamp {
            sim: turmoil::sim_elapsed().unwrap(),
            inst: t0.elapsed(),
        };
        Ok(())
    });

    let s = sent.clone();
    sim.client("a", async move {
        let t0 = Instant::now();
        let sock = UdpSocket::bind((IpAddr::V4(Ipv4Addr::UNSPECIFIED), PORT)).await?;
        // let `b` bind first (it does so in the first step)
        tokio::time::sleep(Duration::from_millis(10)).await;
        *s.borrow_mut() = Stamp {
            sim: turmoil::sim_elapsed().unwrap(),
            inst: t0.elapsed(),
        };
        sock.send_to(&[1], ("b", PORT)).await?;
        Ok(())
    });

    sim.run().unwrap();
    let out = (*sent.borrow(), *recv.borrow());
    out
}

#[test]
fn udp_latency_window_with_fractional_tick() {
    let us = Duration::from_micros;
    let mut violations = vec![];
    for (tick, lat) in [
        (us(250), us(5_000)),
        (us(500), us(2_100)),
        (us(1_500), us(10_000)),
        (us(1_500), us(20_100)),
        (us(2_500), us(20_100)),
        (us(3_300), us(20_100)),
    ] {
        let (sent, recv) = one_datagram(tick, lat);
        violations.extend(window_violations("udp", sent, recv, tick, lat, lat));
    }
    assert!(
        violations.is_empty(),
        "{} latency-window violations:\n{}",
        violations.len(),
        violations.join("\n")
    );
}

#[test]
fn tcp_latency_window_with_fractional_tick() {
    let us = Duration::from_micros;
    let mut violations = vec![];
    for (tick, lat) in [(us(250), us(5_000)), (us(1_500), us(20_100))] {
        let mut sim = Builder::new()
            .tick_duration(tick)
            .min_message_latency(lat)
            .max_message_latency(lat)
            .build();

        let sent = Rc::new(RefCell::new(Stamp::default()));
        let recv = Rc::new(RefCell::new(Stamp::default()));

        let s = sent.clone();
        sim.client("server", async move {
            let t0 = Instant::now();
            let l = TcpListener::bind((IpAddr::V4(Ipv4Addr::UNSPECIFIED), PORT)).await?;
            let (mut stream, _) = l.accept().await?;
            *s.borrow_mut() = Stamp {
                sim: turmoil::sim_elapsed().unwrap(),
                inst: t0.elapsed(),
            };
            stream.write_u8(9).await?;
            // keep the stream open until the peer has read
            let _ = stream.read_u8().await;
            Ok(())
        });

        let r = recv.clone();
        sim.client("client", async move {
            let t0 = Instant::now();
            tokio::time::sleep(Duration::from_millis(10)).await;
            let mut stream = TcpStream::connect(("server", PORT)).await?;
            stream.read_u8().await?;
            *r.borrow_mut() = Stamp {
                sim: turmoil::sim_elapsed().unwrap(),
                inst: t0.elapsed(),
            };
            Ok(())
        });

        sim.run().unwrap();
        violations.extend(window_violations(
            "tcp",
            *sent.borrow(),
            *recv.borrow(),
            tick,
            lat,
            lat,
        ));
    }
    assert!(
        violations.is_empty(),
        "{} latency-window violations:\n{}",
        violations.len(),
        violations.join("\n")
    );
}

/// The root cause in isolation: after k steps the host's tokio clock and the
/// simulation's virtual clock disagree.
#[test]
fn clocks_agree_after_steps_with_fractional_tick() {
    for tick in [Duration::from_micros(250), Duration::from_micros(1_500)] {
        let mut sim = Builder::new().tick_duration(tick).build();
        let seen = Rc::new(RefCell::new((Duration::ZERO, Duration::ZERO)));
        let s = seen.clone();
        sim.host("h", move || {
            let s = s.clone();
            async move {
                let t0 = Instant::now();
                loop {
                    *s.borrow_mut() = (t0.elapsed(), turmoil::sim_elapsed().unwrap());
                    tokio::time::sleep(Duration::from_millis(1)).await;
                }
            }
        });
        sim.client("c", async move {
            tokio::time::sleep(Duration::from_millis(30)).await;
            Ok(())
        });
        sim.run().unwrap();
        let (inst, virt) = *seen.borrow();
        let diff = if inst > virt { inst - virt } else { virt - inst };
        assert!(
            diff <= tick,
            "tick {tick:?}: host tokio clock says {inst:?} but turmoil::sim_elapsed says {virt:?} (Sim::elapsed = {:?})",
            sim.elapsed()
        );
    }
}
