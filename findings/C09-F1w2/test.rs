//! Audit C09 F1: a datagram addressed to the loopback address of the other
//! address family is delivered to a wildcard socket of this family.

use std::{
    net::{Ipv4Addr, Ipv6Addr, SocketAddr},
    time::Duration,
};

use tokio::time::timeout;
use turmoil::{net::UdpSocket, Builder, IpVersion, Result};

/// IPv4 simulation. A socket bound to 0.0.0.0:9000 must only see datagrams
/// whose destination is an IPv4 address of this host (or 127.0.0.1). A send
/// to [::1]:9000 from an IPv4 socket is documented to fail ("This will return
/// an error when the IP version of the local socket does not match that
/// returned from ToSocketAddrs"); in no case may it reach the IPv4 socket.
#[test]
fn v4_wildcard_socket_does_not_receive_v6_loopback_datagram() -> Result {
    let mut sim = Builder::new().ip_version(IpVersion::V4).build();

    sim.client("host", async move {
        let rx = UdpSocket::bind((Ipv4Addr::UNSPECIFIED, 9000)).await?;
        let tx = UdpSocket::bind((Ipv4Addr::UNSPECIFIED, 0)).await?;

        let dst = SocketAddr::from((Ipv6Addr::LOCALHOST, 9000));
        let sent = tx.send_to(b"ping", dst).await;

        let mut buf = [0u8; 8];
        let got = timeout(Duration::from_secs(1), rx.recv_from(&mut buf)).await;

        assert!(
            got.is_err(),
            "socket bound to {:?} received {:?} for destination {dst} (send_to returned {sent:?})",
            rx.local_addr().unwrap(),
            got.unwrap().unwrap(),
        );
        assert!(sent.is_err(), "send_to an IPv6 address from an IPv4 socket succeeded");
        Ok(())
    });

    sim.run()
}

/// The mirror image on an IPv6 simulation.
#[test]
fn v6_localhost_socket_origin_is_v6() -> Result {
    let mut sim = Builder::new().ip_version(IpVersion::V6).build();

    sim.client("host", async move {
        let rx = UdpSocket::bind((Ipv6Addr::UNSPECIFIED, 9000)).await?;
        let tx = UdpSocket::bind((Ipv6Addr::LOCALHOST, 0)).await?;

        let dst = SocketAddr::from((Ipv4Addr::LOCALHOST, 9000));
        let sent = tx.send_to(b"ping", dst).await;

        let mut buf = [0u8; 8];
        let got = timeout(Duration::from_secs(1), rx.recv_from(&mut buf)).await;
        if let Ok(Ok((_, origin))) = got {
            // The reported source must be the sending socket.
            assert_eq!(
                origin,
                tx.local_addr().unwrap(),
                "origin is not the address of the sending socket (send_to returned {sent:?})"
            );
        }
        assert!(sent.is_err(), "send_to an IPv4 address from an IPv6 socket succeeded");
        Ok(())
    });

    sim.run()
}

/// Same root cause inside one address family: a socket bound to 127.0.0.1
/// sends to another loopback address (127.0.0.2). The reported origin must be
/// the sender's own address, so that a reply reaches it.
#[test]
fn origin_of_localhost_bound_sender_to_other_loopback_address() -> Result {
    let mut sim = Builder::new().build();
    sim.client("host", async move {
        let rx = UdpSocket::bind((Ipv4Addr::new(127, 0, 0, 2), 9000)).await?;
        let tx = UdpSocket::bind((Ipv4Addr::LOCALHOST, 9001)).await?;
        tx.send_to(b"ping", (Ipv4Addr::new(127, 0, 0, 2), 9000)).await?;
        let mut buf = [0u8; 8];
        let (_, origin) = timeout(Duration::from_secs(1), rx.recv_from(&mut buf)).await??;
        assert_eq!(origin, tx.local_addr()?, "reported origin is not the sending socket");
        Ok(())
    });
    sim.run()
}
