//! Audit C13: a per-connection handler spawned by the server (the
//! canonical accept-loop shape, also used by tests/rules.rs) must close
//! the *server's* socket when it drops the accepted stream.

use std::time::Duration;

use tokio::io::{AsyncReadExt, AsyncWriteExt};
use tokio::time::sleep;
use turmoil_net::fixture::ClientServer;
use turmoil_net::netstat;
use turmoil_net::shim::tokio::net::{TcpListener, TcpStream};

#[test]
fn spawned_handler_closes_its_own_hosts_socket() {
    ClientServer::new()
        .server("server", async move {
            let l = TcpListener::bind("0.0.0.0:9000").await.unwrap();
            loop {
                let (mut s, _) = l.accept().await.unwrap();
                tokio::spawn(async move {
                    // echo until EOF, then close
                    let mut buf = [0u8; 16];
                    loop {
                        match s.read(&mut buf).await {
                            Ok(0) | Err(_) => break,
                            Ok(n) => {
                                let _ = s.write_all(&buf[..n]).await;
                            }
                        }
                    }
                    drop(s);
                });
            }
        })
        .run("client", async move {
            for i in 0..5 {
                let mut c = TcpStream::connect("server:9000").await.unwrap();
                c.write_all(b"ping").await.unwrap();
                let mut buf = [0u8; 4];
                tokio::time::timeout(Duration::from_millis(500), c.read_exact(&mut buf))
                    .await
                    .unwrap_or_else(|_| {
                        panic!(
                            "round {i}: no echo after 500 ticks\nserver:\n{}client:\n{}",
                            netstat("server"),
                            netstat("client")
                        )
                    })
                    .unwrap();
                assert_eq!(&buf, b"ping", "round {i}");
                c.shutdown().await.unwrap();
                let n = tokio::time::timeout(Duration::from_millis(500), c.read(&mut buf))
                    .await
                    .unwrap_or_else(|_| {
                        panic!(
                            "round {i}: no EOF after 500 ticks\nserver:\n{}client:\n{}",
                            netstat("server"),
                            netstat("client")
                        )
                    })
                    .unwrap();
                assert_eq!(n, 0, "round {i}: server handler closes after EOF");
                drop(c);
            }
            sleep(Duration::from_millis(200)).await;
            let s = netstat("server");
            let c = netstat("client");
            assert!(
                s.entries.iter().all(|e| e.peer.is_none()),
                "server still holds connection entries:\n{s}"
            );
            assert!(c.entries.is_empty(), "client still holds entries:\n{c}");
        });
}

/// Same shape, but the fd numbers of the two hosts line up (client: UDP
/// socket = fd 1, TCP stream = fd 2; server: listener = fd 1, accepted
/// child = fd 2). The handler closes "its" stream without reading; the
/// client must simply see EOF and stay usable.
#[test]
fn spawned_handler_drop_does_not_close_the_peers_socket() {
    use turmoil_net::shim::tokio::net::UdpSocket;
    ClientServer::new()
        .server("server", async move {
            let l = TcpListener::bind("0.0.0.0:9000").await.unwrap();
            loop {
                let (s, _) = l.accept().await.unwrap();
                tokio::spawn(async move {
                    sleep(Duration::from_millis(5)).await;
                    drop(s); // graceful close of the server side
                });
            }
        })
        .run("client", async move {
            let _udp = UdpSocket::bind("0.0.0.0:7000").await.unwrap();
            let mut c = TcpStream::connect("server:9000").await.unwrap();
            let local = c.local_addr().unwrap();
            // a client that is busy every tick (polling, heartbeats, ...)
            for _ in 0..50 {
                sleep(Duration::from_millis(1)).await;
            }
            // The server closed its end: the client reads EOF ...
            let mut buf = [0u8; 4];
            let r = tokio::time::timeout(Duration::from_millis(200), c.read(&mut buf)).await;
            assert!(
                matches!(r, Ok(Ok(0))),
                "client should read EOF after the server handler closed, got {r:?}\nserver:\n{}client:\n{}",
                netstat("server"),
                netstat("client")
            );
            // ... and its own handle is still valid.
            assert_eq!(c.local_addr().unwrap(), local);
        });
}
