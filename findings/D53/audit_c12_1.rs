//! C12 audit, hypothesis 1: a connect whose SYN is still in flight (or is sent
//! later) when the software of the listener's host returns - which drops the
//! listener - must be refused, not hang.
//!
//! The property: "A connect to a port nobody listens on, to a listener that is
//! dropped before accepting ... fails with ConnectionRefused instead of
//! hanging."
use std::{
    io,
    net::{IpAddr, Ipv4Addr},
    time::Duration,
};

use tokio::time::{sleep, timeout};
use turmoil::{
    net::{TcpListener, TcpStream},
    Builder, Result,
};

const PORT: u16 = 1738;

fn kind<T>(res: &io::Result<T>) -> Option<io::ErrorKind> {
    res.as_ref().err().map(|e| e.kind())
}

/// Control: the listener is dropped while the SYN is in flight, but the
/// software keeps running. The connect is refused.
#[test]
fn control_listener_dropped_software_keeps_running() -> Result {
    let mut sim = Builder::new()
        .min_message_latency(Duration::from_millis(10))
        .max_message_latency(Duration::from_millis(10))
        .build();

    sim.host("server", || async {
        let listener = TcpListener::bind((IpAddr::from(Ipv4Addr::UNSPECIFIED), PORT)).await?;
        sleep(Duration::from_millis(5)).await;
        drop(listener);
        std::future::pending().await
    });

    sim.client("client", async {
        let res = timeout(Duration::from_secs(5), TcpStream::connect(("server", PORT))).await;
        let res = res.expect("connect hung although the listener was dropped");
        assert_eq!(kind(&res), Some(io::ErrorKind::ConnectionRefused));
        Ok(())
    });

    sim.run()
}

/// The listener is dropped while the SYN is in flight because the software of
/// its host returns.
#[test]
fn listener_dropped_by_returning_software_syn_in_flight() -> Result {
    let mut sim = Builder::new()
        .min_message_latency(Duration::from_millis(10))
        .max_message_latency(Duration::from_millis(10))
        .build();

    // `server` is a client-kind host, like in the project's own tests
    // (client_hangup_on_connect, hold_and_release_once_connected, ...).
    sim.client("server", async {
        let listener = TcpListener::bind((IpAddr::from(Ipv4Addr::UNSPECIFIED), PORT)).await?;
        sleep(Duration::from_millis(5)).await;
        drop(listener);
        Ok(())
    });

    sim.client("client", async {
        // SYN sent at t = 0, due at t = 10 ms; the listener goes at t = 5 ms.
        let res = timeout(Duration::from_secs(5), TcpStream::connect(("server", PORT))).await;
        let res = res.expect("connect hung although the listener was dropped");
        assert_eq!(kind(&res), Some(io::ErrorKind::ConnectionRefused));
        Ok(())
    });

    sim.run()
}

/// Same with a `sim.host` whose software returns Ok.
#[test]
fn listener_dropped_by_returning_host_software_syn_in_flight() -> Result {
    let mut sim = Builder::new()
        .min_message_latency(Duration::from_millis(10))
        .max_message_latency(Duration::from_millis(10))
        .build();

    sim.host("server", || async {
        let listener = TcpListener::bind((IpAddr::from(Ipv4Addr::UNSPECIFIED), PORT)).await?;
        sleep(Duration::from_millis(5)).await;
        drop(listener);
        Ok(())
    });

    sim.client("client", async {
        let res = timeout(Duration::from_secs(5), TcpStream::connect(("server", PORT))).await;
        let res = res.expect("connect hung although the listener was dropped");
        assert_eq!(kind(&res), Some(io::ErrorKind::ConnectionRefused));
        Ok(())
    });

    sim.run()
}

/// A port nobody listens on, on a host whose software has already returned.
#[test]
fn nobody_listens_on_finished_host() -> Result {
    let mut sim = Builder::new().build();

    sim.client("server", async { Ok(()) });

    sim.client("client", async {
        sleep(Duration::from_millis(50)).await;
        let res = timeout(Duration::from_secs(5), TcpStream::connect(("server", PORT))).await;
        let res = res.expect("connect to a port nobody listens on hung");
        assert_eq!(kind(&res), Some(io::ErrorKind::ConnectionRefused));
        Ok(())
    });

    sim.run()
}

/// Related (same root cause, but `crash` is not in the property's own fault
/// model): the listener is dropped by `Sim::crash`; the connect hangs as well.
#[test]
fn related_listener_dropped_by_crash() -> Result {
    let mut sim = Builder::new().build();

    sim.host("server", || async {
        let _listener = TcpListener::bind((IpAddr::from(Ipv4Addr::UNSPECIFIED), PORT)).await?;
        std::future::pending::<()>().await;
        Ok(())
    });

    sim.client("client", async {
        sleep(Duration::from_millis(50)).await;
        let res = timeout(Duration::from_secs(5), TcpStream::connect(("server", PORT))).await;
        let res = res.expect("connect hung although the listener was dropped by the crash");
        assert_eq!(kind(&res), Some(io::ErrorKind::ConnectionRefused));
        Ok(())
    });

    for _ in 0..10 {
        sim.step()?;
    }
    sim.crash("server");
    sim.run()
}
