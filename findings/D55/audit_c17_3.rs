//! C17 audit: IPv6 peers written with a scope id / flow label.
//!
//! A `SocketAddrV6` carries `scope_id` and `flowinfo` next to the address
//! and port. Packets carry only the address and the port, so the demux key
//! must ignore the two extra fields.

use std::net::{Ipv6Addr, SocketAddr, SocketAddrV6};

use tokio::io::{AsyncReadExt, AsyncWriteExt};
use turmoil_net::fixture::ClientServer;
use turmoil_net::shim::tokio::net::{TcpListener, TcpStream, UdpSocket};

const SERVER: Ipv6Addr = Ipv6Addr::new(0xfe80, 0, 0, 0, 0, 0, 0, 1);
const CLIENT: Ipv6Addr = Ipv6Addr::new(0xfe80, 0, 0, 0, 0, 0, 0, 2);

#[test]
fn tcp_connect_to_scoped_v6_peer() {
    ClientServer::new()
        .server(SERVER, async move {
            let l = TcpListener::bind(SocketAddr::from((SERVER, 9000))).await.unwrap();
            loop {
                let (mut s, _) = l.accept().await.unwrap();
                let mut b = [0u8; 2];
                s.read_exact(&mut b).await.unwrap();
                s.write_all(&b).await.unwrap();
            }
        })
        .run(CLIENT, async move {
            // fe80::1%2 -- the only way to name a link-local peer on a real host.
            let peer = SocketAddr::V6(SocketAddrV6::new(SERVER, 9000, 0, 2));
            let mut c = TcpStream::connect(peer)
                .await
                .expect("the SYN-ACK of the peer must reach the connecting socket");
            c.write_all(b"hi").await.unwrap();
            let mut b = [0u8; 2];
            c.read_exact(&mut b).await.unwrap();
            assert_eq!(&b, b"hi");
        });
}

#[test]
fn udp_connected_to_scoped_v6_peer_receives_from_it() {
    ClientServer::new()
        .server(SERVER, async move {
            let s = UdpSocket::bind(SocketAddr::from((SERVER, 9000))).await.unwrap();
            let mut b = [0u8; 8];
            loop {
                let (n, from) = s.recv_from(&mut b).await.unwrap();
                s.send_to(&b[..n], from).await.unwrap();
            }
        })
        .run(CLIENT, async move {
            let c = UdpSocket::bind(SocketAddr::from((CLIENT, 4000))).await.unwrap();
            let peer = SocketAddr::V6(SocketAddrV6::new(SERVER, 9000, 0, 2));
            c.connect(peer).await.unwrap();
            c.send(b"ping").await.unwrap();
            let mut b = [0u8; 8];
            let n = tokio::time::timeout(std::time::Duration::from_secs(1), c.recv(&mut b))
                .await
                .expect("the echo of the connected peer must be delivered")
                .unwrap();
            assert_eq!(&b[..n], b"ping");
        });
}

#[test]
fn tcp_connect_to_v6_peer_with_flow_label() {
    ClientServer::new()
        .server("fd00::1", async move {
            let l = TcpListener::bind("[::]:9000").await.unwrap();
            loop {
                let (_s, _) = l.accept().await.unwrap();
            }
        })
        .run("fd00::2", async move {
            let peer = SocketAddr::V6(SocketAddrV6::new("fd00::1".parse().unwrap(), 9000, 7, 0));
            TcpStream::connect(peer)
                .await
                .expect("flow label is not part of the 4-tuple");
        });
}
