//! Audit C10 / F7: std / tokio shim variant of the (repaired) io_uring
//! "offset + len overflows" defect. A positional write whose end does not fit
//! in u64 panics with "attempt to add with overflow" inside the Fs lock; the
//! mutex is poisoned, every later filesystem call of the host panics, and the
//! panic in File::drop during unwinding aborts the whole test process.
//! A POSIX tree answers EINVAL. (Release builds wrap instead and record a write
//! whose end is 1.)
//!
//! Destination: crates/turmoil/tests/audit_c10_f7.rs
//! Run: CARGO_TARGET_DIR=/tmp/wt6/C10/target cargo test --offline -p turmoil \
//!        --features unstable-fs --test audit_c10_f7 -- --test-threads=1
//! (on the unmodified tree the first test aborts the process: SIGABRT)
#![cfg(feature = "unstable-fs")]
use std::io::{Seek, SeekFrom};
use std::os::unix::fs::FileExt;
use turmoil::fs::shim::std::fs::*;
use turmoil::{Builder, Result};

fn run(f: impl FnOnce() -> std::io::Result<()> + 'static) -> Result {
    let mut sim = Builder::new().build();
    sim.client("t", async move {
        f()?;
        Ok(())
    });
    sim.run()
}

#[test]
fn write_at_whose_end_overflows_is_an_error_not_a_panic() -> Result {
    run(|| {
        let f = OpenOptions::new().read(true).write(true).create(true).open("/f")?;
        f.write_all_at(b"abc", 0)?;
        let r = f.write_at(b"xy", u64::MAX);
        assert!(r.is_err(), "pwrite(.., 2, u64::MAX) returned {r:?}");
        // the tree is untouched and still usable
        assert_eq!(f.metadata()?.len(), 3);
        assert_eq!(read("/f")?, b"abc");
        Ok(())
    })
}

#[test]
fn seek_whose_target_overflows_is_an_error_not_a_panic() -> Result {
    run(|| {
        let mut f = OpenOptions::new().read(true).write(true).create(true).open("/f")?;
        assert_eq!(f.seek(SeekFrom::Start(i64::MAX as u64))?, i64::MAX as u64);
        let r = f.seek(SeekFrom::Current(1));
        assert!(r.is_err(), "lseek past i64::MAX returned {r:?}");
        assert_eq!(f.stream_position()?, i64::MAX as u64);
        Ok(())
    })
}
