//! C07 audit, finding F7: durable directory entries (`synced_entries`) are a
//! bare set of path strings with no link to *what* was made durable, so the
//! durable entry of a directory keeps a never-dir-synced regular file of the
//! same name alive across a crash.
//!
//!   remove_dir(/x) [durable dir] ; create file /x ; write ; sync_all ; CRASH
//!
//! Nothing was dir-synced, so /x must be the (empty) directory again and no
//! regular file /x may exist. Observed: the regular file /x survives with its
//! data (next to the directory; `metadata("/x")` now reports a file).
//!
//! Clause contradicted: "a file is present iff its directory entry was made
//! durable by syncing its parent directory ... every unsynced create ... or
//! remove is rolled back".
#![cfg(feature = "unstable-fs")]

use std::os::unix::fs::FileExt;
use std::sync::{Arc, Mutex};
use std::time::Duration;
use turmoil::fs::shim::std::fs::{
    create_dir, metadata, read, remove_dir, sync_dir, OpenOptions,
};
use turmoil::fs::{enter, EnterCtx, Fs, FsConfig};

fn with_fs<R>(f: impl FnOnce(&Arc<Mutex<Fs>>) -> R) -> R {
    let fs = Arc::new(Mutex::new(Fs::new(FsConfig::default(), 7)));
    let _g = enter(
        &fs,
        EnterCtx {
            now: Duration::from_secs(1),
            on_corruption: None,
        },
    );
    f(&fs)
}

fn s(v: Vec<u8>) -> String {
    String::from_utf8_lossy(&v).into_owned()
}

#[test]
fn file_created_over_removed_dir_survives_without_dir_sync() {
    with_fs(|fs| {
        create_dir("/x").unwrap();
        sync_dir("/").unwrap();

        remove_dir("/x").unwrap();
        let f = OpenOptions::new()
            .write(true)
            .create_new(true)
            .open("/x")
            .unwrap();
        f.write_all_at(b"FILE", 0).unwrap();
        f.sync_all().unwrap();
        drop(f);

        fs.lock().unwrap().crash();

        assert_eq!(
            read("/x").ok().map(s),
            None,
            "regular file /x was never dir-synced, it must not survive the crash"
        );
        assert!(
            metadata("/x").map(|m| m.is_dir()).unwrap_or(false),
            "unsynced remove_dir must be rolled back"
        );
    });
}

