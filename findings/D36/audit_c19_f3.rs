//! Audit C19 / F3: a RuleGuard that outlived its Net uninstalls an unrelated rule of a later Net.
#![allow(unused_imports)]
use std::cell::RefCell;
use std::rc::Rc;
use std::time::Duration;

use turmoil_net::fixture::ClientServer;
use turmoil_net::shim::tokio::net::UdpSocket;
use turmoil_net::{rule, Packet, RuleGuard, Verdict};

/// H3: a guard that outlived its own `Net` must not remove a rule of a later
/// `Net` on the same thread.
#[test]
fn h3_stale_guard_other_net() {
    let stale: RuleGuard = ClientServer::new()
        .server("server", async move {
            std::future::pending::<()>().await;
        })
        .run("client", async move { rule(|_: &Packet| Verdict::Pass) });

    let stale = Rc::new(RefCell::new(Some(stale)));
    let st = stale.clone();
    let got = Rc::new(RefCell::new(Vec::<Vec<u8>>::new()));
    let got2 = got.clone();
    ClientServer::new()
        .server("server", async move {
            let s = UdpSocket::bind("0.0.0.0:9000").await.unwrap();
            let mut buf = [0u8; 16];
            loop {
                let (n, _) = s.recv_from(&mut buf).await.unwrap();
                got2.borrow_mut().push(buf[..n].to_vec());
            }
        })
        .run("client", async move {
            let c = UdpSocket::bind("0.0.0.0:0").await.unwrap();
            let _partition = rule(|_: &Packet| Verdict::Drop);
            // drop the guard of the *previous* simulation
            st.borrow_mut().take();
            c.send_to(b"x", "server:9000").await.unwrap();
            tokio::time::sleep(Duration::from_millis(5)).await;
        });
    assert!(
        got.borrow().is_empty(),
        "partition rule (guard still held) stopped applying: server received {:?}",
        got.borrow()
    );
}

