//! Audit C03 / F2: a connection whose FIN was dropped by an explicit
//! partition leaves a stale entry on the server; when the client's ephemeral
//! port comes around again after the repair, accept() panics.
//!
//! Destination: crates/turmoil/tests/audit_c03_f2.rs
//! Run: cd /tmp/wt3/C03 && CARGO_TARGET_DIR=/tmp/wt3/C03/target cargo test --offline -p turmoil --test audit_c03_f2
use std::net::{IpAddr, Ipv4Addr};
use std::time::Duration;
use tokio::io::{AsyncReadExt, AsyncWriteExt};
use tokio::time::sleep;
use turmoil::net::{TcpListener, TcpStream};
use turmoil::{Builder, Result};

const PORT: u16 = 7000;

fn scenario(mut b: Builder, connections_after_repair: usize) -> Result {
    let mut sim = b
        .min_message_latency(Duration::from_millis(1))
        .max_message_latency(Duration::from_millis(1))
        .simulation_duration(Duration::from_secs(3600))
        .build();

    sim.host("server", || async {
        let listener = TcpListener::bind((IpAddr::V4(Ipv4Addr::UNSPECIFIED), PORT)).await?;
        loop {
            let (mut s, _) = listener.accept().await?;
            tokio::task::spawn_local(async move {
                // echo server: reads until EOF / error, then closes
                let mut buf = [0u8; 1];
                while let Ok(1) = s.read(&mut buf).await {
                    if s.write_all(&buf).await.is_err() {
                        break;
                    }
                }
            });
        }
    });

    sim.client("client", async move {
        // one request/response, then the client closes while partitioned:
        // the FIN is dropped.
        let mut s = TcpStream::connect(("server", PORT)).await?;
        s.write_u8(7).await?;
        assert_eq!(s.read_u8().await?, 7);
        turmoil::partition("client", "server");
        drop(s);
        sleep(Duration::from_millis(10)).await;
        turmoil::repair("client", "server");

        // after the repair every new request must work
        for i in 0..connections_after_repair {
            let mut s = TcpStream::connect(("server", PORT))
                .await
                .unwrap_or_else(|e| panic!("connect #{i} after repair failed: {e}"));
            s.write_u8(i as u8).await?;
            assert_eq!(s.read_u8().await?, i as u8, "echo #{i} after repair");
        }
        Ok(())
    });

    sim.run()
}

#[test]
fn narrow_ephemeral_range() -> Result {
    let mut b = Builder::new();
    b.ephemeral_ports(49152..=49159);
    scenario(b, 20)
}

#[test]
fn default_ephemeral_range() -> Result {
    scenario(Builder::new(), 17000)
}
