//! Audit C03 / F1: an established turmoil::net TCP stream never carries data again
//! after an explicit partition dropped one of its segments and the direction was
//! explicitly repaired.
//!
//! Destination: crates/turmoil/tests/audit_c03_f1.rs
//! Run: cd /tmp/wt3/C03 && CARGO_TARGET_DIR=/tmp/wt3/C03/target cargo test --offline -p turmoil --test audit_c03_f1

use std::net::{IpAddr, Ipv4Addr};
use std::time::Duration;

use tokio::io::{AsyncReadExt, AsyncWriteExt};
use tokio::time::{sleep, timeout};
use turmoil::net::{TcpListener, TcpStream};
use turmoil::{Builder, Result};

const PORT: u16 = 7000;

fn builder() -> Builder {
    let mut b = Builder::new();
    b.min_message_latency(Duration::from_millis(2))
        .max_message_latency(Duration::from_millis(2))
        .fail_rate(0.0);
    b
}

/// F1 (a): bytes written on an established TCP connection *after* the
/// direction has been explicitly repaired must flow again. One segment was
/// written while client->server was partitioned (it is correctly dropped).
#[test]
fn tcp_established_stream_flows_again_after_repair_oneway() -> Result {
    let mut sim = builder().build();

    sim.host("server", || async {
        let listener = TcpListener::bind((IpAddr::V4(Ipv4Addr::UNSPECIFIED), PORT)).await?;
        let (mut s, _) = listener.accept().await?;
        assert_eq!(s.read_u8().await?, 1);
        // The segment written during the partition (2) is lost for good. What
        // was written after the repair has to arrive.
        let next = timeout(Duration::from_secs(5), s.read_u8()).await;
        assert!(
            matches!(next, Ok(Ok(3))),
            "byte written after repair_oneway never arrived: {next:?}"
        );
        Ok(())
    });

    sim.client("client", async {
        let mut s = TcpStream::connect(("server", PORT)).await?;
        s.write_u8(1).await?;
        sleep(Duration::from_millis(10)).await;

        turmoil::partition_oneway("client", "server");
        s.write_u8(2).await?; // dropped
        sleep(Duration::from_millis(10)).await;

        turmoil::repair_oneway("client", "server");
        s.write_u8(3).await?; // must flow
        sleep(Duration::from_secs(6)).await;
        Ok(())
    });

    sim.run()
}

/// F1 (b): nothing is written during the partition at all; one segment is in
/// flight when a two-way partition is imposed from the Sim handle and is
/// (correctly) dropped. After `repair` the stream must carry data again.
#[test]
fn tcp_established_stream_flows_again_after_inflight_drop() -> Result {
    let mut sim = builder().build();
    let got = std::rc::Rc::new(std::cell::RefCell::new(Vec::<u8>::new()));

    let g = got.clone();
    sim.host("server", move || {
        let g = g.clone();
        async move {
            let listener = TcpListener::bind((IpAddr::V4(Ipv4Addr::UNSPECIFIED), PORT)).await?;
            let (mut s, _) = listener.accept().await?;
            loop {
                let b = s.read_u8().await?;
                g.borrow_mut().push(b);
            }
        }
    });

    let phase = std::rc::Rc::new(std::cell::Cell::new(0u32));
    let ph = phase.clone();
    sim.client("client", async move {
        let mut s = TcpStream::connect(("server", PORT)).await?;
        s.write_u8(1).await?;
        sleep(Duration::from_millis(10)).await;
        s.write_u8(2).await?; // in flight when the partition is imposed
        ph.set(1);
        while ph.get() != 2 {
            sleep(Duration::from_millis(1)).await;
        }
        for b in 3..10u8 {
            s.write_u8(b).await?; // all after the repair
            sleep(Duration::from_millis(1)).await;
        }
        sleep(Duration::from_millis(50)).await;
        Ok(())
    });

    loop {
        if phase.get() == 1 {
            sim.partition("client", "server");
            for _ in 0..5 {
                sim.step()?;
            }
            sim.repair("client", "server");
            phase.set(2);
        }
        if sim.step()? {
            break;
        }
    }

    let got = got.borrow();
    assert!(!got.contains(&2), "in-flight segment was delivered: {got:?}");
    assert!(
        got.iter().any(|b| *b >= 3),
        "nothing written after repair() was delivered on the established stream: {got:?}"
    );
    Ok(())
}

