//! audit C02 / F2 - segments for a dropped owned read half are answered with a RST.
use std::cell::Cell;
use std::io;
use std::net::{IpAddr, Ipv4Addr};
use std::rc::Rc;
use std::time::Duration;

use tokio::io::{AsyncReadExt, AsyncWriteExt};
use turmoil::net::{TcpListener, TcpStream};
use turmoil::Builder;

const PORT: u16 = 9000;
type Out = Rc<Cell<Option<Result<Vec<u8>, (Vec<u8>, io::ErrorKind)>>>>;

async fn read_all(s: &mut TcpStream) -> Result<Vec<u8>, (Vec<u8>, io::ErrorKind)> {
    let mut got = vec![];
    let mut buf = [0u8; 16];
    loop {
        match s.read(&mut buf).await {
            Ok(0) => return Ok(got),
            Ok(n) => got.extend_from_slice(&buf[..n]),
            Err(e) => return Err((got, e.kind())),
        }
    }
}

/// The client only sends: it drops the owned read half at once (no inbound data
/// unread) and streams through the write half. The server has nothing to say:
/// it shuts its write side down and reads to EOF.
#[test]
fn dropped_read_half_must_not_reset_on_fin() {
    let mut sim = Builder::new()
        .tick_duration(Duration::from_millis(1))
        .min_message_latency(Duration::from_millis(1))
        .max_message_latency(Duration::from_millis(5))
        .build();

    let result: Out = Rc::new(Cell::new(None));
    let res = result.clone();
    sim.client("server", async move {
        let l = TcpListener::bind((IpAddr::from(Ipv4Addr::UNSPECIFIED), PORT)).await?;
        let (mut s, _) = l.accept().await?;
        s.shutdown().await?;
        let mut got = vec![];
        let mut buf = [0u8; 16];
        let out = loop {
            match s.read(&mut buf).await {
                Ok(0) => break Ok(got),
                Ok(n) => got.extend_from_slice(&buf[..n]),
                Err(e) => break Err((got, e.kind())),
            }
        };
        res.set(Some(out));
        Ok(())
    });
    let wres: Rc<Cell<Option<io::Result<()>>>> = Rc::new(Cell::new(None));
    let wr = wres.clone();
    sim.client("client", async move {
        let s = TcpStream::connect(("server", PORT)).await?;
        let (r, mut w) = s.into_split();
        drop(r);
        let mut out = Ok(());
        for i in 0..20u8 {
            if let Err(e) = w.write_all(&[i; 4]).await {
                out = Err(e);
                break;
            }
            tokio::time::sleep(Duration::from_millis(10)).await;
        }
        if out.is_ok() {
            out = w.shutdown().await;
        }
        wr.set(Some(out));
        tokio::time::sleep(Duration::from_millis(100)).await;
        Ok(())
    });
    sim.run().unwrap();
    let want: Vec<u8> = (0..20u8).flat_map(|i| [i; 4]).collect();
    let w = wres.take().unwrap();
    let out = result.take().unwrap();
    assert!(w.is_ok(), "writer: {w:?}, reader: {out:?}");
    assert_eq!(out, Ok(want));
}

/// Client drops the owned read half and streams; the server sends one data
/// segment (which nobody will read) and reads the client's stream.
#[test]
fn dropped_read_half_then_peer_data() {
    let mut sim = Builder::new()
        .tick_duration(Duration::from_millis(1))
        .min_message_latency(Duration::from_millis(1))
        .max_message_latency(Duration::from_millis(5))
        .build();
    let result: Out = Rc::new(Cell::new(None));
    let res = result.clone();
    sim.client("server", async move {
        let l = TcpListener::bind((IpAddr::from(Ipv4Addr::UNSPECIFIED), PORT)).await?;
        let (mut s, _) = l.accept().await?;
        s.write_all(b"banner").await?;
        res.set(Some(read_all(&mut s).await));
        Ok(())
    });
    sim.client("client", async move {
        let s = TcpStream::connect(("server", PORT)).await?;
        let (r, mut w) = s.into_split();
        drop(r);
        for i in 0..20u8 {
            if w.write_all(&[i; 4]).await.is_err() {
                break;
            }
            tokio::time::sleep(Duration::from_millis(10)).await;
        }
        let _ = w.shutdown().await;
        tokio::time::sleep(Duration::from_millis(100)).await;
        Ok(())
    });
    sim.run().unwrap();
    let want: Vec<u8> = (0..20u8).flat_map(|i| [i; 4]).collect();
    assert_eq!(result.take().unwrap(), Ok(want));
}
