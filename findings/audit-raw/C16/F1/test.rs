//! C16 audit, finding F1: a reordered (stale) ACK overwrites `snd_wnd`,
//! so the sender puts bytes on the wire although the window its peer
//! last advertised is zero.
//!
//! Setup (cross-host, IPv4): MSS = 1000 (mtu 1040), recv_buf_cap =
//! 4000, send_buf_cap = 8000. The server application never reads.
//!
//! 1. The server says one byte first so the client holds the server's
//!    real window (4000) rather than the handshake placeholder.
//! 2. The client queues 8000 bytes. One egress pass emits exactly the
//!    window: four 1000 byte segments.
//! 3. The server acknowledges each of them:
//!      ACK1 ack=+1000 wnd=3000, ACK2 ack=+2000 wnd=2000,
//!      ACK3 ack=+3000 wnd=1000, ACK4 ack=+4000 wnd=0.
//!    Its receive buffer is now full; every later segment of it says
//!    wnd=0.
//! 4. The link reorders the four ACKs (delays 8/6/4/2 ms), so ACK4
//!    reaches the client first, then ACK3, ACK2, ACK1.
//!
//! Promise: "never has more bytes in flight than the window its peer
//! last advertised". After ACK4 the peer's window is 0 and stays 0
//! (nobody reads), so the client must not emit any further payload.

use std::cell::RefCell;
use std::net::{IpAddr, SocketAddr};
use std::rc::Rc;
use std::time::Duration;

use tokio::io::{AsyncReadExt, AsyncWriteExt};
use turmoil_net::fixture::ClientServer;
use turmoil_net::shim::tokio::net::{TcpListener, TcpStream};
use turmoil_net::{netstat, rule, KernelConfig, Packet, Proto, Transport, Verdict};

const MSS: usize = 1000;
const RECV_CAP: usize = 4000;
const SEND_CAP: usize = 8000;

#[derive(Default)]
struct Wire {
    /// Largest `ack + window` the server has put on the wire (non-SYN).
    server_right_edge: Option<u32>,
    /// Payload-bearing client segments that end beyond that edge.
    beyond: Vec<String>,
    /// Every TCP packet, for the failure message.
    log: Vec<String>,
    /// Pure ACKs server -> client seen since the client started writing.
    server_acks: u32,
    armed: bool,
}

#[test]
fn stale_ack_must_not_reopen_a_closed_window() {
    let server_ip: IpAddr = "10.0.0.1".parse().unwrap();
    let client_ip: IpAddr = "10.0.0.2".parse().unwrap();
    let cfg = KernelConfig::default()
        .mtu(MSS as u32 + 40)
        .recv_buf_cap(RECV_CAP)
        .send_buf_cap(SEND_CAP)
        // keep retransmission out of the picture
        .retx_threshold(1000);

    let wire = Rc::new(RefCell::new(Wire::default()));
    let wire_c = wire.clone();

    ClientServer::with_config(cfg)
        .server(server_ip, async move {
            let listener = TcpListener::bind("0.0.0.0:9000").await.unwrap();
            let (mut sock, _) = listener.accept().await.unwrap();
            sock.write_all(b"!").await.unwrap();
            // never read
            std::future::pending::<()>().await;
        })
        .run(client_ip, async move {
            let w = wire_c.clone();
            rule(move |pkt: &Packet| {
                let Transport::Tcp(s) = &pkt.payload else {
                    return Verdict::Pass;
                };
                let mut w = w.borrow_mut();
                let from_server = pkt.src == server_ip;
                let src = SocketAddr::new(pkt.src, s.src_port);
                w.log.push(format!(
                    "{src} seq={} ack={} wnd={} len={}{}",
                    s.seq,
                    s.ack,
                    s.window,
                    s.payload.len(),
                    if s.flags.syn { " SYN" } else { "" }
                ));
                if from_server {
                    if s.flags.ack && !s.flags.syn {
                        let edge = s.ack.wrapping_add(s.window as u32);
                        w.server_right_edge = Some(match w.server_right_edge {
                            Some(old) if (edge.wrapping_sub(old) as i32) < 0 => old,
                            _ => edge,
                        });
                    }
                    // Reorder the four ACKs of the first flight.
                    if w.armed && s.payload.is_empty() && s.flags.ack && !s.flags.syn {
                        w.server_acks += 1;
                        let k = w.server_acks;
                        if k <= 4 {
                            return Verdict::Deliver(Duration::from_millis(10 - 2 * k as u64));
                        }
                    }
                } else if !s.payload.is_empty() {
                    if let Some(edge) = w.server_right_edge {
                        let end = s.seq.wrapping_add(s.payload.len() as u32);
                        let over = end.wrapping_sub(edge) as i32;
                        if over > 0 {
                            w.beyond.push(format!(
                                "client segment seq={} len={} ends {over} bytes beyond the right edge {edge} of the window the server advertised",
                                s.seq,
                                s.payload.len()
                            ));
                        }
                    }
                }
                Verdict::Pass
            })
            .forget();

            let mut c = TcpStream::connect((server_ip, 9000)).await.unwrap();
            let mut b = [0u8; 1];
            c.read_exact(&mut b).await.unwrap();

            wire_c.borrow_mut().armed = true;
            // 8000 bytes fit the send buffer: returns at once.
            c.write_all(&vec![7u8; SEND_CAP]).await.unwrap();

            tokio::time::sleep(Duration::from_millis(40)).await;

            // The receiver really is full and nobody reads: its window is 0.
            let srv = netstat(server_ip);
            let conn = srv
                .entries
                .iter()
                .find(|e| e.proto == Proto::Tcp && e.peer.is_some())
                .expect("server connection");
            assert_eq!(conn.recv_q, RECV_CAP, "server receive queue is full");
            drop(c);
        });

    let w = wire.borrow();
    assert!(
        w.beyond.is_empty(),
        "{} payload segment(s) sent into a closed window:\n  {}\nwire:\n  {}",
        w.beyond.len(),
        w.beyond.join("\n  "),
        w.log.join("\n  ")
    );
}
