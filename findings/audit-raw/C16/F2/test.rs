//! C16 audit, finding F2: SYN and SYN-ACK advertise a hard-coded
//! 65535 byte window regardless of `recv_buf_cap`, so the first flight
//! of a connection is not bounded by anything its peer can hold.
//!
//! Setup (cross-host, IPv4): MSS = 560 (mtu 600), recv_buf_cap = 2000,
//! send_buf_cap = 8000. The client connects and writes 8000 bytes at
//! once; the server application never reads.
//!
//! The only window the client has heard from the server at that point
//! is the SYN-ACK's. A receiver with a 2000 byte receive buffer can
//! never truthfully offer more than 2000 bytes, so
//!   (a) no segment may advertise more than `recv_buf_cap`, and
//!   (b) the client may never have more than 2000 bytes outstanding.

use std::cell::RefCell;
use std::net::IpAddr;
use std::rc::Rc;
use std::time::Duration;

use tokio::io::AsyncWriteExt;
use turmoil_net::fixture::ClientServer;
use turmoil_net::shim::tokio::net::{TcpListener, TcpStream};
use turmoil_net::{netstat, rule, KernelConfig, Packet, Proto, Transport, Verdict};

const RECV_CAP: usize = 2000;
const SEND_CAP: usize = 8000;

#[derive(Default)]
struct Wire {
    over_advertised: Vec<String>,
    /// Highest sequence number (end of payload) the client has sent.
    client_max_end: Option<u32>,
    /// First sequence number of client data (ISN + 1).
    client_first: Option<u32>,
    /// Highest ack the server has emitted.
    server_ack: Option<u32>,
    max_outstanding: u32,
}

#[test]
fn first_flight_is_bounded_by_the_receive_buffer() {
    let server_ip: IpAddr = "10.0.0.1".parse().unwrap();
    let client_ip: IpAddr = "10.0.0.2".parse().unwrap();
    let cfg = KernelConfig::default()
        .mtu(600)
        .recv_buf_cap(RECV_CAP)
        .send_buf_cap(SEND_CAP)
        .retx_threshold(1000);

    let wire = Rc::new(RefCell::new(Wire::default()));
    let wire_c = wire.clone();

    ClientServer::with_config(cfg)
        .server(server_ip, async move {
            let listener = TcpListener::bind("0.0.0.0:9000").await.unwrap();
            let (_sock, _) = listener.accept().await.unwrap();
            std::future::pending::<()>().await;
        })
        .run(client_ip, async move {
            let w = wire_c.clone();
            rule(move |pkt: &Packet| {
                let Transport::Tcp(s) = &pkt.payload else {
                    return Verdict::Pass;
                };
                let mut w = w.borrow_mut();
                if !s.flags.rst && s.window as usize > RECV_CAP {
                    w.over_advertised.push(format!(
                        "{}:{} advertises window {} (syn={} ack={}) with recv_buf_cap {RECV_CAP}",
                        pkt.src, s.src_port, s.window, s.flags.syn, s.flags.ack
                    ));
                }
                if pkt.src == client_ip {
                    if s.flags.syn {
                        w.client_first = Some(s.seq.wrapping_add(1));
                    }
                    if !s.payload.is_empty() {
                        let end = s.seq.wrapping_add(s.payload.len() as u32);
                        w.client_max_end = Some(match w.client_max_end {
                            Some(old) if (end.wrapping_sub(old) as i32) < 0 => old,
                            _ => end,
                        });
                    }
                } else if s.flags.ack {
                    w.server_ack = Some(match w.server_ack {
                        Some(old) if (s.ack.wrapping_sub(old) as i32) < 0 => old,
                        _ => s.ack,
                    });
                }
                if let (Some(end), Some(first)) = (w.client_max_end, w.client_first) {
                    let acked = w.server_ack.unwrap_or(first);
                    let out = end.wrapping_sub(acked);
                    if (out as i32) > 0 {
                        w.max_outstanding = w.max_outstanding.max(out);
                    }
                }
                Verdict::Pass
            })
            .forget();

            let mut c = TcpStream::connect((server_ip, 9000)).await.unwrap();
            c.write_all(&vec![7u8; SEND_CAP]).await.unwrap();
            tokio::time::sleep(Duration::from_millis(20)).await;

            // Sanity: the receive buffer cap itself held (the excess
            // was thrown away by the receiver).
            let srv = netstat(server_ip);
            let conn = srv
                .entries
                .iter()
                .find(|e| e.proto == Proto::Tcp && e.peer.is_some())
                .expect("server connection");
            assert!(conn.recv_q <= RECV_CAP);
            drop(c);
        });

    let w = wire.borrow();
    assert!(
        w.max_outstanding as usize <= RECV_CAP,
        "client had {} bytes in flight towards a peer whose receive buffer (and therefore largest \
         possible window) is {RECV_CAP}; over-sized advertisements seen:\n  {}",
        w.max_outstanding,
        w.over_advertised.join("\n  ")
    );
    assert!(
        w.over_advertised.is_empty(),
        "window advertisements above recv_buf_cap:\n  {}",
        w.over_advertised.join("\n  ")
    );
}
