//! audit C18 / F5: AsyncCancel matches completions that are already posted
//! (the EINVAL of a rejected entry, the result of an earlier cancel) and
//! rewrites their result to -ECANCELED.
#![cfg(feature = "unstable-io_uring")]

use std::collections::BTreeMap;
use std::os::fd::AsRawFd;
use std::time::Duration;
use turmoil::fs::shim::std::fs::{create_dir_all, OpenOptions};
use turmoil::io_uring::{opcode, squeue, types, IoUring};
use turmoil::{Builder, Result};

const ECANCELED: i32 = -125;
const ENOENT: i32 = -2;
const EINVAL: i32 = -22;

fn drain_all(ring: &mut IoUring) -> BTreeMap<u64, i32> {
    let mut cq = ring.completion();
    cq.sync();
    let mut m = BTreeMap::new();
    for c in cq.by_ref() {
        assert!(m.insert(c.user_data(), c.result()).is_none(), "duplicate CQE");
    }
    m
}

#[test]
fn cancel_does_not_rewrite_the_einval_of_a_rejected_entry() -> Result {
    let mut sim = Builder::new().build();
    sim.client("c", async {
        create_dir_all("/d")?;
        let file = OpenOptions::new().read(true).write(true).create(true).open("/d/f")?;
        let mut ring = IoUring::new(4).expect("ring");
        let payload = b"data".to_vec();
        // unsupported flag -> the documentation promises EINVAL for this entry
        let w = opcode::Write::new(types::Fd(file.as_raw_fd()), payload.as_ptr(), 4)
            .build()
            .flags(squeue::Flags::IO_LINK)
            .user_data(1);
        let c = opcode::AsyncCancel::new(1).build().user_data(2);
        unsafe {
            ring.submission().push(&w).unwrap();
            ring.submission().push(&c).unwrap();
        }
        assert_eq!(ring.submit().unwrap(), 2);
        let got = drain_all(&mut ring);
        assert_eq!(
            got,
            BTreeMap::from([(1, EINVAL), (2, ENOENT)]),
            "rejected entry must complete with EINVAL; nothing is in flight for the cancel to find"
        );
        Ok(())
    });
    sim.run()
}

#[test]
fn cancel_does_not_rewrite_the_result_of_an_earlier_cancel() -> Result {
    let mut b = Builder::new();
    b.fs()
        .io_latency()
        .min_latency(Duration::from_millis(5))
        .max_latency(Duration::from_millis(5));
    let mut sim = b.build();
    sim.client("c", async {
        create_dir_all("/d")?;
        let file = OpenOptions::new().read(true).write(true).create(true).open("/d/f")?;
        let mut ring = IoUring::new(4).expect("ring");
        let payload = b"data".to_vec();
        let w = opcode::Write::new(types::Fd(file.as_raw_fd()), payload.as_ptr(), 4)
            .build()
            .user_data(1);
        let c1 = opcode::AsyncCancel::new(1).build().user_data(2);
        let c2 = opcode::AsyncCancel::new(2).build().user_data(3);
        unsafe {
            ring.submission().push(&w).unwrap();
            ring.submission().push(&c1).unwrap();
            ring.submission().push(&c2).unwrap();
        }
        assert_eq!(ring.submit().unwrap(), 3);
        let got = drain_all(&mut ring);
        // write 1 cancelled; cancel 2 succeeded (0); cancel 3 found no in-flight op 2.
        assert_eq!(
            got,
            BTreeMap::from([(1, ECANCELED), (2, 0), (3, ENOENT)]),
        );
        Ok(())
    });
    sim.run()
}
