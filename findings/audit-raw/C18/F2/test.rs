//! audit C18 / F2: a completion becomes visible before its latency elapsed
//! when the entry is submitted in the middle of a simulation step.
#![cfg(feature = "unstable-io_uring")]

use std::os::fd::AsRawFd;
use std::time::Duration;
use turmoil::fs::shim::std::fs::{create_dir_all, OpenOptions};
use turmoil::io_uring::{opcode, types, IoUring};
use turmoil::{Builder, Result};

const LATENCY: Duration = Duration::from_millis(100);

fn sim_with(tick: Duration) -> turmoil::Sim<'static> {
    let mut b = Builder::new();
    b.tick_duration(tick)
        .simulation_duration(Duration::from_secs(60));
    b.fs().io_latency().min_latency(LATENCY).max_latency(LATENCY);
    b.build()
}

/// Sleep `before_submit`, submit one write with a fixed 100ms latency, then
/// poll the completion queue every millisecond. Returns (on the host's own
/// tokio clock and on turmoil::elapsed()) how long after submission the CQE
/// was first visible.
fn observed_latency(tick: Duration, before_submit: Duration) -> (Duration, Duration) {
    let mut sim = sim_with(tick);
    let out = std::sync::Arc::new(std::sync::Mutex::new(None));
    let out2 = out.clone();
    sim.client("c", async move {
        create_dir_all("/d")?;
        let file = OpenOptions::new()
            .read(true)
            .write(true)
            .create(true)
            .open("/d/f")?;
        let mut ring = IoUring::new(1).expect("ring");

        tokio::time::sleep(before_submit).await;

        let payload = b"x".to_vec();
        let w = opcode::Write::new(types::Fd(file.as_raw_fd()), payload.as_ptr(), 1)
            .build()
            .user_data(1);
        unsafe { ring.submission().push(&w).expect("push") };
        let t0 = tokio::time::Instant::now();
        let e0 = turmoil::elapsed();
        ring.submit().expect("submit");

        loop {
            {
                let mut cq = ring.completion();
                cq.sync();
                if let Some(cqe) = cq.next() {
                    assert_eq!(cqe.user_data(), 1);
                    assert_eq!(cqe.result(), 1);
                    break;
                }
            }
            tokio::time::sleep(Duration::from_millis(1)).await;
        }
        *out2.lock().unwrap() = Some((t0.elapsed(), turmoil::elapsed() - e0));
        Ok(())
    });
    sim.run().unwrap();
    let r = out.lock().unwrap().take().unwrap();
    r
}

#[test]
fn completion_not_visible_before_latency_elapsed_mid_step_submit() -> Result {
    // Control: submitted at a step boundary the latency is honoured.
    let (tok, tur) = observed_latency(Duration::from_millis(100), Duration::ZERO);
    assert!(tok >= LATENCY && tur >= LATENCY, "control: {tok:?} / {tur:?}");

    // Submitted 99ms into a 100ms step.
    let (tok, tur) = observed_latency(Duration::from_millis(100), Duration::from_millis(99));
    assert!(
        tok >= LATENCY && tur >= LATENCY,
        "write with a fixed {LATENCY:?} latency was visible {tok:?} (tokio clock) / {tur:?} \
         (turmoil::elapsed) after submit()"
    );
    Ok(())
}
