//! audit C18 / F1: access mode of the submitted fd is ignored by the ring.
#![cfg(feature = "unstable-io_uring")]

use std::os::fd::AsRawFd;
use std::os::unix::fs::FileExt;
use turmoil::fs::shim::std::fs::{create_dir_all, File, OpenOptions};
use turmoil::io_uring::{cqueue, opcode, types, IoUring};
use turmoil::{Builder, Result};

/// Submit one entry and drain its completion (no latency configured, so the
/// CQE is visible on the next sync).
fn run_one(ring: &mut IoUring, e: turmoil::io_uring::squeue::Entry) -> cqueue::Entry {
    unsafe { ring.submission().push(&e).expect("push") };
    assert_eq!(ring.submit().expect("submit"), 1);
    let mut cq = ring.completion();
    cq.sync();
    let cqe = cq.next().expect("one completion");
    assert!(cq.next().is_none(), "exactly one completion");
    cqe
}

#[test]
fn ring_write_through_read_only_handle_equals_sync_api() -> Result {
    let mut sim = Builder::new().build();
    sim.client("c", async {
        create_dir_all("/d")?;
        {
            let f = OpenOptions::new().write(true).create(true).open("/d/f")?;
            f.write_all_at(b"original", 0)?;
            f.sync_all()?;
        }

        // Read-only handle.
        let ro = File::open("/d/f")?;

        // The synchronous API refuses the write and leaves the file alone.
        let sync_res = ro.write_at(b"CLOBBER!", 0);
        assert!(sync_res.is_err(), "sync write_at on O_RDONLY must fail");
        let mut before = [0u8; 8];
        assert_eq!(ro.read_at(&mut before, 0)?, 8);
        assert_eq!(&before, b"original");

        // The same operation through the ring.
        let mut ring = IoUring::new(1).expect("ring");
        let payload = b"CLOBBER!".to_vec();
        let cqe = run_one(
            &mut ring,
            opcode::Write::new(types::Fd(ro.as_raw_fd()), payload.as_ptr(), 8)
                .offset(0)
                .build()
                .user_data(1),
        );
        assert_eq!(cqe.user_data(), 1);

        let mut after = [0u8; 8];
        assert_eq!(ro.read_at(&mut after, 0)?, 8);
        assert!(
            cqe.result() < 0 && &after == b"original",
            "ring write on a read-only fd: result {} (sync API: {:?}), file now {:?}",
            cqe.result(),
            sync_res,
            String::from_utf8_lossy(&after),
        );
        Ok(())
    });
    sim.run()
}

#[test]
fn ring_read_through_write_only_handle_equals_sync_api() -> Result {
    let mut sim = Builder::new().build();
    sim.client("c", async {
        create_dir_all("/d")?;
        let wo = OpenOptions::new().write(true).create(true).open("/d/g")?;
        wo.write_all_at(b"secret!!", 0)?;

        let mut sbuf = [0u8; 8];
        let sync_res = wo.read_at(&mut sbuf, 0);
        assert!(sync_res.is_err(), "sync read_at on O_WRONLY must fail");
        assert_eq!(sbuf, [0u8; 8]);

        let mut ring = IoUring::new(1).expect("ring");
        let mut buf = vec![0u8; 8];
        let cqe = run_one(
            &mut ring,
            opcode::Read::new(types::Fd(wo.as_raw_fd()), buf.as_mut_ptr(), 8)
                .offset(0)
                .build()
                .user_data(2),
        );
        assert_eq!(cqe.user_data(), 2);
        assert!(
            cqe.result() < 0 && buf == vec![0u8; 8],
            "ring read on a write-only fd: result {} (sync API: {:?}), buffer {:?}",
            cqe.result(),
            sync_res,
            String::from_utf8_lossy(&buf),
        );
        Ok(())
    });
    sim.run()
}
