//! audit C18 / F3: page cache configured with max_pages(0) -> submit() never returns.
#![cfg(feature = "unstable-io_uring")]

use std::os::fd::AsRawFd;
use std::sync::mpsc;
use std::time::Duration;
use turmoil::fs::shim::std::fs::{create_dir_all, OpenOptions};
use turmoil::io_uring::{opcode, types, IoUring};
use turmoil::Builder;

fn run(max_pages: usize) -> Result<i32, &'static str> {
    let (tx, rx) = mpsc::channel();
    std::thread::spawn(move || {
        let mut b = Builder::new();
        b.fs()
            .io_latency()
            .min_latency(Duration::from_millis(1))
            .max_latency(Duration::from_millis(1));
        b.fs().page_cache().max_pages(max_pages);
        let mut sim = b.build();
        let tx2 = tx.clone();
        sim.client("c", async move {
            create_dir_all("/d")?;
            let file = OpenOptions::new()
                .read(true)
                .write(true)
                .create(true)
                .open("/d/f")?;
            let mut ring = IoUring::new(1).expect("ring");
            let payload = b"abcd".to_vec();
            let w = opcode::Write::new(types::Fd(file.as_raw_fd()), payload.as_ptr(), 4)
                .build()
                .user_data(1);
            unsafe { ring.submission().push(&w).expect("push") };
            ring.submit().expect("submit");
            loop {
                {
                    let mut cq = ring.completion();
                    cq.sync();
                    if let Some(cqe) = cq.next() {
                        assert_eq!(cqe.user_data(), 1);
                        tx2.send(cqe.result()).unwrap();
                        break;
                    }
                }
                tokio::time::sleep(Duration::from_millis(1)).await;
            }
            Ok(())
        });
        sim.run().unwrap();
    });
    rx.recv_timeout(Duration::from_secs(10))
        .map_err(|_| "no completion within 10s of wall-clock time (submit() hung)")
}

#[test]
fn write_completes_with_one_page_cache() {
    assert_eq!(run(1), Ok(4));
}

#[test]
fn write_completes_with_zero_page_cache() {
    assert_eq!(run(0), Ok(4));
}
