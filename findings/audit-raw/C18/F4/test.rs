//! audit C18 / candidate: ring fsync vs File::sync_all under io_error_probability.
#![cfg(feature = "unstable-io_uring")]

use std::os::fd::AsRawFd;
use std::os::unix::fs::FileExt;
use turmoil::fs::shim::std::fs::{create_dir_all, OpenOptions};
use turmoil::io_uring::{opcode, types, IoUring};
use turmoil::{Builder, Result};

#[test]
fn ring_fsync_equals_sync_all_under_io_errors() -> Result {
    let mut b = Builder::new();
    b.fs().io_error_probability(1.0);
    let mut sim = b.build();
    sim.client("c", async {
        create_dir_all("/d")?;
        let file = OpenOptions::new()
            .read(true)
            .write(true)
            .create(true)
            .open("/d/f")?;
        // FsConfig::io_error_probability: "reads and writes may randomly fail with EIO"
        assert!(file.write_at(b"x", 0).is_err());
        let sync_res = file.sync_all();

        let mut ring = IoUring::new(1).expect("ring");
        let f = opcode::Fsync::new(types::Fd(file.as_raw_fd()))
            .build()
            .user_data(1);
        unsafe { ring.submission().push(&f).expect("push") };
        ring.submit().expect("submit");
        let mut cq = ring.completion();
        cq.sync();
        let cqe = cq.next().expect("cqe");
        assert_eq!(cqe.user_data(), 1);
        assert_eq!(
            cqe.result() == 0,
            sync_res.is_ok(),
            "ring fsync result {} differs from File::sync_all {:?}",
            cqe.result(),
            sync_res
        );
        Ok(())
    });
    sim.run()
}
