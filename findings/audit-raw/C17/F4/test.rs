use std::net::{Ipv6Addr, SocketAddrV6};
use std::time::Duration;
use turmoil_net::fixture::ClientServer;
use turmoil_net::shim::tokio::net::{TcpListener, TcpStream, UdpSocket};

#[test]
fn v6_scope_id_tcp() {
    ClientServer::new()
        .server("fd00::1", async move {
            let l = TcpListener::bind("[::]:80").await.unwrap();
            loop { let _ = l.accept().await; }
        })
        .run("fd00::2", async move {
            let ip: Ipv6Addr = "fd00::1".parse().unwrap();
            let r = tokio::time::timeout(Duration::from_secs(5), TcpStream::connect(SocketAddrV6::new(ip, 80, 0, 7))).await;
            assert!(matches!(r, Ok(Ok(_))), "{r:?}");
        });
}

#[test]
fn v6_scope_id_udp() {
    ClientServer::new()
        .server("fd00::1", async move {
            let s = UdpSocket::bind("[::]:80").await.unwrap();
            let mut b = [0u8; 8];
            loop { let (n, f) = s.recv_from(&mut b).await.unwrap(); s.send_to(&b[..n], f).await.unwrap(); }
        })
        .run("fd00::2", async move {
            let ip: Ipv6Addr = "fd00::1".parse().unwrap();
            let s = UdpSocket::bind("[::]:0").await.unwrap();
            s.connect(SocketAddrV6::new(ip, 80, 0, 7)).await.unwrap();
            s.send(b"x").await.unwrap();
            let mut b = [0u8; 8];
            let r = tokio::time::timeout(Duration::from_secs(1), s.recv(&mut b)).await;
            assert!(matches!(r, Ok(Ok(1))), "{r:?}");
        });
}
