//! Audit C17 / hypothesis 2: closing a wildcard listener of one address
//! family must only release that listener (and its own unaccepted
//! children). An IPv4 connection still handshaking with the IPv4
//! listener on the same port number belongs to another socket and must
//! be left alone.

use std::io::ErrorKind;
use std::time::Duration;

use tokio::io::{AsyncReadExt, AsyncWriteExt};
use turmoil_net::fixture::ClientServer;
use turmoil_net::shim::tokio::net::{TcpListener, TcpStream};
use turmoil_net::{rule, KernelConfig, Latency};

fn scenario(close_v6_listener: bool) {
    // Retransmission is counted in ticks; keep it out of the way of the
    // 10ms link latency.
    ClientServer::with_config(KernelConfig::default().retx_threshold(1000))
        .server(["10.0.0.1", "fd00::1"], async move {
            let v4 = TcpListener::bind("0.0.0.0:9000").await.unwrap();
            let v6 = TcpListener::bind("[::]:9000").await.unwrap();
            // The client's SYN arrives at ~11ms, its final ACK at ~31ms
            // (10ms one-way latency): at 20ms the IPv4 child is in
            // SynReceived.
            tokio::time::sleep(Duration::from_millis(20)).await;
            let _keep;
            if close_v6_listener {
                drop(v6);
            } else {
                _keep = v6;
            }
            let (mut s, _) = tokio::time::timeout(Duration::from_secs(2), v4.accept())
                .await
                .expect("the IPv4 listener is still open: its handshake must complete")
                .unwrap();
            s.write_all(b"ok").await.unwrap();
            std::future::pending::<()>().await;
        })
        .run("10.0.0.2", async move {
            rule(Latency::fixed(Duration::from_millis(10))).forget();
            let mut c = TcpStream::connect("10.0.0.1:9000").await.unwrap();
            let mut buf = [0u8; 2];
            match c.read_exact(&mut buf).await {
                Ok(_) => assert_eq!(&buf, b"ok"),
                Err(e) if e.kind() == ErrorKind::ConnectionReset => panic!(
                    "connection to the open IPv4 listener was reset by closing the IPv6 listener"
                ),
                Err(e) => panic!("unexpected error {e:?}"),
            }
        });
}

#[test]
fn closing_v6_wildcard_listener_spares_v4_handshake() {
    scenario(true);
}

/// Control: same timing, the IPv6 listener stays open.
#[test]
fn control_v6_listener_kept() {
    scenario(false);
}
