//! Audit C17 / hypothesis 3: "closing a socket frees its binding".
//!
//! A host closes every socket it has on port 9000 (the accepted stream,
//! cleanly, and the listener). The peer simply keeps its end open, as an
//! idle client would. The port must become bindable again.

use std::time::Duration;

use turmoil_net::fixture::ClientServer;
use turmoil_net::shim::tokio::net::{TcpListener, TcpStream};

fn scenario(peer_closes_too: bool) {
    ClientServer::new()
        // Fixture "server" role = the passive peer that connects and
        // then idles; the fixture "client" role carries the assertions.
        .server("peer", async move {
            let c = loop {
                match TcpStream::connect("host:9000").await {
                    Ok(c) => break c,
                    Err(_) => tokio::time::sleep(Duration::from_millis(1)).await,
                }
            };
            if peer_closes_too {
                tokio::time::sleep(Duration::from_millis(50)).await;
                drop(c);
            } else {
                let _c = c;
                std::future::pending::<()>().await;
            }
            std::future::pending::<()>().await;
        })
        .run("host", async move {
            let l = TcpListener::bind("0.0.0.0:9000").await.unwrap();
            let (s, _) = l.accept().await.unwrap();
            tokio::time::sleep(Duration::from_millis(10)).await;
            drop(s); // clean close: nothing unread, FIN goes out
            drop(l);
            // Ten simulated seconds = 10_000 fabric ticks.
            tokio::time::sleep(Duration::from_secs(10)).await;
            let again = TcpListener::bind("0.0.0.0:9000").await;
            assert!(
                again.is_ok(),
                "every socket on port 9000 was closed 10s ago, bind says {:?}",
                again.err()
            );
        });
}

#[test]
fn closed_stream_and_listener_free_the_port_while_peer_idles() {
    scenario(false);
}

/// Control: the peer closes as well, the lingering socket is reaped.
#[test]
fn control_peer_closes() {
    scenario(true);
}
