use std::time::Duration;
use tokio::io::{AsyncReadExt, AsyncWriteExt};
use turmoil_net::fixture::ClientServer;
use turmoil_net::shim::tokio::net::{TcpListener, TcpStream};

/// Observation (outside the quantifier): reader drops its stream early
/// (recv_buf empty at that moment); the writer keeps writing.
#[test]
fn writer_after_peer_dropped_stream() {
    let r = ClientServer::new()
        .server("server", async move {
            let l = TcpListener::bind("0.0.0.0:9000").await.unwrap();
            let (mut s, _) = l.accept().await.unwrap();
            let mut b = [0u8; 4];
            s.read_exact(&mut b).await.unwrap();
            drop(s);
            std::future::pending::<()>().await;
        })
        .run("client", async move {
            let mut c = TcpStream::connect("server:9000").await.unwrap();
            c.write_all(b"head").await.unwrap();
            tokio::time::sleep(Duration::from_millis(10)).await;
            let big = vec![7u8; 512 * 1024];
            match tokio::time::timeout(Duration::from_secs(5), c.write_all(&big)).await {
                Ok(r) => format!("{:?}", r.map_err(|e| e.kind())),
                Err(_) => "HUNG".to_string(),
            }
        });
    println!("writer result: {r}");
    assert_ne!(r, "HUNG");
}
