//! Audit C06 / F2: a segment overtaken by its successor is thrown away
//! (the receiver has no out-of-order queue), which silently consumes one
//! transmission of that segment's retransmit budget. retx_max (= 5) drops
//! plus a single one-round reordering therefore abort the connection,
//! although the statement allows any D <= retx_max drops with bounded
//! delay. When the aborting side has already closed its handle the abort
//! is silent and the peer waits for EOF forever.

use std::time::Duration;

use tokio::io::{AsyncReadExt, AsyncWriteExt};
use turmoil_net::fixture::ClientServer;
use turmoil_net::shim::tokio::net::{TcpListener, TcpStream};
use turmoil_net::{rule, Packet, Transport, Verdict};

/// Server answers with 6 bytes and closes. The data segment is delayed by
/// one tick so the FIN overtakes it; afterwards the FIN is dropped
/// `fin_drops` times.
fn run(fin_drops: usize) -> Result<Vec<u8>, String> {
    ClientServer::new()
        .server("server", async move {
            let listener = TcpListener::bind("0.0.0.0:9000").await.unwrap();
            let (mut sock, _) = listener.accept().await.unwrap();
            sock.write_all(b"answer").await.unwrap();
            sock.shutdown().await.unwrap();
            // keep the handle so an abort would at least be observable here
            let mut sink = Vec::new();
            let _ = sock.read_to_end(&mut sink).await;
            std::future::pending::<()>().await;
        })
        .run("client", async move {
            let mut held_data = false;
            let mut fins_seen = 0usize;
            let mut dropped = 0usize;
            rule(move |pkt: &Packet| {
                let Transport::Tcp(s) = &pkt.payload else {
                    return Verdict::Pass;
                };
                if s.src_port != 9000 {
                    return Verdict::Pass;
                }
                if !s.payload.is_empty() && !held_data {
                    held_data = true;
                    // one egress round late: the FIN emitted right behind it
                    // arrives first
                    return Verdict::Deliver(Duration::from_millis(1));
                }
                if s.flags.fin {
                    fins_seen += 1;
                    // the first FIN is delivered (out of order, discarded by
                    // the receiver); the following ones are dropped
                    if fins_seen > 1 && dropped < fin_drops {
                        dropped += 1;
                        return Verdict::Drop;
                    }
                }
                Verdict::Pass
            })
            .forget();

            let mut c = TcpStream::connect("server:9000").await.unwrap();
            let mut got = Vec::new();
            match tokio::time::timeout(Duration::from_millis(500), c.read_to_end(&mut got)).await {
                Ok(Ok(_)) => Ok(got),
                Ok(Err(e)) => Err(format!("read error {:?} after {} bytes", e.kind(), got.len())),
                Err(_) => Err(format!(
                    "no EOF after 500 ticks ({} of 6 bytes read): reader left waiting forever",
                    got.len()
                )),
            }
        })
}

/// Control: reordering plus retx_max - 1 drops is survived.
#[test]
fn reorder_plus_four_drops_survives() {
    assert_eq!(run(4).unwrap(), b"answer");
}

/// retx_max drops (the documented budget) plus one reordering: the
/// server's connection is aborted, the client never sees EOF.
#[test]
fn reorder_plus_retx_max_drops_must_survive() {
    assert_eq!(run(5).unwrap(), b"answer");
}

/// Reference: retx_max drops without the reordering are survived, so the
/// reordering is what pushes the sender over its budget.
#[test]
fn retx_max_drops_without_reorder_survive() {
    let got = ClientServer::new()
        .server("server", async move {
            let listener = TcpListener::bind("0.0.0.0:9000").await.unwrap();
            let (mut sock, _) = listener.accept().await.unwrap();
            sock.write_all(b"answer").await.unwrap();
            sock.shutdown().await.unwrap();
            std::future::pending::<()>().await;
        })
        .run("client", async move {
            let mut dropped = 0usize;
            rule(move |pkt: &Packet| match &pkt.payload {
                Transport::Tcp(s) if s.src_port == 9000 && s.flags.fin && dropped < 5 => {
                    dropped += 1;
                    Verdict::Drop
                }
                _ => Verdict::Pass,
            })
            .forget();
            let mut c = TcpStream::connect("server:9000").await.unwrap();
            let mut got = Vec::new();
            tokio::time::timeout(Duration::from_millis(500), c.read_to_end(&mut got))
                .await
                .expect("EOF")
                .unwrap();
            got
        });
    assert_eq!(got, b"answer");
}

// ---------------------------------------------------------------------
// Same class at the handshake: the client's handshake ACK is delivered one
// tick late, so the first data segment overtakes it. The SynReceived child
// uses that segment as the ACK and discards its payload; retx_max further
// drops of the data then exhaust the client's budget (read -> TimedOut).

fn run_hs(drops: usize) -> Result<Vec<u8>, String> {
    ClientServer::new()
        .server("server", async move {
            let l = TcpListener::bind("0.0.0.0:9000").await.unwrap();
            let (mut s, _) = l.accept().await.unwrap();
            let mut got = Vec::new();
            let _ = s.read_to_end(&mut got).await;
            let _ = s.write_all(&got).await;
            let _ = s.shutdown().await;
            std::future::pending::<()>().await;
        })
        .run("client", async move {
            let mut held = false;
            let mut data_seen = 0usize;
            let mut dropped = 0usize;
            rule(move |pkt: &Packet| {
                let Transport::Tcp(s) = &pkt.payload else { return Verdict::Pass };
                if s.dst_port != 9000 { return Verdict::Pass; }
                // the handshake ACK: first pure ACK from the client
                if !held && s.flags.ack && !s.flags.syn && !s.flags.fin && s.payload.is_empty() {
                    held = true;
                    return Verdict::Deliver(Duration::from_millis(1));
                }
                if !s.payload.is_empty() {
                    data_seen += 1;
                    if data_seen > 1 && dropped < drops {
                        dropped += 1;
                        return Verdict::Drop;
                    }
                }
                Verdict::Pass
            }).forget();
            let mut c = TcpStream::connect("server:9000").await.unwrap();
            if let Err(e) = c.write_all(b"hello").await { return Err(format!("write {:?}", e.kind())); }
            if let Err(e) = c.shutdown().await { return Err(format!("shutdown {:?}", e.kind())); }
            let mut got = Vec::new();
            match tokio::time::timeout(Duration::from_millis(500), c.read_to_end(&mut got)).await {
                Ok(Ok(_)) => Ok(got),
                Ok(Err(e)) => Err(format!("read {:?}", e.kind())),
                Err(_) => Err("hang".into()),
            }
        })
}

#[test]
fn hs_ack_overtaken_4_drops() { assert_eq!(run_hs(4).unwrap(), b"hello"); }
#[test]
fn hs_ack_overtaken_5_drops() { assert_eq!(run_hs(5).unwrap(), b"hello"); }
