use std::time::Duration;
use tokio::io::{AsyncReadExt, AsyncWriteExt};
use turmoil_net::fixture::ClientServer;
use turmoil_net::shim::tokio::net::{TcpListener, TcpStream};

/// A server that hands each accepted connection to a spawned task (the
/// usual tokio server shape) and echoes several messages.
#[test]
fn spawned_connection_task_echo() {
    ClientServer::new()
        .server("server", async move {
            let l = TcpListener::bind("0.0.0.0:9000").await.unwrap();
            loop {
                let (mut s, _) = l.accept().await.unwrap();
                tokio::task::spawn_local(async move {
                    let mut buf = [0u8; 16];
                    loop {
                        match s.read(&mut buf).await {
                            Ok(0) => return,
                            Ok(n) => s.write_all(&buf[..n]).await.unwrap(),
                            Err(e) => panic!("server read: {e:?}"),
                        }
                    }
                });
            }
        })
        .run("client", async move {
            let mut c = TcpStream::connect("server:9000").await.unwrap();
            for i in 0..5u8 {
                let msg = [i; 4];
                c.write_all(&msg).await.unwrap();
                let mut buf = [0u8; 4];
                tokio::time::timeout(Duration::from_millis(200), c.read_exact(&mut buf))
                    .await
                    .unwrap_or_else(|_| panic!("echo {i} never arrived"))
                    .unwrap();
                assert_eq!(buf, msg);
                tokio::time::sleep(Duration::from_millis(3)).await;
            }
        });
}

/// Two connections, each echoed by its own spawned server task. Fd numbers
/// are per host, so a server task polled while the client is `current`
/// operates on the *client's* socket with the same fd number.
#[test]
fn spawned_tasks_two_connections_keep_streams_apart() {
    ClientServer::new()
        .server("server", async move {
            let l = TcpListener::bind("0.0.0.0:9000").await.unwrap();
            loop {
                let (mut s, _) = l.accept().await.unwrap();
                tokio::task::spawn_local(async move {
                    let mut buf = [0u8; 64];
                    loop {
                        match s.read(&mut buf).await {
                            Ok(0) | Err(_) => return,
                            Ok(n) => {
                                if s.write_all(&buf[..n]).await.is_err() {
                                    return;
                                }
                            }
                        }
                    }
                });
            }
        })
        .run("client", async move {
            let mut c1 = TcpStream::connect("server:9000").await.unwrap();
            let mut c2 = TcpStream::connect("server:9000").await.unwrap();
            let mut got1 = Vec::new();
            let mut got2 = Vec::new();
            let mut sent1 = Vec::new();
            let mut sent2 = Vec::new();
            for i in 0..6u8 {
                let m1 = [b'a' + i; 3];
                let m2 = [b'A' + i; 3];
                c1.write_all(&m1).await.unwrap();
                c2.write_all(&m2).await.unwrap();
                sent1.extend_from_slice(&m1);
                sent2.extend_from_slice(&m2);
                tokio::time::sleep(Duration::from_millis(4)).await;
                let mut buf = [0u8; 64];
                if let Ok(n) = c1.try_read(&mut buf) {
                    got1.extend_from_slice(&buf[..n]);
                }
                if let Ok(n) = c2.try_read(&mut buf) {
                    got2.extend_from_slice(&buf[..n]);
                }
            }
            tokio::time::sleep(Duration::from_millis(50)).await;
            let mut buf = [0u8; 64];
            while let Ok(n) = c1.try_read(&mut buf) {
                if n == 0 { break; }
                got1.extend_from_slice(&buf[..n]);
            }
            while let Ok(n) = c2.try_read(&mut buf) {
                if n == 0 { break; }
                got2.extend_from_slice(&buf[..n]);
            }
            assert_eq!(
                (String::from_utf8_lossy(&got1).into_owned(), String::from_utf8_lossy(&got2).into_owned()),
                (String::from_utf8_lossy(&sent1).into_owned(), String::from_utf8_lossy(&sent2).into_owned()),
                "echo on each stream must equal what was written on it"
            );
        });
}
