//! Audit C13 / F5: a wildcard listener charges half-open children
//! against its backlog per destination IP, so a multi-homed host
//! admits more connections than the backlog allows.

use std::time::Duration;

use tokio::time::{sleep, timeout};
use turmoil_net::fixture::ClientServer;
use turmoil_net::shim::tokio::net::{TcpListener, TcpStream};
use turmoil_net::{netstat, KernelConfig, Latency, NetstatState};

async fn ticks(n: u32) {
    for _ in 0..n {
        sleep(Duration::from_millis(1)).await;
    }
}

/// backlog = 1, the server never accepts. Two connects are started in
/// the same tick, one per server address. The backlog has room for
/// one; the other must not complete.
#[test]
fn wildcard_listener_backlog_is_shared_across_local_addresses() {
    let cfg = KernelConfig::default().default_backlog(1);
    ClientServer::with_config(cfg)
        .server(["10.0.0.1", "10.0.0.9"], async move {
            let _l = TcpListener::bind("0.0.0.0:9000").await.unwrap();
            std::future::pending::<()>().await;
        })
        .run("client", async move {
            turmoil_net::rule(Latency::fixed(Duration::from_millis(2))).forget();
            let t = Duration::from_millis(15); // < one SYN retransmit budget
            let (a, b) = tokio::join!(
                timeout(t, TcpStream::connect("10.0.0.1:9000")),
                timeout(t, TcpStream::connect("10.0.0.9:9000")),
            );
            let ok = [a.is_ok_and(|r| r.is_ok()), b.is_ok_and(|r| r.is_ok())];
            ticks(5).await;
            let sv = netstat("10.0.0.1");
            let listen = sv
                .entries
                .iter()
                .find(|e| e.state == Some(NetstatState::Listen))
                .unwrap();
            assert!(
                listen.recv_q <= listen.send_q,
                "accept queue {} exceeds backlog {}; connects succeeded: {ok:?}\n{sv}",
                listen.recv_q,
                listen.send_q
            );
            assert_eq!(
                ok.iter().filter(|x| **x).count(),
                1,
                "backlog 1, nothing accepted: exactly one connect may succeed, got {ok:?}"
            );
        });
}

/// Control: same thing against a single address behaves.
#[test]
fn control_single_address() {
    let cfg = KernelConfig::default().default_backlog(1);
    ClientServer::with_config(cfg)
        .server(["10.0.0.1", "10.0.0.9"], async move {
            let _l = TcpListener::bind("0.0.0.0:9000").await.unwrap();
            std::future::pending::<()>().await;
        })
        .run("client", async move {
            turmoil_net::rule(Latency::fixed(Duration::from_millis(2))).forget();
            let t = Duration::from_millis(15);
            let (a, b) = tokio::join!(
                timeout(t, TcpStream::connect("10.0.0.1:9000")),
                timeout(t, TcpStream::connect("10.0.0.1:9000")),
            );
            let ok = [a.is_ok_and(|r| r.is_ok()), b.is_ok_and(|r| r.is_ok())];
            assert_eq!(ok.iter().filter(|x| **x).count(), 1, "{ok:?}");
        });
}
