//! Audit C13 / F1: a connection both sides have dropped is never
//! reclaimed when the side that dropped first keeps buffering data
//! nobody will ever read.

use std::time::Duration;

use tokio::io::AsyncWriteExt;
use tokio::time::sleep;
use turmoil_net::fixture::ClientServer;
use turmoil_net::shim::tokio::net::{TcpListener, TcpStream};
use turmoil_net::{netstat, KernelConfig, NetstatState};

async fn ticks(n: u32) {
    for _ in 0..n {
        sleep(Duration::from_millis(1)).await;
    }
}

fn non_listen(host: &str) -> Vec<turmoil_net::NetstatEntry> {
    netstat(host)
        .entries
        .into_iter()
        .filter(|e| e.state != Some(NetstatState::Listen))
        .collect()
}

/// Health-check probe (connect, then drop) against a server that
/// greets every connection with one send-buffer's worth of bytes and
/// then drops it. Default configuration, no faults.
#[test]
fn probe_against_greeting_server_is_reclaimed_default_config() {
    ClientServer::new()
        .server("server", async move {
            let l = TcpListener::bind("0.0.0.0:9000").await.unwrap();
            loop {
                let (mut s, _) = l.accept().await.unwrap();
                // Fits the 64 KiB send buffer in one go, so the write
                // completes and the stream is dropped cleanly (nothing
                // unread on this side).
                let _ = s.write_all(&vec![7u8; 64 * 1024]).await;
                drop(s);
            }
        })
        .run("client", async move {
            let c = TcpStream::connect("server:9000").await.unwrap();
            drop(c); // clean drop: nothing unread

            // (retx_max + 1) * retx_threshold = 18 ticks is the longest
            // any retransmit-driven teardown takes; give it 50x that.
            ticks(1000).await;

            let client = non_listen("client");
            let server = non_listen("server");
            assert!(
                client.is_empty() && server.is_empty(),
                "both ends dropped the connection 1000 ticks ago, yet:\nclient:\n{}\nserver:\n{}",
                netstat("client"),
                netstat("server"),
            );
        });
}

/// Same with small buffers, and observing the consequence the
/// property names: the leaked server-side child keeps the listener's
/// port bound, so the server cannot re-bind it after dropping the
/// listener.
#[test]
fn leaked_child_blocks_rebind_of_listener_port() {
    let cfg = KernelConfig::default().recv_buf_cap(4096);
    ClientServer::with_config(cfg)
        .server("server", async move {
            let l = TcpListener::bind("0.0.0.0:9000").await.unwrap();
            let (mut s, _) = l.accept().await.unwrap();
            s.write_all(&vec![7u8; 16 * 1024]).await.unwrap();
            drop(s);
            drop(l);
            ticks(500).await;
            // Every connection of the old listener was dropped by both
            // ends 500 ticks ago; the port must be free again.
            let l2 = TcpListener::bind("0.0.0.0:9000").await;
            assert!(l2.is_ok(), "re-bind failed: {:?}", l2.err());
            let l2 = l2.unwrap();
            loop {
                let _ = l2.accept().await;
            }
        })
        .run("client", async move {
            let c = TcpStream::connect("server:9000").await.unwrap();
            drop(c);
            ticks(600).await;
            let server = netstat("server");
            assert!(
                non_listen("server").is_empty() && non_listen("client").is_empty(),
                "server:\n{server}\nclient:\n{}",
                netstat("client")
            );
            // and the rebound listener is there
            assert!(server
                .entries
                .iter()
                .any(|e| e.state == Some(NetstatState::Listen)));
        });
}
