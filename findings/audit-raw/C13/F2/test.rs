//! Audit C13 / F2: dropping one listener resets handshakes that
//! belong to a *different* listener on the same port number (other
//! address family).

use std::time::Duration;

use tokio::io::{AsyncReadExt, AsyncWriteExt};
use tokio::time::sleep;
use turmoil_net::fixture::ClientServer;
use turmoil_net::shim::tokio::net::{TcpListener, TcpStream};
use turmoil_net::{Latency, Net};

async fn ticks(n: u32) {
    for _ in 0..n {
        sleep(Duration::from_millis(1)).await;
    }
}

/// Dual-stack server: one listener on 0.0.0.0:9000, one on [::]:9000.
/// The IPv4 listener is dropped `drop_at` ticks in; the IPv6 listener
/// stays up for the whole run and has plenty of backlog room, so an
/// IPv6 connect must succeed and the connection must work.
fn run(drop_at: u32) -> Result<(), String> {
    let _ = Net::new; // (type used only for docs)
    ClientServer::new()
        .server(["10.0.0.1", "fd00::1"], async move {
            let l4 = TcpListener::bind("0.0.0.0:9000").await.unwrap();
            let l6 = TcpListener::bind("[::]:9000").await.unwrap();
            let dropper = async move {
                ticks(drop_at).await;
                drop(l4);
                std::future::pending::<()>().await;
            };
            let acceptor = async move {
                loop {
                    let (mut s, _) = l6.accept().await.unwrap();
                    let mut b = [0u8; 1];
                    if s.read_exact(&mut b).await.is_ok() {
                        let _ = s.write_all(&b).await;
                    }
                }
            };
            tokio::join!(dropper, acceptor);
        })
        .run(["10.0.0.2", "fd00::2"], async move {
            turmoil_net::rule(Latency::fixed(Duration::from_millis(3))).forget();
            let mut c = TcpStream::connect("[fd00::1]:9000")
                .await
                .map_err(|e| format!("drop_at={drop_at}: connect: {e}"))?;
            c.write_all(b"x")
                .await
                .map_err(|e| format!("drop_at={drop_at}: write: {e}"))?;
            let mut b = [0u8; 1];
            c.read_exact(&mut b)
                .await
                .map_err(|e| format!("drop_at={drop_at}: read: {e}"))?;
            Ok(())
        })
}

#[test]
fn dropping_v4_listener_leaves_v6_handshakes_alone() {
    let failures: Vec<String> = (0..20).filter_map(|d| run(d).err()).collect();
    assert!(
        failures.is_empty(),
        "IPv6 listener was up with backlog room the whole time, yet:\n{}",
        failures.join("\n")
    );
}
