//! Audit C13 / F3: one lost RST strands an orphaned FIN_WAIT2 socket
//! (entry, port binding, 4-tuple) for the rest of the simulation.

use std::time::Duration;

use tokio::io::AsyncWriteExt;
use tokio::time::sleep;
use turmoil_net::fixture::ClientServer;
use turmoil_net::shim::tokio::net::{TcpListener, TcpStream};
use turmoil_net::{netstat, rule, Packet, Transport, Verdict};

async fn ticks(n: u32) {
    for _ in 0..n {
        sleep(Duration::from_millis(1)).await;
    }
}

/// Drops the first RST segment on the wire, passes everything else.
fn drop_first_rst() -> impl FnMut(&Packet) -> Verdict {
    let mut dropped = false;
    move |p: &Packet| match &p.payload {
        Transport::Tcp(t) if t.flags.rst && !dropped => {
            dropped = true;
            Verdict::Drop
        }
        _ => Verdict::Pass,
    }
}

/// Client sends a request and drops the stream; the server drops the
/// accepted stream without reading it (close by reset). The single RST
/// is lost.
#[test]
fn lost_rst_after_both_sides_dropped() {
    ClientServer::new()
        .server("server", async move {
            let l = TcpListener::bind("0.0.0.0:9000").await.unwrap();
            loop {
                let (s, _) = l.accept().await.unwrap();
                ticks(3).await; // request arrives, stays unread
                drop(s); // unread bytes -> RST
            }
        })
        .run("client", async move {
            rule(drop_first_rst()).forget();
            let mut c = TcpStream::connect("server:9000").await.unwrap();
            let port = c.local_addr().unwrap().port();
            c.write_all(b"0123456789").await.unwrap();
            drop(c);

            // Longest retransmit-driven teardown is 18 ticks.
            ticks(1000).await;

            let tab = netstat("client");
            assert!(
                tab.entries.is_empty(),
                "both ends dropped the connection 1000 ticks ago:\n{tab}"
            );
            TcpListener::bind(("0.0.0.0", port))
                .await
                .expect("old ephemeral port is free again");
        });
}

/// Same through a listener drop: the client connects and drops, the
/// server never accepts and drops the listener; the RST for the
/// unaccepted child is lost.
#[test]
fn lost_rst_from_listener_drop() {
    ClientServer::new()
        .server("server", async move {
            let l = TcpListener::bind("0.0.0.0:9000").await.unwrap();
            ticks(6).await;
            drop(l);
            std::future::pending::<()>().await;
        })
        .run("client", async move {
            rule(drop_first_rst()).forget();
            let c = TcpStream::connect("server:9000").await.unwrap();
            drop(c);
            ticks(1000).await;
            let tab = netstat("client");
            assert!(
                tab.entries.is_empty(),
                "client dropped, listener dropped, 1000 ticks ago:\n{tab}"
            );
        });
}
