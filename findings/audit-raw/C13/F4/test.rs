//! Audit C13 / F4: a connect whose future is polled only after the
//! peer has already closed reports ConnectionRefused, although the
//! listener was there, had room, and accept() handed the connection
//! out.

use std::future::{poll_fn, Future};
use std::pin::Pin;
use std::task::Poll;
use std::time::Duration;

use tokio::io::{AsyncReadExt, AsyncWriteExt};
use tokio::time::sleep;
use turmoil_net::fixture::ClientServer;
use turmoil_net::shim::tokio::net::{TcpListener, TcpStream};

async fn ticks(n: u32) {
    for _ in 0..n {
        sleep(Duration::from_millis(1)).await;
    }
}

/// The server accepts, optionally greets, and closes at once. The
/// client starts the connect, is busy with something else for a few
/// ticks (the pinned connect future is simply not polled meanwhile,
/// as in a `select!` loop whose other arm awaits), then completes it.
fn run(greeting: &'static [u8]) -> Result<(), String> {
    ClientServer::new()
        .server("server", async move {
            let l = TcpListener::bind("0.0.0.0:9000").await.unwrap();
            loop {
                let (mut s, _) = l.accept().await.unwrap();
                let _ = s.write_all(greeting).await;
                drop(s);
            }
        })
        .run("client", async move {
            let mut fut: Pin<Box<dyn Future<Output = std::io::Result<TcpStream>>>> =
                Box::pin(TcpStream::connect("server:9000"));
            // first poll: SYN goes out
            poll_fn(|cx| {
                assert!(fut.as_mut().poll(cx).is_pending());
                Poll::Ready(())
            })
            .await;
            // busy elsewhere
            ticks(10).await;
            let mut c = fut
                .await
                .map_err(|e| format!("greeting={greeting:?}: connect: {e}"))?;
            let mut got = Vec::new();
            c.read_to_end(&mut got)
                .await
                .map_err(|e| format!("greeting={greeting:?}: read: {e}"))?;
            if got != greeting {
                return Err(format!("greeting={greeting:?}: read {got:?}"));
            }
            Ok(())
        })
}

#[test]
fn connect_completed_after_peer_closed_still_succeeds() {
    let failures: Vec<String> = [&b""[..], &b"hello"[..]]
        .into_iter()
        .filter_map(|g| run(g).err())
        .collect();
    assert!(
        failures.is_empty(),
        "listener was up with backlog room and accepted the connection, yet:\n{}",
        failures.join("\n")
    );
}
