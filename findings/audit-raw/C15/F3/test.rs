//! audit C15 / H2: a port that became available again because its socket was
//! dropped must be usable: reconnecting from it to the same server works.
use std::{net::Ipv4Addr, time::Duration};

use tokio::io::{AsyncReadExt, AsyncWriteExt};
use turmoil::{
    net::{TcpListener, TcpStream},
    Builder, Result,
};

const PORT: u16 = 1738;

fn seed() -> u64 {
    std::env::var("AUDIT_SEED")
        .ok()
        .and_then(|s| s.parse().ok())
        .unwrap_or(1)
}

/// server closes each connection as soon as it is accepted; the client closes
/// and reconnects. Three ephemeral ports.
#[test]
fn reconnect_from_released_port_server_closes_first() -> Result {
    let mut sim = Builder::new()
        .rng_seed(seed())
        .simulation_duration(Duration::from_secs(60))
        .ephemeral_ports(49152..=49154)
        .build();

    sim.host("server", || async {
        let listener = TcpListener::bind((Ipv4Addr::UNSPECIFIED, PORT)).await?;
        loop {
            let (stream, _) = listener.accept().await?;
            drop(stream);
        }
    });

    sim.client("client", async {
        for _ in 0..20 {
            let mut s = TcpStream::connect(("server", PORT)).await?;
            // wait for the server's FIN, then close our side
            let mut b = [0u8; 1];
            assert_eq!(s.read(&mut b).await?, 0);
            drop(s);
        }
        Ok(())
    });

    sim.run()
}

/// the server keeps serving each connection until it sees EOF; the client
/// closes and reconnects. Two ephemeral ports.
#[test]
fn reconnect_from_released_port_client_closes_first() -> Result {
    let mut sim = Builder::new()
        .rng_seed(seed())
        .simulation_duration(Duration::from_secs(60))
        .ephemeral_ports(49152..=49153)
        .build();

    sim.host("server", || async {
        let listener = TcpListener::bind((Ipv4Addr::UNSPECIFIED, PORT)).await?;
        loop {
            let (mut stream, _) = listener.accept().await?;
            tokio::spawn(async move {
                let mut b = [0u8; 1];
                while let Ok(1) = stream.read(&mut b).await {
                    if stream.write_all(&b).await.is_err() {
                        break;
                    }
                }
            });
        }
    });

    sim.client("client", async {
        for i in 0..20u8 {
            let mut s = TcpStream::connect(("server", PORT)).await?;
            s.write_all(&[i]).await?;
            assert_eq!(s.read_u8().await?, i);
            drop(s);
        }
        Ok(())
    });

    sim.run()
}

/// a host that used its whole (two port) ephemeral range is bounced; the new
/// incarnation connects again right away. The server serves every connection
/// until EOF.
#[test]
fn reconnect_after_bounce() -> Result {
    let mut sim = Builder::new()
        .rng_seed(seed())
        .simulation_duration(Duration::from_secs(60))
        .ephemeral_ports(49152..=49153)
        .build();

    sim.host("server", || async {
        let listener = TcpListener::bind((Ipv4Addr::UNSPECIFIED, PORT)).await?;
        loop {
            let (mut stream, _) = listener.accept().await?;
            tokio::spawn(async move {
                let mut b = [0u8; 1];
                while let Ok(1) = stream.read(&mut b).await {
                    if stream.write_all(&b).await.is_err() {
                        break;
                    }
                }
            });
        }
    });

    sim.host("app", || async {
        let mut a = TcpStream::connect(("server", PORT)).await?;
        let mut b = TcpStream::connect(("server", PORT)).await?;
        a.write_all(&[1]).await?;
        b.write_all(&[2]).await?;
        assert_eq!(a.read_u8().await?, 1);
        assert_eq!(b.read_u8().await?, 2);
        std::future::pending::<()>().await;
        Ok(())
    });

    sim.client("driver", async {
        tokio::time::sleep(Duration::from_secs(30)).await;
        Ok(())
    });

    for _ in 0..1000 {
        sim.step()?;
    }
    sim.bounce("app");
    sim.run()
}
