//! audit C01 - `tokio::select!` branch choice inside a turmoil Sim is pinned
//! by `Builder::rng_seed` (holds when built with `--cfg tokio_unstable`, which
//! the workspace's .cargo/config.toml sets).
use std::sync::{Arc, Mutex};
use std::time::Duration;

use turmoil::Builder;

fn run(seed: u64, bounce: bool) -> Vec<u8> {
    let out = Arc::new(Mutex::new(Vec::new()));
    let o = out.clone();
    let mut sim = Builder::new().rng_seed(seed).build();
    sim.host("h", move || {
        let o = o.clone();
        async move {
            for _ in 0..40 {
                let a = std::future::ready(0u8);
                let b = std::future::ready(1u8);
                let c = tokio::time::sleep(Duration::ZERO);
                let v = tokio::select! { v = a => v, v = b => v, _ = c => 2 };
                o.lock().unwrap().push(v);
                tokio::time::sleep(Duration::from_millis(1)).await;
            }
            Ok(())
        }
    });
    sim.client("c", async {
        tokio::time::sleep(Duration::from_millis(100)).await;
        Ok(())
    });
    for _ in 0..20 {
        sim.step().unwrap();
    }
    if bounce {
        sim.bounce("h");
    }
    sim.run().unwrap();
    let v = out.lock().unwrap().clone();
    v
}

#[test]
fn select_choice_follows_the_seed() {
    for bounce in [false, true] {
        let a = run(7, bounce);
        assert!(a.contains(&0) && a.contains(&1), "select is not randomized at all? {a:?}");
        for _ in 0..4 {
            assert_eq!(a, run(7, bounce), "bounce={bounce}");
        }
        assert_ne!(a, run(8, bounce), "a different seed gives the same choices");
    }
}
