//! audit C01 - packet level trace of a turmoil-net ClientServer run (no
//! `select!` in the programs) compared over repeated runs. Expected to hold.
use std::cell::RefCell;
use std::rc::Rc;
use std::time::Duration;

use tokio::io::{AsyncReadExt, AsyncWriteExt};
use turmoil_net::fixture::ClientServer;
use turmoil_net::shim::tokio::net::{TcpListener, TcpStream, UdpSocket};
use turmoil_net::{rule, Verdict};

fn run(local_spawn: bool) -> Vec<String> {
    let log = Rc::new(RefCell::new(Vec::<String>::new()));
    let log2 = log.clone();
    let mut cs = ClientServer::new();
    for i in 0..3u16 {
        cs = cs.server(format!("s{i}"), async move {
            let l = TcpListener::bind("0.0.0.0:9000").await.unwrap();
            let u = UdpSocket::bind("0.0.0.0:9001").await.unwrap();
            tokio::task::spawn_local(async move {
                let mut b = [0u8; 64];
                loop {
                    let (n, from) = u.recv_from(&mut b).await.unwrap();
                    let _ = u.send_to(&b[..n], from).await;
                }
            });
            loop {
                let (mut s, _) = l.accept().await.unwrap();
                let fut = async move {
                    let mut b = [0u8; 100];
                    loop {
                        match s.read(&mut b).await {
                            Ok(0) | Err(_) => break,
                            Ok(n) => {
                                if s.write_all(&b[..n]).await.is_err() {
                                    break;
                                }
                            }
                        }
                    }
                };
                if local_spawn {
                    tokio::task::spawn_local(fut);
                } else {
                    tokio::spawn(fut);
                }
            }
        });
    }
    let res = cs.run("client", async move {
        let n = Rc::new(RefCell::new(0u64));
        let l = log2.clone();
        rule(move |p: &turmoil_net::Packet| {
            let mut n = n.borrow_mut();
            *n += 1;
            let v = if *n % 11 == 0 {
                Verdict::Drop
            } else {
                Verdict::Deliver(Duration::from_millis((*n * 7) % 5))
            };
            l.borrow_mut().push(format!("{:?} {p:?} -> {v:?}", tokio::time::Instant::now()));
            v
        })
        .forget();
        let mut hs = vec![];
        for c in 0..6u16 {
            let l = log2.clone();
            hs.push(tokio::task::spawn_local(async move {
                let name = format!("s{}:9000", c % 3);
                let r = tokio::time::timeout(Duration::from_secs(5), async {
                    let mut s = TcpStream::connect(name.as_str()).await?;
                    let msg = vec![c as u8; 300 + c as usize * 211];
                    s.write_all(&msg).await?;
                    let mut back = vec![0u8; msg.len()];
                    s.read_exact(&mut back).await?;
                    std::io::Result::Ok(back == msg)
                })
                .await;
                l.borrow_mut().push(format!("client conn {c}: {r:?}"));
                let u = UdpSocket::bind("0.0.0.0:0").await.unwrap();
                u.send_to(&[c as u8; 9], format!("s{}:9001", (c + 1) % 3).as_str()).await.unwrap();
                let mut b = [0u8; 16];
                let r = tokio::time::timeout(Duration::from_millis(50), u.recv_from(&mut b)).await;
                l.borrow_mut().push(format!("client udp {c}: {:?} local {:?}", r.map(|r| r.map(|x| x.0).map_err(|e| e.kind())), u.local_addr()));
            }));
        }
        for h in hs {
            let _ = h.await;
        }
        format!("{:?}", turmoil_net::netstat("s0"))
    });
    let mut v = log.borrow().clone();
    v.push(res);
    // tokio Instants are opaque and differ between runtimes: keep only what
    // is comparable. Strip the `Instant { .. }` prefix of every line.
    v.iter()
        .map(|l| match l.find("} Packet") {
            Some(i) => l[i + 2..].to_string(),
            None => l.clone(),
        })
        .collect()
}

#[test]
fn packet_trace_repeats() {
    for local in [true, false] {
        let a = run(local);
        assert!(a.len() > 50, "{}", a.len());
        for _ in 0..4 {
            let b = run(local);
            for (i, (x, y)) in a.iter().zip(b.iter()).enumerate() {
                assert_eq!(x, y, "local_spawn={local} first difference at event {i}");
            }
            assert_eq!(a.len(), b.len());
        }
    }
}
