//! audit C01 - generic determinism harness: every scenario is run twice in
//! this process (and, for `cross_process`, in child processes) and the full
//! traces (turmoil's own TRACE events + program level logs) are compared.
#![cfg(all(feature = "unstable-fs", feature = "unstable-io_uring"))]

use std::future::Future;
use std::io::Write;
use std::os::fd::AsRawFd;
use std::panic::{catch_unwind, AssertUnwindSafe};
use std::sync::{Arc, Mutex};
use std::time::{Duration, SystemTime};

use rand::{rngs::SmallRng, Rng, SeedableRng};
use tokio::io::{AsyncReadExt, AsyncWriteExt};
use tokio::time::timeout;
use turmoil::fs::shim::std::fs as sfs;
use turmoil::fs::shim::tokio::fs as tfs;
use turmoil::io_uring::{opcode, types, AsyncFd, IoUring};
use turmoil::net::{TcpListener, TcpStream, UdpSocket};
use turmoil::{Builder, IpVersion};

#[derive(Clone, Default)]
struct Buf(Arc<Mutex<Vec<u8>>>);
impl Write for Buf {
    fn write(&mut self, b: &[u8]) -> std::io::Result<usize> {
        self.0.lock().unwrap().extend_from_slice(b);
        Ok(b.len())
    }
    fn flush(&mut self) -> std::io::Result<()> {
        Ok(())
    }
}
impl<'a> tracing_subscriber::fmt::MakeWriter<'a> for Buf {
    type Writer = Buf;
    fn make_writer(&'a self) -> Buf {
        self.clone()
    }
}

macro_rules! plog {
    ($($arg:tt)*) => {
        tracing::info!(target: "prog", "[{:?}] {}", turmoil::elapsed(), format!($($arg)*))
    };
}

#[derive(Debug, Clone)]
struct Cfg {
    seed: u64,
    tick_ms: u64,
    min_lat: u64,
    max_lat: u64,
    curve: f64,
    fail: f64,
    repair: f64,
    random_order: bool,
    tcp_cap: usize,
    udp_cap: usize,
    v6: bool,
    nserv: usize,
    nclient: usize,
    rounds: usize,
    fs_sync_p: f64,
    fs_err_p: f64,
    fs_short_p: f64,
    fs_corrupt_p: f64,
    fs_latency: bool,
    fs_cache: bool,
    fs_block: bool,
    script: bool,
    steps: usize,
    tokio_io: bool,
}

fn cfg_for(id: u64) -> Cfg {
    let mut r = SmallRng::seed_from_u64(id.wrapping_mul(0x9E3779B97F4A7C15) ^ 0xC01);
    let min_lat = r.random_range(0..5);
    let pick = |r: &mut SmallRng, v: &[f64]| v[r.random_range(0..v.len())];
    Cfg {
        seed: r.random(),
        tick_ms: [1, 1, 2, 5, 10][r.random_range(0..5)],
        min_lat,
        max_lat: min_lat + r.random_range(0..60),
        curve: pick(&mut r, &[0.5, 5.0, 5.0, 20.0]),
        fail: pick(&mut r, &[0.0, 0.0, 0.01, 0.05, 0.2]),
        repair: pick(&mut r, &[1.0, 0.5, 0.1]),
        random_order: r.random_bool(0.5),
        tcp_cap: [1, 2, 8, 64][r.random_range(0..4)],
        udp_cap: [1, 2, 8, 64][r.random_range(0..4)],
        v6: r.random_bool(0.3),
        nserv: r.random_range(1..=3),
        nclient: r.random_range(1..=2),
        rounds: r.random_range(4..12),
        fs_sync_p: pick(&mut r, &[0.0, 0.1, 0.5]),
        fs_err_p: pick(&mut r, &[0.0, 0.0, 0.05, 0.3]),
        fs_short_p: pick(&mut r, &[0.0, 0.3]),
        fs_corrupt_p: pick(&mut r, &[0.0, 0.2]),
        fs_latency: r.random_bool(0.6),
        fs_cache: r.random_bool(0.5),
        fs_block: r.random_bool(0.5),
        script: r.random_bool(0.7),
        steps: 4000,
        tokio_io: r.random_bool(0.3),
    }
}

fn cksum(b: &[u8]) -> u64 {
    b.iter()
        .fold(0xcbf29ce484222325u64, |h, x| (h ^ *x as u64).wrapping_mul(0x100000001b3))
}

async fn echo(mut s: TcpStream, tag: String) {
    let mut buf = [0u8; 32];
    loop {
        match timeout(Duration::from_millis(400), s.read(&mut buf)).await {
            Ok(Ok(0)) => {
                plog!("{tag} echo eof");
                break;
            }
            Ok(Ok(n)) => {
                plog!("{tag} echo read {n} {:x}", cksum(&buf[..n]));
                if let Err(e) = s.write_all(&buf[..n]).await {
                    plog!("{tag} echo write err {e}");
                    break;
                }
            }
            Ok(Err(e)) => {
                plog!("{tag} echo err {e}");
                break;
            }
            Err(_) => {
                plog!("{tag} echo idle timeout");
                break;
            }
        }
    }
}

async fn fs_activity(idx: usize, n: u32) {
    let d = format!("/data/d{}", n % 3);
    if let Err(e) = sfs::create_dir_all(&d) {
        plog!("fs mkdir {d} err {e}");
    }
    let p = format!("{d}/f{}_{}", idx, n % 5);
    let data = vec![(n & 0xff) as u8; 100 + (n as usize * 37) % 900];
    match tfs::write(&p, &data).await {
        Ok(()) => plog!("fs write {p} ok"),
        Err(e) => plog!("fs write {p} err {e}"),
    }
    if n % 2 == 0 {
        match sfs::OpenOptions::new().read(true).write(true).open(&p) {
            Ok(f) => {
                plog!("fs open fd={} sync={:?}", f.as_raw_fd(), f.sync_all().map_err(|e| e.to_string()));
                let _ = sfs::sync_dir(&d);
                let _ = sfs::sync_dir("/data");
                let _ = sfs::sync_dir("/");
            }
            Err(e) => plog!("fs open err {e}"),
        }
    }
    match sfs::read_dir(&d) {
        Ok(rd) => {
            let names: Vec<String> = rd
                .map(|e| match e {
                    Ok(e) => e.file_name().to_string_lossy().into_owned(),
                    Err(e) => format!("ERR({e})"),
                })
                .collect();
            plog!("fs ls {d} {names:?}");
        }
        Err(e) => plog!("fs ls err {e}"),
    }
    match tfs::read(&p).await {
        Ok(b) => plog!("fs read {p} len={} ck={:x}", b.len(), cksum(&b)),
        Err(e) => plog!("fs read {p} err {e}"),
    }
    match tfs::File::open(&p).await {
        Ok(f) => {
            let mut b = vec![0u8; 256];
            let r = f.read_at(&mut b, (n as u64 * 13) % 64).await;
            plog!("fs read_at {:?} ck={:x}", r.map_err(|e| e.to_string()), cksum(&b));
            if let Ok(m) = f.metadata().await {
                plog!("fs meta len={} mtime={:?}", m.len(), m.modified().ok());
            }
        }
        Err(e) => plog!("fs open2 err {e}"),
    }
    if n % 4 == 3 {
        let q = format!("/data/d{}/moved{}", (n + 1) % 3, n % 2);
        plog!("fs rename {:?}", tfs::rename(&p, &q).await.map_err(|e| e.to_string()));
    }
    if n % 7 == 6 {
        plog!("fs rm {:?}", tfs::remove_file(&p).await.map_err(|e| e.to_string()));
    }
}

fn server_prog(cfg: Arc<Cfg>, idx: usize) -> impl Future<Output = turmoil::Result> {
    async move {
        let ip = if cfg.v6 { "::" } else { "0.0.0.0" };
        let listener = TcpListener::bind((ip, 9000)).await?;
        let udp = UdpSocket::bind((ip, 9001)).await?;
        let mc = UdpSocket::bind((ip, 9002)).await?;
        if cfg.v6 {
            mc.join_multicast_v6(&"ff08::1".parse().unwrap(), 0)?;
        } else {
            mc.join_multicast_v4("239.1.1.1".parse().unwrap(), "0.0.0.0".parse().unwrap())?;
        }
        let mut mbuf = [0u8; 64];
        let mut tick = tokio::time::interval(Duration::from_millis(23 + idx as u64 * 10));
        let mut n = 0u32;
        let mut conn = 0u32;
        let mut buf = [0u8; 64];
        plog!("srv{idx} up since_epoch={:?}", turmoil::since_epoch());
        loop {
            tokio::select! {
                r = listener.accept() => match r {
                    Ok((s, peer)) => {
                        conn += 1;
                        plog!("srv{idx} accept {peer} #{conn}");
                        let tag = format!("srv{idx}#{conn}");
                        if std::env::var("AUDIT_LOCAL_SPAWN").is_ok() {
                            tokio::task::spawn_local(echo(s, tag));
                        } else {
                            tokio::spawn(echo(s, tag));
                        }
                    }
                    Err(e) => plog!("srv{idx} accept err {e}"),
                },
                r = udp.recv_from(&mut buf) => match r {
                    Ok((len, from)) => {
                        plog!("srv{idx} udp {from} {:x}", cksum(&buf[..len]));
                        let r = udp.send_to(&buf[..len], from).await;
                        if let Err(e) = r { plog!("srv{idx} udp send err {e}"); }
                    }
                    Err(e) => plog!("srv{idx} udp err {e}"),
                },
                r = mc.recv_from(&mut mbuf) => match r {
                    Ok((len, from)) => {
                        plog!("srv{idx} mcast {from} {:x}", cksum(&mbuf[..len]));
                        let _ = mc.send_to(&mbuf[..len], from).await;
                    }
                    Err(e) => plog!("srv{idx} mcast err {e}"),
                },
                _ = tick.tick() => {
                    n += 1;
                    if n <= 40 { fs_activity(idx, n).await; }
                }
            }
        }
    }
}

struct RingFd(std::os::fd::RawFd);
impl AsRawFd for RingFd {
    fn as_raw_fd(&self) -> std::os::fd::RawFd {
        self.0
    }
}

async fn uring_batch(tag: &str, round: usize) {
    let _ = sfs::create_dir_all("/u");
    let path = format!("/u/{tag}");
    let file = match sfs::OpenOptions::new().read(true).write(true).create(true).open(&path) {
        Ok(f) => f,
        Err(e) => {
            plog!("uring open err {e}");
            return;
        }
    };
    let fd = types::Fd(file.as_raw_fd());
    let mut ring = IoUring::new(16).expect("ring");
    let rfd = ring.as_raw_fd();
    plog!("uring file fd={} ring fd={}", file.as_raw_fd(), rfd);
    let bufs: Vec<Vec<u8>> = (0..4).map(|i| vec![(round * 4 + i) as u8; 200]).collect();
    let mut rbufs: Vec<Vec<u8>> = (0..4).map(|_| vec![0u8; 200]).collect();
    for (i, b) in bufs.iter().enumerate() {
        let e = opcode::Write::new(fd, b.as_ptr(), b.len() as u32)
            .offset(i as u64 * 150)
            .build()
            .user_data(100 + i as u64);
        unsafe { ring.submission().push(&e).unwrap() };
    }
    let e = opcode::Fsync::new(fd).build().user_data(200);
    unsafe { ring.submission().push(&e).unwrap() };
    for (i, b) in rbufs.iter_mut().enumerate() {
        let e = opcode::Read::new(fd, b.as_mut_ptr(), b.len() as u32)
            .offset(i as u64 * 100)
            .build()
            .user_data(300 + i as u64);
        unsafe { ring.submission().push(&e).unwrap() };
    }
    if round % 3 == 2 {
        let e = opcode::AsyncCancel::new(101).build().user_data(400);
        unsafe { ring.submission().push(&e).unwrap() };
    }
    plog!("uring submit {:?}", ring.submit().map_err(|e| e.to_string()));
    let afd = AsyncFd::new(RingFd(rfd)).expect("asyncfd");
    let mut got = 0;
    let want = if round % 3 == 2 { 10 } else { 9 };
    let deadline = tokio::time::Instant::now() + Duration::from_millis(300);
    while got < want {
        let mut drained = vec![];
        {
            let mut cq = ring.completion();
            cq.sync();
            for c in &mut cq {
                drained.push((c.user_data(), c.result()));
            }
        }
        for (ud, res) in drained {
            got += 1;
            plog!("uring cqe ud={ud} res={res}");
        }
        if got >= want {
            break;
        }
        match tokio::time::timeout_at(deadline, afd.readable()).await {
            Ok(Ok(_)) => {}
            Ok(Err(e)) => {
                plog!("uring readable err {e}");
                break;
            }
            Err(_) => {
                plog!("uring timeout got={got}");
                break;
            }
        }
    }
    for (i, b) in rbufs.iter().enumerate() {
        plog!("uring rbuf{i} ck={:x}", cksum(b));
    }
    drop(ring);
    drop(file);
}

async fn select_spawn(rng: &mut SmallRng) {
    let (tx1, mut rx1) = tokio::sync::mpsc::channel::<u32>(8);
    let (tx2, mut rx2) = tokio::sync::mpsc::channel::<u32>(8);
    let mut hs = vec![];
    for i in 0..4u32 {
        let tx = if i % 2 == 0 { tx1.clone() } else { tx2.clone() };
        let d = [0u64, 1, 1, 3][rng.random_range(0..4)];
        hs.push(tokio::spawn(async move {
            tokio::time::sleep(Duration::from_millis(d)).await;
            let _ = tx.send(i).await;
            i
        }));
    }
    drop(tx1);
    drop(tx2);
    let mut order = vec![];
    let sl = tokio::time::sleep(Duration::from_millis(2));
    tokio::pin!(sl);
    let mut slept = false;
    let (mut c1, mut c2) = (false, false);
    while !(c1 && c2) {
        tokio::select! {
            v = rx1.recv(), if !c1 => match v { Some(v) => order.push(format!("a{v}")), None => c1 = true },
            v = rx2.recv(), if !c2 => match v { Some(v) => order.push(format!("b{v}")), None => c2 = true },
            _ = &mut sl, if !slept => { slept = true; order.push("t".into()); }
        }
    }
    let mut js = tokio::task::JoinSet::new();
    for i in 0..3u32 {
        js.spawn(async move {
            tokio::task::yield_now().await;
            i
        });
    }
    while let Some(r) = js.join_next().await {
        order.push(format!("j{}", r.unwrap()));
    }
    for h in hs {
        let _ = h.await;
    }
    plog!("select order {order:?}");
}

fn client_prog(cfg: Arc<Cfg>, idx: usize) -> impl Future<Output = turmoil::Result> {
    async move {
        let mut rng = SmallRng::seed_from_u64(cfg.seed ^ (idx as u64 + 1));
        let ip = if cfg.v6 { "::" } else { "0.0.0.0" };
        let udp = UdpSocket::bind((ip, 0)).await?;
        plog!("cli{idx} udp bound {:?}", udp.local_addr());
        for round in 0..cfg.rounds {
            let srv = format!("srv{}", rng.random_range(0..cfg.nserv));
            match rng.random_range(0..7) {
                5 => {
                    let dst = if cfg.v6 { "[ff08::1]:9002" } else { "239.1.1.1:9002" };
                    let r = udp.send_to(&[round as u8; 5], dst).await;
                    plog!("cli{idx} r{round} mcast send {:?}", r.map_err(|e| e.to_string()));
                    if !cfg.v6 {
                        let _ = udp.set_broadcast(true);
                        let r = udp.send_to(&[round as u8; 6], "255.255.255.255:9001").await;
                        plog!("cli{idx} r{round} bcast send {:?}", r.map_err(|e| e.to_string()));
                    }
                    let mut b = [0u8; 32];
                    loop {
                        match timeout(Duration::from_millis(120), udp.recv_from(&mut b)).await {
                            Ok(Ok((n, from))) => plog!("cli{idx} r{round} m/b got {n} from {from}"),
                            _ => break,
                        }
                    }
                }
                6 => {
                    match timeout(Duration::from_millis(250), TcpStream::connect((srv.as_str(), 9000))).await {
                        Ok(Ok(s)) => {
                            let (mut rd, mut wr) = s.into_split();
                            let total = rng.random_range(200..2000usize);
                            let w = tokio::spawn(async move {
                                let mut sent = 0usize;
                                while sent < total {
                                    let n = (total - sent).min(29);
                                    if wr.write_all(&vec![sent as u8; n]).await.is_err() { break; }
                                    sent += n;
                                }
                                sent
                            });
                            let mut got = 0usize;
                            let mut b = [0u8; 50];
                            loop {
                                match timeout(Duration::from_millis(150), rd.read(&mut b)).await {
                                    Ok(Ok(0)) | Ok(Err(_)) | Err(_) => break,
                                    Ok(Ok(n)) => { got += n; if got >= total { break; } }
                                }
                            }
                            let sent = timeout(Duration::from_millis(300), w).await.map(|r| r.unwrap_or(0));
                            plog!("cli{idx} r{round} bulk total={total} sent={sent:?} got={got}");
                        }
                        other => plog!("cli{idx} r{round} bulk connect {:?}", other.map(|r| r.map(|_| ()).map_err(|e| e.to_string())).map_err(|_| "timeout")),
                    }
                }
                0 | 1 => {
                    let c = timeout(Duration::from_millis(250), TcpStream::connect((srv.as_str(), 9000))).await;
                    match c {
                        Ok(Ok(mut s)) => {
                            plog!("cli{idx} r{round} connected {:?}->{:?}", s.local_addr(), s.peer_addr());
                            for k in 0..rng.random_range(1..6usize) {
                                let msg = vec![(round * 16 + k) as u8; rng.random_range(1..32)];
                                if let Err(e) = s.write_all(&msg).await {
                                    plog!("cli{idx} r{round} write err {e}");
                                    break;
                                }
                                let mut back = vec![0u8; msg.len()];
                                match timeout(Duration::from_millis(200), s.read_exact(&mut back)).await {
                                    Ok(Ok(_)) => plog!("cli{idx} r{round}.{k} echo ok={}", back == msg),
                                    Ok(Err(e)) => { plog!("cli{idx} r{round}.{k} read err {e}"); break; }
                                    Err(_) => { plog!("cli{idx} r{round}.{k} read timeout"); break; }
                                }
                            }
                            if rng.random_bool(0.5) {
                                let _ = s.shutdown().await;
                            }
                        }
                        Ok(Err(e)) => plog!("cli{idx} r{round} connect {srv} err {e}"),
                        Err(_) => plog!("cli{idx} r{round} connect {srv} timeout"),
                    }
                }
                2 => {
                    for k in 0..3 {
                        let msg = vec![(round + k) as u8; 8];
                        let r = udp.send_to(&msg, (srv.as_str(), 9001)).await;
                        plog!("cli{idx} r{round}.{k} udp send {:?}", r.map_err(|e| e.to_string()));
                    }
                    let mut b = [0u8; 32];
                    loop {
                        match timeout(Duration::from_millis(150), udp.recv_from(&mut b)).await {
                            Ok(Ok((n, from))) => plog!("cli{idx} r{round} udp got {n} from {from} {:x}", cksum(&b[..n])),
                            Ok(Err(e)) => { plog!("cli{idx} udp err {e}"); break; }
                            Err(_) => { plog!("cli{idx} r{round} udp quiet"); break; }
                        }
                    }
                }
                3 => select_spawn(&mut rng).await,
                _ => {
                    uring_batch(&format!("c{idx}"), round).await;
                    fs_activity(10 + idx, round as u32 + 1).await;
                }
            }
            tokio::time::sleep(Duration::from_millis(rng.random_range(0..20))).await;
        }
        plog!("cli{idx} done");
        Ok(())
    }
}

fn run_once(id: u64) -> String {
    let cfg = Arc::new(cfg_for(id));
    let buf = Buf::default();
    let sub = tracing_subscriber::fmt()
        .with_writer(buf.clone())
        .with_max_level(tracing::Level::TRACE)
        .without_time()
        .with_ansi(false)
        .finish();
    let result = tracing::subscriber::with_default(sub, || {
        catch_unwind(AssertUnwindSafe(|| {
            let mut b = Builder::new();
            b.rng_seed(cfg.seed)
                .epoch(SystemTime::UNIX_EPOCH + Duration::from_secs(1_700_000_000))
                .tick_duration(Duration::from_millis(cfg.tick_ms))
                .min_message_latency(Duration::from_millis(cfg.min_lat))
                .max_message_latency(Duration::from_millis(cfg.max_lat))
                .fail_rate(cfg.fail)
                .repair_rate(cfg.repair)
                .tcp_capacity(cfg.tcp_cap)
                .udp_capacity(cfg.udp_cap)
                .simulation_duration(Duration::from_secs(60));
            if cfg.v6 {
                b.ip_version(IpVersion::V6);
            }
            if cfg.random_order {
                b.enable_random_order();
            }
            if cfg.tokio_io {
                b.enable_tokio_io();
            }
            {
                let fs = b.fs();
                fs.sync_probability(cfg.fs_sync_p)
                    .io_error_probability(cfg.fs_err_p)
                    .short_read_probability(cfg.fs_short_p)
                    .corruption_probability(cfg.fs_corrupt_p);
                if cfg.fs_block {
                    fs.block_size(128);
                }
                if cfg.fs_latency {
                    fs.io_latency().min_latency(Duration::from_micros(200)).max_latency(Duration::from_millis(7));
                }
                if cfg.fs_cache {
                    fs.page_cache().page_size(64).max_pages(4).random_eviction_probability(0.2);
                }
            }
            let mut sim = b.build();
            sim.set_message_latency_curve(cfg.curve);
            for i in 0..cfg.nserv {
                let c = cfg.clone();
                sim.host(format!("srv{i}"), move || server_prog(c.clone(), i));
            }
            for i in 0..cfg.nclient {
                sim.client(format!("cli{i}"), client_prog(cfg.clone(), i));
            }
            let mut names: Vec<String> = (0..cfg.nserv).map(|i| format!("srv{i}")).collect();
            names.extend((0..cfg.nclient).map(|i| format!("cli{i}")));
            let mut ctl = SmallRng::seed_from_u64(cfg.seed ^ 0xABCDEF);
            let mut res = String::from("steps exhausted");
            for step in 0..cfg.steps {
                if cfg.script && step % 37 == 36 {
                    let a = names[ctl.random_range(0..names.len())].clone();
                    let mut bn = names[ctl.random_range(0..names.len())].clone();
                    if a == bn {
                        bn = names[(names.iter().position(|n| *n == a).unwrap() + 1) % names.len()].clone();
                    }
                    let s = format!("srv{}", ctl.random_range(0..cfg.nserv));
                    match ctl.random_range(0..14) {
                        10 => { let v = [0.0, 0.1, 0.5][ctl.random_range(0..3)]; tracing::info!(target: "ctl", "link fail {a} {bn} {v}"); sim.set_link_fail_rate(a.as_str(), bn.as_str(), v); }
                        11 => { let v = ctl.random_range(1..80); tracing::info!(target: "ctl", "max latency {v}"); sim.set_max_message_latency(Duration::from_millis(cfg.min_lat + v)); }
                        12 => { tracing::info!(target: "ctl", "deliver_all"); sim.links(|links| for l in links { l.deliver_all(); }); }
                        13 => {
                            let k = names.len();
                            if k < 7 {
                                let name = format!("late{k}");
                                tracing::info!(target: "ctl", "late client {name}");
                                let mut c2 = (*cfg).clone();
                                c2.rounds = 3;
                                sim.client(name.as_str(), client_prog(Arc::new(c2), k));
                                names.push(name);
                            }
                        }
                        0 => { tracing::info!(target: "ctl", "crash {s}"); sim.crash(s.as_str()); }
                        1 | 2 => { tracing::info!(target: "ctl", "bounce {s}"); sim.bounce(s.as_str()); }
                        3 => { tracing::info!(target: "ctl", "partition {a} {bn}"); sim.partition(a.as_str(), bn.as_str()); }
                        4 | 5 => { tracing::info!(target: "ctl", "repair {a} {bn}"); sim.repair(a.as_str(), bn.as_str()); }
                        6 => { tracing::info!(target: "ctl", "hold {a} {bn}"); sim.hold(a.as_str(), bn.as_str()); }
                        7 => { tracing::info!(target: "ctl", "release {a} {bn}"); sim.release(a.as_str(), bn.as_str()); }
                        8 => { tracing::info!(target: "ctl", "oneway {a} {bn}"); sim.partition_oneway(a.as_str(), bn.as_str()); }
                        _ => { tracing::info!(target: "ctl", "latency {a} {bn}"); sim.set_link_latency(a.as_str(), bn.as_str(), Duration::from_millis(ctl.random_range(0..30))); }
                    }
                }
                if step % 50 == 0 {
                    let mut snap = vec![];
                    sim.links(|links| {
                        for l in links {
                            let pair = l.pair();
                            let msgs: Vec<String> = l.map(|m| format!("{:?}:{}", m.pair(), m.protocol())).collect();
                            snap.push(format!("{pair:?}={msgs:?}"));
                        }
                    });
                    tracing::info!(target: "ctl", "links@{step} {snap:?} elapsed={:?}", sim.elapsed());
                }
                match sim.step() {
                    Ok(true) => { res = format!("finished at step {step} elapsed {:?}", sim.elapsed()); break; }
                    Ok(false) => {}
                    Err(e) => { res = format!("error at step {step}: {e}"); break; }
                }
            }
            res
        }))
    });
    let result = match result {
        Ok(s) => s,
        Err(p) => format!(
            "PANIC: {}",
            p.downcast_ref::<String>().cloned().or_else(|| p.downcast_ref::<&str>().map(|s| s.to_string())).unwrap_or_default()
        ),
    };
    let mut out = String::from_utf8_lossy(&buf.0.lock().unwrap()).into_owned();
    out.push_str("\nRESULT: ");
    out.push_str(&result);
    out
}

fn first_diff(a: &str, b: &str) -> String {
    for (i, (x, y)) in a.lines().zip(b.lines()).enumerate() {
        if x != y {
            return format!("line {i}:\n  A: {x}\n  B: {y}");
        }
    }
    format!("length differs: {} vs {} lines", a.lines().count(), b.lines().count())
}

fn ids() -> std::ops::Range<u64> {
    let n: u64 = std::env::var("AUDIT_N").ok().and_then(|s| s.parse().ok()).unwrap_or(40);
    let s: u64 = std::env::var("AUDIT_START").ok().and_then(|s| s.parse().ok()).unwrap_or(0);
    s..s + n
}

#[test]
fn in_process_twice() {
    let mut bad = vec![];
    for id in ids() {
        let a = run_once(id);
        let b = run_once(id);
        let res = a.lines().last().unwrap().to_string();
        eprintln!("scenario {id}: {} lines, {res}", a.lines().count());
        if a != b {
            eprintln!("MISMATCH scenario {id} cfg={:?}\n{}", cfg_for(id), first_diff(&a, &b));
            bad.push(id);
        }
    }
    assert!(bad.is_empty(), "non-deterministic scenarios: {bad:?}");
}

/// child entry: prints checksum + writes the trace
#[test]
fn child_entry() {
    let Ok(id) = std::env::var("AUDIT_CHILD") else { return };
    let id: u64 = id.parse().unwrap();
    let out = run_once(id);
    std::fs::write(std::env::var("AUDIT_OUT").unwrap(), out).unwrap();
}

#[test]
fn cross_process() {
    if std::env::var("AUDIT_CHILD").is_ok() {
        return;
    }
    let exe = std::env::current_exe().unwrap();
    let dir = std::env::temp_dir().join(format!("audit_c01_{}", std::process::id()));
    std::fs::create_dir_all(&dir).unwrap();
    let mut bad = vec![];
    for id in ids() {
        let mut outs = vec![];
        for k in 0..2 {
            let f = dir.join(format!("{id}_{k}.log"));
            let st = std::process::Command::new(&exe)
                .args(["--exact", "child_entry", "--test-threads=1"])
                .env("AUDIT_CHILD", id.to_string())
                .env("AUDIT_OUT", &f)
                .output()
                .unwrap();
            assert!(st.status.success(), "child failed: {}", String::from_utf8_lossy(&st.stderr));
            outs.push(std::fs::read_to_string(&f).unwrap());
        }
        let local = run_once(id);
        if outs[0] != outs[1] {
            eprintln!("MISMATCH (proc vs proc) scenario {id}\n{}", first_diff(&outs[0], &outs[1]));
            bad.push(id);
        } else if outs[0] != local {
            eprintln!("MISMATCH (proc vs parent) scenario {id}\n{}", first_diff(&outs[0], &local));
            bad.push(id);
        }
    }
    let _ = std::fs::remove_dir_all(&dir);
    assert!(bad.is_empty(), "non-deterministic scenarios: {bad:?}");
}

#[test]
fn dump_one() {
    let Ok(id) = std::env::var("AUDIT_DUMP") else { return };
    let id: u64 = id.parse().unwrap();
    let a = run_once(id);
    let b = run_once(id);
    std::fs::write("/tmp/wt6/C01/target/dump_a.log", &a).unwrap();
    std::fs::write("/tmp/wt6/C01/target/dump_b.log", &b).unwrap();
    eprintln!("equal={}", a == b);
}
