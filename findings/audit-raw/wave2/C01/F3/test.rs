//! audit C01 (F3) - O_DIRECT checks the *address* of the caller's buffer, so a
//! program that passes an ordinary Vec gets Ok or EINVAL depending on where the
//! allocator put it; two runs of the same seed / configuration / program
//! disagree.
#![cfg(feature = "unstable-fs")]
use std::os::unix::fs::FileExt;
use std::sync::{Arc, Mutex};
use turmoil::fs::shim::std::fs::{create_dir_all, OpenOptions};
use turmoil::Builder;

fn run() -> Vec<bool> {
    let out = Arc::new(Mutex::new(vec![]));
    let o = out.clone();
    let mut sim = Builder::new().rng_seed(1).build();
    sim.client("c", async move {
        create_dir_all("/d")?;
        let f = OpenOptions::new().write(true).create(true).direct_io(true).open("/d/f")?;
        let mut keep = vec![];
        for i in 0..64usize {
            let buf = vec![i as u8; 512];
            o.lock().unwrap().push(f.write_at(&buf, 0).is_ok());
            keep.push(buf);
            keep.push(vec![0u8; 16 * (i % 7 + 1)]);
        }
        Ok(())
    });
    sim.run().unwrap();
    let v = out.lock().unwrap().clone();
    v
}

#[test]
fn direct_io_result_does_not_depend_on_the_allocator() {
    let a = run();
    for _ in 0..5 {
        assert_eq!(a, run());
    }
}
