//! audit C01 - order in which `Sim::crash` / `Sim::bounce` destroys the
//! tasks of a host (and so the order of the FINs they send) must be the same
//! for two identical runs.
use std::io::Write;
use std::sync::{Arc, Mutex};
use std::time::{Duration, SystemTime};

use tokio::io::AsyncReadExt;
use turmoil::net::{TcpListener, TcpStream};
use turmoil::Builder;

#[derive(Clone, Default)]
struct Buf(Arc<Mutex<Vec<u8>>>);
impl Write for Buf {
    fn write(&mut self, b: &[u8]) -> std::io::Result<usize> {
        self.0.lock().unwrap().extend_from_slice(b);
        Ok(b.len())
    }
    fn flush(&mut self) -> std::io::Result<()> {
        Ok(())
    }
}
impl<'a> tracing_subscriber::fmt::MakeWriter<'a> for Buf {
    type Writer = Buf;
    fn make_writer(&'a self) -> Buf {
        self.clone()
    }
}

/// One server that hands every accepted connection to a `tokio::spawn`ed
/// task, `nclients` clients that connect and then idle. Once all connections
/// are up the server is crashed. Returns turmoil's own trace of the run.
fn run(seed: u64, nclients: usize) -> String {
    run_with(seed, nclients, false)
}

fn run_with(seed: u64, nclients: usize, bounce: bool) -> String {
    let buf = Buf::default();
    let sub = tracing_subscriber::fmt()
        .with_writer(buf.clone())
        .with_max_level(tracing::Level::TRACE)
        .without_time()
        .with_ansi(false)
        .finish();
    tracing::subscriber::with_default(sub, || {
        let mut sim = Builder::new()
            .rng_seed(seed)
            .epoch(SystemTime::UNIX_EPOCH + Duration::from_secs(1_700_000_000))
            .min_message_latency(Duration::from_millis(1))
            .max_message_latency(Duration::from_millis(20))
            .build();
        sim.host("srv", || async {
            let l = TcpListener::bind(("0.0.0.0", 9000)).await?;
            loop {
                let (mut s, _) = l.accept().await?;
                tokio::spawn(async move {
                    let mut b = [0u8; 8];
                    let _ = s.read(&mut b).await;
                });
            }
        });
        for i in 0..nclients {
            sim.client(format!("cli{i}"), async move {
                let mut s = TcpStream::connect(("srv", 9000)).await?;
                let mut b = [0u8; 8];
                let n = s.read(&mut b).await;
                tracing::info!(target: "prog", "cli{i} read -> {n:?} at {:?}", turmoil::elapsed());
                Ok(())
            });
        }
        for _ in 0..60 {
            sim.step().unwrap();
        }
        if bounce {
            sim.bounce("srv");
        } else {
            sim.crash("srv");
        }
        sim.run().unwrap();
    });
    let out = String::from_utf8_lossy(&buf.0.lock().unwrap()).into_owned();
    out
}

fn fins(trace: &str) -> Vec<String> {
    trace
        .lines()
        .filter(|l| l.contains("Send") && l.contains("FIN") && l.contains("src=192.168.0.1:9000"))
        .map(|l| l.to_string())
        .collect()
}

#[test]
fn crash_sends_fins_in_the_same_order_every_run() {
    for seed in 0..20u64 {
        for nclients in 2..=4 {
            let a = run(seed, nclients);
            let b = run(seed, nclients);
            assert_eq!(
                fins(&a),
                fins(&b),
                "seed {seed}, {nclients} clients: the crashed host closed its connections in a different order"
            );
            assert_eq!(a, b, "seed {seed}, {nclients} clients: traces differ");
        }
    }
}

#[test]
fn bounce_sends_fins_in_the_same_order_every_run() {
    for seed in 0..20u64 {
        for nclients in 2..=4 {
            let a = run_with(seed, nclients, true);
            let b = run_with(seed, nclients, true);
            assert_eq!(
                fins(&a),
                fins(&b),
                "seed {seed}, {nclients} clients: the bounced host closed its connections in a different order"
            );
            assert_eq!(a, b, "seed {seed}, {nclients} clients: traces differ");
        }
    }
}

/// Diagnostic for the root cause: tokio's task ids come from a process-wide
/// counter, and the current-thread runtime keeps its tasks in 4 shards picked
/// by `id % 4`, which it empties shard by shard on shutdown. When the counter
/// is brought to the same residue before each run the two runs agree.
fn burn_task_id() -> u64 {
    let rt = tokio::runtime::Builder::new_current_thread().build().unwrap();
    let id = rt.block_on(async { tokio::spawn(async { tokio::task::id() }).await.unwrap() });
    id.to_string().parse().unwrap()
}

// Run alone: cargo test ... --test audit_c01_2 -- --ignored --test-threads=1
#[test]
#[ignore]
fn diagnostic_aligned_task_ids_give_equal_runs() {
    for seed in 0..20u64 {
        for nclients in 2..=4 {
            while burn_task_id() % 4 != 3 {}
            let a = run(seed, nclients);
            while burn_task_id() % 4 != 3 {}
            let b = run(seed, nclients);
            assert_eq!(a, b, "seed {seed}, {nclients} clients");
        }
    }
}
