//! Audit C06 / H7: sequence-number wrap-around. ISNs step by 0x1_0000 from
//! 0x0100_0000; after 0xFEFF connections the next ISN is 0xFFFF_0000 and a
//! 200 KB transfer crosses 2^32.
use tokio::io::{AsyncReadExt, AsyncWriteExt};
use turmoil_net::fixture;
use turmoil_net::shim::tokio::net::{TcpListener, TcpStream};
use turmoil_net::KernelConfig;

fn pattern(n: usize) -> Vec<u8> {
    (0..n).map(|i| (i as u8).wrapping_mul(31).wrapping_add((i >> 8) as u8)).collect()
}

#[test]
fn transfer_across_sequence_wrap() {
    fixture::lo_with_config(KernelConfig::default().loopback_mtu(1500), async {
        let l = TcpListener::bind("127.0.0.1:9000").await.unwrap();
        // every connection consumes two ISNs of the single loopback kernel
        // (client + child), so 0x7F7F connections reach 0xFFFE_0000
        for _ in 0..0x7F7F {
            let (c, s) = tokio::join!(TcpStream::connect("127.0.0.1:9000"), l.accept());
            let mut c = c.unwrap();
            let (mut s, _) = s.unwrap();
            c.shutdown().await.unwrap();
            s.shutdown().await.unwrap();
            let mut b = [0u8; 1];
            assert_eq!(c.read(&mut b).await.unwrap(), 0);
            assert_eq!(s.read(&mut b).await.unwrap(), 0);
        }
        for _ in 0..3 {
            let (c, s) = tokio::join!(TcpStream::connect("127.0.0.1:9000"), l.accept());
            let mut c = c.unwrap();
            let (mut s, _) = s.unwrap();
            let data = pattern(200_000);
            let d2 = data.clone();
            let w = async {
                c.write_all(&d2).await.unwrap();
                c.shutdown().await.unwrap();
                let mut back = Vec::new();
                c.read_to_end(&mut back).await.unwrap();
                back
            };
            let r = async {
                let mut got = Vec::new();
                let mut buf = vec![0u8; 65536];
                loop {
                    let n = s.read(&mut buf).await.unwrap();
                    if n == 0 {
                        break;
                    }
                    got.extend_from_slice(&buf[..n]);
                }
                s.write_all(&got).await.unwrap();
                s.shutdown().await.unwrap();
                got
            };
            let (back, got) = tokio::join!(w, r);
            assert_eq!(got, data);
            assert_eq!(back, data);
        }
    });
}
