//! Audit C06: seeded random-walk harness over per-packet fates
//! (deliver now / hold for up to d rounds / drop) against the real stack.

use std::cell::RefCell;
use std::future::Future;
use std::pin::Pin;
use std::rc::Rc;
use std::task::{Context, Poll};
use std::time::Duration;

use tokio::io::{AsyncReadExt, AsyncWriteExt};
use tokio::task::LocalSet;
use turmoil_net::shim::tokio::net::{TcpListener, TcpStream};
use turmoil_net::{HostId, KernelConfig, Net, Packet, Transport};

struct Scoped<F> {
    id: HostId,
    inner: Pin<Box<F>>,
}
impl<F: Future> Future for Scoped<F> {
    type Output = F::Output;
    fn poll(mut self: Pin<&mut Self>, cx: &mut Context<'_>) -> Poll<F::Output> {
        turmoil_net::set_current(self.id);
        self.inner.as_mut().poll(cx)
    }
}

#[derive(Clone, Copy, Debug)]
pub enum Fate {
    Now,
    Hold(u32),
    Drop,
}

struct Rng(u64);
impl Rng {
    fn next(&mut self) -> u64 {
        self.0 ^= self.0 << 13;
        self.0 ^= self.0 >> 7;
        self.0 ^= self.0 << 17;
        self.0
    }
    fn below(&mut self, n: u64) -> u64 {
        self.next() % n
    }
}

fn describe(p: &Packet) -> String {
    match &p.payload {
        Transport::Tcp(s) => format!(
            "{}:{}->{}:{} seq={:x} ack={:x} [{}{}{}{}] wnd={} len={}",
            p.src,
            s.src_port,
            p.dst,
            s.dst_port,
            s.seq,
            s.ack,
            if s.flags.syn { "S" } else { "" },
            if s.flags.ack { "A" } else { "" },
            if s.flags.fin { "F" } else { "" },
            if s.flags.rst { "R" } else { "" },
            s.window,
            s.payload.len()
        ),
        _ => "udp".into(),
    }
}

#[derive(Debug, Default, Clone)]
struct SideResult {
    read: Vec<u8>,
    eof: bool,
    err: Option<String>,
    done: bool,
}

struct Params {
    seed: u64,
    cap_recv: usize,
    cap_send: usize,
    mtu: u32,
    c2s: usize,
    s2c: usize,
    wchunk: usize,
    rbuf: usize,
    max_hold: u32,
    max_drops: u32,
    drop_pct: u64,
    hold_pct: u64,
    /// never drop a pure ACK (known: a lost window update stalls for ever)
    protect_pure_acks: bool,
    /// never drop a window update (pure ACK repeating the previous ack number
    /// of that host with a larger window)
    protect_window_updates: bool,
    /// max app-level pause (ms) before each read / after each write chunk
    rpause: u64,
    wpause: u64,
    /// run the tasks between individual packet deliveries
    fine: bool,
}

fn pattern(n: usize, salt: u8) -> Vec<u8> {
    (0..n).map(|i| (i as u8).wrapping_mul(31).wrapping_add(salt)).collect()
}

#[allow(clippy::too_many_arguments)]
async fn pump(
    mut s: TcpStream,
    out: Vec<u8>,
    wchunk: usize,
    rbuf: usize,
    res: Rc<RefCell<SideResult>>,
    rpause: u64,
    wpause: u64,
    salt: u64,
) {
    let mut prng = Rng(salt | 1);
    let mut wrng = Rng((salt ^ 0xABCDEF) | 1);
    {
    let (mut rd, mut wr) = s.split();
    let w = async {
        for c in out.chunks(wchunk.max(1)) {
            wr.write_all(c).await?;
            if wpause > 0 {
                let d = wrng.below(wpause + 1);
                if d > 0 {
                    tokio::time::sleep(Duration::from_millis(d)).await;
                }
            }
        }
        wr.shutdown().await?;
        Ok::<(), std::io::Error>(())
    };
    let r = async {
        let mut buf = vec![0u8; rbuf];
        loop {
            if rpause > 0 {
                let d = prng.below(rpause + 1);
                if d > 0 {
                    tokio::time::sleep(Duration::from_millis(d)).await;
                }
            }
            match rd.read(&mut buf).await {
                Ok(0) => {
                    res.borrow_mut().eof = true;
                    return Ok::<(), std::io::Error>(());
                }
                Ok(n) => res.borrow_mut().read.extend_from_slice(&buf[..n]),
                Err(e) => return Err(e),
            }
        }
    };
    let (a, b) = tokio::join!(w, r);
    if let Err(e) = a {
        res.borrow_mut().err = Some(format!("write: {e}"));
    }
    if let Err(e) = b {
        res.borrow_mut().err = Some(format!("read: {e}"));
    }
    }
    res.borrow_mut().done = true;
    // keep the stream alive a little so the close handshake is clean
    drop(s);
}

/// Returns Err(description) on a violation.
fn run(p: &Params, trace_on_fail: bool) -> Result<(), String> {
    let cfg = KernelConfig::default()
        .recv_buf_cap(p.cap_recv)
        .send_buf_cap(p.cap_send)
        .mtu(p.mtu);
    let mut net = Net::with_config(cfg);
    let sid = net.add_host("server");
    let cid = net.add_host("client");
    let guard = net.enter();
    let rt = tokio::runtime::Builder::new_current_thread()
        .enable_time()
        .start_paused(true)
        .build()
        .unwrap();

    let c2s = pattern(p.c2s, 7);
    let s2c = pattern(p.s2c, 99);
    let sres = Rc::new(RefCell::new(SideResult::default()));
    let cres = Rc::new(RefCell::new(SideResult::default()));
    let trace: Rc<RefCell<Vec<String>>> = Rc::new(RefCell::new(Vec::new()));

    let mut rng = Rng(p.seed.wrapping_mul(0x9E3779B97F4A7C15) | 1);
    let mut drops = 0u32;
    let mut hung = false;

    {
        let sres = sres.clone();
        let cres = cres.clone();
        let s2c_d = s2c.clone();
        let c2s_d = c2s.clone();
        let (wchunk, rbuf, rpause, wpause, seed) = (p.wchunk, p.rbuf, p.rpause, p.wpause, p.seed);
        let trace = trace.clone();
        let g = &guard;
        rt.block_on(async {
            let set = LocalSet::new();
            let sres2 = sres.clone();
            let sh = set.spawn_local(Scoped {
                id: sid,
                inner: Box::pin(async move {
                    let l = TcpListener::bind("0.0.0.0:9000").await.unwrap();
                    match l.accept().await {
                        Ok((s, _)) => pump(s, s2c_d, wchunk, rbuf, sres2, rpause, wpause, seed.wrapping_mul(77) + 5).await,
                        Err(e) => sres2.borrow_mut().err = Some(format!("accept: {e}")),
                    }
                }),
            });
            let cres2 = cres.clone();
            let ch = set.spawn_local(Scoped {
                id: cid,
                inner: Box::pin(async move {
                    match TcpStream::connect("server:9000").await {
                        Ok(s) => pump(s, c2s_d, wchunk, rbuf, cres2, rpause, wpause, seed.wrapping_mul(131) + 9).await,
                        Err(e) => {
                            let mut r = cres2.borrow_mut();
                            r.err = Some(format!("connect: {e}"));
                            r.done = true;
                        }
                    }
                }),
            });

            let mut held: Vec<(u32, u64, Packet)> = Vec::new();
            let mut last: std::collections::HashMap<std::net::IpAddr, (u32, u16)> = Default::default();
            let mut seqno = 0u64;
            let mut out = Vec::new();
            let mut round = 0u32;
            let mut idle_after_done = 0;
            loop {
                set.run_until(tokio::time::sleep(Duration::from_millis(1))).await;
                round += 1;
                // release held
                held.sort_by_key(|(r, s, _)| (*r, *s));
                let mut i = 0;
                while i < held.len() {
                    if held[i].0 <= round {
                        let (_, _, pkt) = held.remove(i);
                        trace.borrow_mut().push(format!("r{round} RELEASE {}", describe(&pkt)));
                        g.deliver(pkt);
                    } else {
                        i += 1;
                    }
                }
                g.egress_all(&mut out);
                for pkt in out.drain(..) {
                    let roll = rng.below(100);
                    let pure_ack = match &pkt.payload {
                        Transport::Tcp(t) => {
                            t.payload.is_empty() && !t.flags.syn && !t.flags.fin && !t.flags.rst
                        }
                        _ => false,
                    };
                    let mut is_update = false;
                    if let Transport::Tcp(t) = &pkt.payload {
                        let e = last.entry(pkt.src).or_insert((0u32, 0u16));
                        if pure_ack && t.ack == e.0 && t.window > e.1 {
                            is_update = true;
                        }
                        *e = (t.ack, t.window);
                    }
                    let may_drop = !(p.protect_pure_acks && pure_ack)
                        && !(p.protect_window_updates && is_update);
                    let fate = if roll < p.drop_pct && drops < p.max_drops && may_drop {
                        drops += 1;
                        Fate::Drop
                    } else if roll < p.drop_pct + p.hold_pct && p.max_hold > 0 {
                        Fate::Hold(1 + rng.below(p.max_hold as u64) as u32)
                    } else {
                        Fate::Now
                    };
                    trace
                        .borrow_mut()
                        .push(format!("r{round} {:?} {}", fate, describe(&pkt)));
                    match fate {
                        Fate::Now => {
                            g.deliver(pkt);
                            if p.fine {
                                set.run_until(async {
                                    tokio::task::yield_now().await;
                                    tokio::task::yield_now().await;
                                })
                                .await;
                            }
                        }
                        Fate::Hold(d) => {
                            seqno += 1;
                            held.push((round + d, seqno, pkt));
                        }
                        Fate::Drop => {}
                    }
                }
                if sh.is_finished() && ch.is_finished() {
                    idle_after_done += 1;
                    if idle_after_done > 5 {
                        break;
                    }
                }
                if round > 3000 + 60 * (p.c2s + p.s2c) as u32 {
                    hung = true;
                    break;
                }
            }
        });
    }
    drop(guard);

    let s = sres.borrow().clone();
    let c = cres.borrow().clone();
    let mut problems = Vec::new();
    if !c2s.starts_with(&s.read) {
        problems.push(format!("server read not a prefix (len {})", s.read.len()));
    }
    if !s2c.starts_with(&c.read) {
        problems.push(format!("client read not a prefix (len {})", c.read.len()));
    }
    if hung {
        problems.push(format!(
            "HANG: server done={} read={}/{} eof={} err={:?}; client done={} read={}/{} eof={} err={:?}",
            s.done, s.read.len(), c2s.len(), s.eof, s.err, c.done, c.read.len(), s2c.len(), c.eof, c.err
        ));
    } else {
        if s.err.is_some() || c.err.is_some() {
            problems.push(format!("ERROR: server {:?} client {:?}", s.err, c.err));
        }
        if s.read.len() != c2s.len() || !s.eof {
            problems.push(format!("server incomplete {}/{} eof={}", s.read.len(), c2s.len(), s.eof));
        }
        if c.read.len() != s2c.len() || !c.eof {
            problems.push(format!("client incomplete {}/{} eof={}", c.read.len(), s2c.len(), c.eof));
        }
    }
    if problems.is_empty() {
        Ok(())
    } else {
        let mut msg = format!("seed {} drops {} [rcv {} snd {} mtu {} c2s {} s2c {} wchunk {} hold {}]: {}", p.seed, drops, p.cap_recv, p.cap_send, p.mtu, p.c2s, p.s2c, p.wchunk, p.max_hold, problems.join("; "));
        if trace_on_fail {
            let t = trace.borrow();
            let n = t.len();
            msg.push_str("\n--- trace (first 120 / last 60) ---\n");
            for l in t.iter().take(400) {
                msg.push_str(l);
                msg.push('\n');
            }
            if n > 460 {
                msg.push_str("...\n");
            }
            for l in t.iter().skip(n.saturating_sub(60).max(400)) {
                msg.push_str(l);
                msg.push('\n');
            }
        }
        Err(msg)
    }
}

fn sweep(name: &str, mk: impl Fn(u64) -> Params, seeds: u64) {
    let mut fails = Vec::new();
    for seed in 1..=seeds {
        let p = mk(seed);
        if let Err(e) = run(&p, fails.is_empty()) {
            fails.push(e);
        }
    }
    if !fails.is_empty() {
        let first = fails[0].clone();
        let heads: Vec<String> = fails
            .iter()
            .map(|f| f.lines().next().unwrap().to_string())
            .collect();
        panic!(
            "{name}: {} / {} seeds failed\n{}\n\nFIRST:\n{}",
            fails.len(),
            seeds,
            heads.join("\n"),
            first
        );
    }
}

/// Delay + reorder only, no drops, reader buffer >= cap (so every read of a
/// full buffer re-advertises).
#[test]
fn delays_only_small_caps() {
    sweep(
        "delays_only_small_caps",
        |seed| Params {
            seed,
            cap_recv: 100,
            cap_send: 4096,
            mtu: 140,
            c2s: 300 + (seed as usize % 5) * 100,
            s2c: 0,
            wchunk: 1000,
            rbuf: 4096,
            max_hold: 6,
            max_drops: 0,
            drop_pct: 0,
            hold_pct: 40,
            protect_pure_acks: false,
            protect_window_updates: false,
            rpause: 0,
            wpause: 0,
            fine: false,
        },
        300,
    );
}

/// Delay + reorder only, default caps.
#[test]
fn delays_only_default_caps() {
    sweep(
        "delays_only_default_caps",
        |seed| Params {
            seed,
            cap_recv: 64 * 1024,
            cap_send: 64 * 1024,
            mtu: 1500,
            c2s: 5000 + (seed as usize % 7) * 1000,
            s2c: 3000,
            wchunk: 700,
            rbuf: 64 * 1024,
            max_hold: 6,
            max_drops: 0,
            drop_pct: 0,
            hold_pct: 40,
            protect_pure_acks: false,
            protect_window_updates: false,
            rpause: 0,
            wpause: 0,
            fine: false,
        },
        300,
    );
}

/// Drops (<= 3 total) + delays, default caps so windows never close.
#[test]
fn drops_default_caps() {
    sweep(
        "drops_default_caps",
        |seed| Params {
            seed,
            cap_recv: 64 * 1024,
            cap_send: 64 * 1024,
            mtu: 1500,
            c2s: 5000 + (seed as usize % 7) * 1000,
            s2c: 3000,
            wchunk: 700,
            rbuf: 64 * 1024,
            max_hold: 2,
            max_drops: 3,
            drop_pct: 10,
            hold_pct: 30,
            protect_pure_acks: false,
            protect_window_updates: false,
            rpause: 0,
            wpause: 0,
            fine: false,
        },
        500,
    );
}

fn pick<T: Copy>(seed: u64, salt: u64, xs: &[T]) -> T {
    let mut r = Rng((seed ^ (salt.wrapping_mul(0xD6E8FEB86659FD93))).wrapping_mul(0x9E3779B97F4A7C15) | 1);
    r.next();
    r.next();
    xs[(r.next() % xs.len() as u64) as usize]
}

/// Everything varied; delays + reorder only.
#[test]
fn delays_only_varied() {
    sweep(
        "delays_only_varied",
        |seed| {
            let cap_recv = pick(seed, 1, &[1usize, 7, 37, 100, 250, 1000]);
            Params {
                seed,
                cap_recv,
                cap_send: pick(seed, 2, &[1usize, 50, 100, 4096]),
                mtu: pick(seed, 3, &[41u32, 60, 140, 1500]),
                c2s: pick(seed, 4, &[0usize, 1, 99, 100, 101, 333, 700]),
                s2c: pick(seed, 5, &[0usize, 1, 100, 250, 600]),
                wchunk: pick(seed, 6, &[1usize, 33, 100, 1000]),
                rbuf: cap_recv.max(64),
                max_hold: pick(seed, 7, &[1u32, 3, 6]),
                max_drops: 0,
                drop_pct: 0,
                hold_pct: pick(seed, 8, &[10u64, 40, 80]),
                protect_pure_acks: false,
            protect_window_updates: false,
            rpause: 0,
            wpause: 0,
            fine: false,
            }
        },
        3000,
    );
}

/// Everything varied; up to 3 drops of sequence-occupying packets + short delays.
#[test]
fn drops_varied() {
    sweep(
        "drops_varied",
        |seed| {
            let cap_recv = pick(seed, 1, &[1usize, 7, 37, 100, 250, 1000]);
            Params {
                seed,
                cap_recv,
                cap_send: pick(seed, 2, &[1usize, 50, 100, 4096]),
                mtu: pick(seed, 3, &[41u32, 60, 140, 1500]),
                c2s: pick(seed, 4, &[0usize, 1, 99, 100, 101, 333, 700]),
                s2c: pick(seed, 5, &[0usize, 1, 100, 250, 600]),
                wchunk: pick(seed, 6, &[1usize, 33, 100, 1000]),
                rbuf: cap_recv.max(64),
                max_hold: pick(seed, 7, &[0u32, 1, 2]),
                max_drops: pick(seed, 9, &[1u32, 2, 3]),
                drop_pct: pick(seed, 10, &[5u64, 20, 50]),
                hold_pct: pick(seed, 8, &[0u64, 20, 50]),
                protect_pure_acks: true,
                protect_window_updates: false,
            rpause: 0,
            wpause: 0,
            fine: false,
            }
        },
        3000,
    );
}

/// Everything varied; up to 3 drops of anything but window updates + short delays.
#[test]
fn drops_any_but_updates() {
    sweep(
        "drops_any_but_updates",
        |seed| {
            let cap_recv = pick(seed, 1, &[1usize, 7, 37, 100, 250, 1000]);
            Params {
                seed,
                cap_recv,
                cap_send: pick(seed, 2, &[1usize, 50, 100, 4096]),
                mtu: pick(seed, 3, &[41u32, 60, 140, 1500]),
                c2s: pick(seed, 4, &[0usize, 1, 99, 100, 101, 333, 700]),
                s2c: pick(seed, 5, &[0usize, 1, 100, 250, 600]),
                wchunk: pick(seed, 6, &[1usize, 33, 100, 1000]),
                rbuf: cap_recv.max(64),
                max_hold: pick(seed, 7, &[0u32, 1, 2]),
                max_drops: pick(seed, 9, &[1u32, 2, 3]),
                drop_pct: pick(seed, 10, &[5u64, 20, 50]),
                hold_pct: pick(seed, 8, &[0u64, 20, 50]),
                protect_pure_acks: false,
                protect_window_updates: true,
                rpause: 0,
                wpause: 0,
                fine: false,
            }
        },
        3000,
    );
}

/// App-level pacing (slow readers / bursty writers), delays + reorder only.
fn paced_delays_params(seed: u64) -> Params {
    (|seed| {
            let cap_recv = pick(seed, 1, &[1usize, 7, 37, 100, 250, 1000, 65536]);
            Params {
                seed,
                cap_recv,
                cap_send: pick(seed, 2, &[1usize, 50, 100, 4096]),
                mtu: pick(seed, 3, &[41u32, 60, 140, 1500]),
                c2s: pick(seed, 4, &[0usize, 1, 99, 100, 101, 333, 700]),
                s2c: pick(seed, 5, &[0usize, 1, 100, 250, 600]),
                wchunk: pick(seed, 6, &[1usize, 33, 100, 1000]),
                rbuf: cap_recv.max(64),
                max_hold: pick(seed, 7, &[0u32, 1, 3, 6]),
                max_drops: 0,
                drop_pct: 0,
                hold_pct: pick(seed, 8, &[0u64, 10, 40, 80]),
                protect_pure_acks: false,
                protect_window_updates: false,
                rpause: pick(seed, 11, &[0u64, 2, 7, 25]),
                wpause: pick(seed, 12, &[0u64, 2, 7, 25]),
                fine: pick(seed, 13, &[false, true]),
            }
        })(seed)
}

#[test]
fn paced_delays_only() {
    sweep("paced_delays_only", paced_delays_params, 3000);
}

#[test]
fn single() {
    let Ok(seed) = std::env::var("AUDIT_SEED") else { return };
    let p = if std::env::var("AUDIT_KIND").as_deref() == Ok("drops") {
        paced_drops_params(seed.parse().unwrap())
    } else {
        paced_delays_params(seed.parse().unwrap())
    };
    match run(&p, true) {
        Ok(()) => println!("seed ok"),
        Err(e) => {
            // full trace
            println!("{e}");
            panic!("failed");
        }
    }
}


/// App-level pacing + drops (window updates protected).
fn paced_drops_params(seed: u64) -> Params {
    (|seed| {
            let cap_recv = pick(seed, 1, &[1usize, 7, 37, 100, 250, 1000, 65536]);
            Params {
                seed,
                cap_recv,
                cap_send: pick(seed, 2, &[1usize, 50, 100, 4096]),
                mtu: pick(seed, 3, &[41u32, 60, 140, 1500]),
                c2s: pick(seed, 4, &[0usize, 1, 99, 100, 101, 333, 700]),
                s2c: pick(seed, 5, &[0usize, 1, 100, 250, 600]),
                wchunk: pick(seed, 6, &[1usize, 33, 100, 1000]),
                rbuf: cap_recv.max(64),
                max_hold: pick(seed, 7, &[0u32, 1, 2]),
                max_drops: pick(seed, 9, &[1u32, 2, 3, 4]),
                drop_pct: pick(seed, 10, &[5u64, 20, 50]),
                hold_pct: pick(seed, 8, &[0u64, 20, 50]),
                protect_pure_acks: false,
                protect_window_updates: true,
                rpause: pick(seed, 11, &[0u64, 2, 7, 25]),
                wpause: pick(seed, 12, &[0u64, 2, 7, 25]),
                fine: pick(seed, 13, &[false, true]),
            }
        })(seed)
}

#[test]
fn paced_drops() {
    sweep("paced_drops", paced_drops_params, 3000);
}

