//! Audit C06 / H5: end-to-end through fixture::ClientServer with a latency rule
//! and small receive caps.
use std::time::Duration;

use tokio::io::{AsyncReadExt, AsyncWriteExt};
use turmoil_net::fixture::ClientServer;
use turmoil_net::shim::tokio::net::{TcpListener, TcpStream};
use turmoil_net::{KernelConfig, Latency, Packet, Transport, Verdict};

fn pattern(n: usize) -> Vec<u8> {
    (0..n).map(|i| (i as u8).wrapping_mul(31).wrapping_add(7)).collect()
}

fn case(lat_ms: u64, jitter: bool, cap: usize, mtu: u32, n: usize) -> Result<(), String> {
    let cfg = KernelConfig::default().recv_buf_cap(cap).mtu(mtu);
    let r = std::panic::catch_unwind(move || {
        ClientServer::with_config(cfg)
            .server("server", async move {
                let l = TcpListener::bind("0.0.0.0:9000").await.unwrap();
                let (mut s, _) = l.accept().await.unwrap();
                let mut got = Vec::new();
                let mut buf = vec![0u8; 65536];
                loop {
                    match s.read(&mut buf).await {
                        Ok(0) => break,
                        Ok(k) => got.extend_from_slice(&buf[..k]),
                        Err(e) => {
                            let _ = e;
                            return;
                        }
                    }
                }
                let ok = got == pattern(n);
                let _ = s.write_all(if ok { b"ok" } else { b"no" }).await;
                let _ = s.shutdown().await;
                tokio::time::sleep(Duration::from_secs(5)).await;
            })
            .run("client", async move {
                if jitter {
                    let mut i = 0u64;
                    turmoil_net::rule(move |_p: &Packet| {
                        i += 1;
                        Verdict::Deliver(Duration::from_millis((i * 7919) % (lat_ms + 1)))
                    })
                    .forget();
                } else {
                    turmoil_net::rule(Latency::fixed(Duration::from_millis(lat_ms))).forget();
                }
                let fut = async {
                    let mut s = TcpStream::connect("server:9000")
                        .await
                        .map_err(|e| format!("connect {e}"))?;
                    s.write_all(&pattern(n)).await.map_err(|e| format!("write {e}"))?;
                    s.shutdown().await.map_err(|e| format!("shutdown {e}"))?;
                    let mut got = Vec::new();
                    let mut buf = vec![0u8; 65536];
                    loop {
                        match s.read(&mut buf).await {
                            Ok(0) => break,
                            Ok(k) => got.extend_from_slice(&buf[..k]),
                            Err(e) => return Err(format!("read {e}")),
                        }
                    }
                    if got == b"ok" {
                        Ok(())
                    } else {
                        Err(format!("reply {:?}", got))
                    }
                };
                match tokio::time::timeout(Duration::from_secs(60), fut).await {
                    Ok(r) => r,
                    Err(_) => Err("HANG (60 s virtual)".to_string()),
                }
            })
    });
    match r {
        Ok(r) => r,
        Err(_) => Err("panic".into()),
    }
}

#[test]
fn latency_matrix() {
    let mut fails = Vec::new();
    for jitter in [false, true] {
        for lat in 0..=8u64 {
            for (cap, mtu) in [(100usize, 140u32), (250, 140), (1000, 140), (100, 1500), (65536, 1500)] {
                for n in [100usize, 300, 1000, 5000] {
                    if let Err(e) = case(lat, jitter, cap, mtu, n) {
                        fails.push(format!("jitter={jitter} lat={lat} cap={cap} mtu={mtu} n={n}: {e}"));
                    }
                }
            }
        }
    }
    assert!(fails.is_empty(), "{} failures\n{}", fails.len(), fails.join("\n"));
}
