//! Audit C06 / H4: k = 1..=5 consecutive drops of each packet kind are survived
//! (default caps, no delays).

use std::cell::RefCell;
use std::future::Future;
use std::pin::Pin;
use std::rc::Rc;
use std::task::{Context, Poll};
use std::time::Duration;

use tokio::io::{AsyncReadExt, AsyncWriteExt};
use tokio::task::LocalSet;
use turmoil_net::shim::tokio::net::{TcpListener, TcpStream};
use turmoil_net::{HostId, KernelConfig, Net, Packet, Transport};

struct Scoped<F> {
    id: HostId,
    inner: Pin<Box<F>>,
}
impl<F: Future> Future for Scoped<F> {
    type Output = F::Output;
    fn poll(mut self: Pin<&mut Self>, cx: &mut Context<'_>) -> Poll<F::Output> {
        turmoil_net::set_current(self.id);
        self.inner.as_mut().poll(cx)
    }
}

#[derive(Clone, Copy, Debug, PartialEq)]
enum Fate {
    Now,
    Hold(u32),
    Drop,
}

fn describe(p: &Packet) -> String {
    match &p.payload {
        Transport::Tcp(s) => format!(
            "{}:{}->{}:{} seq={:x} ack={:x} [{}{}{}{}] wnd={} len={}",
            p.src,
            s.src_port,
            p.dst,
            s.dst_port,
            s.seq,
            s.ack,
            if s.flags.syn { "S" } else { "" },
            if s.flags.ack { "A" } else { "" },
            if s.flags.fin { "F" } else { "" },
            if s.flags.rst { "R" } else { "" },
            s.window,
            s.payload.len()
        ),
        _ => "udp".into(),
    }
}

/// The client's first data byte: ISN 0x0100_0000 + 1 (deterministic).
const BASE: u32 = 0x0100_0001;
const CLIENT_PORT_TO: u16 = 9000;

struct Outcome {
    server: Result<Vec<u8>, String>,
    client: Result<Vec<u8>, String>,
    hung: bool,
    drops: u32,
    trace: Vec<String>,
}

/// Drive a two-host Net with a per-packet fate policy -- the harness of the
/// property: deliver now / keep in flight for d egress rounds / drop.
fn drive<S, C>(
    cfg: KernelConfig,
    server: S,
    client: C,
    mut policy: impl FnMut(&Packet) -> Fate,
) -> Outcome
where
    S: Future<Output = Result<Vec<u8>, String>> + 'static,
    C: Future<Output = Result<Vec<u8>, String>> + 'static,
{
    let mut net = Net::with_config(cfg);
    let sid = net.add_host("server");
    let cid = net.add_host("client");
    let guard = net.enter();
    let rt = tokio::runtime::Builder::new_current_thread()
        .enable_time()
        .start_paused(true)
        .build()
        .unwrap();
    let trace = Rc::new(RefCell::new(Vec::new()));
    let mut drops = 0;
    let mut hung = false;
    let g = &guard;
    let t = trace.clone();
    let (sres, cres) = rt.block_on(async {
        let set = LocalSet::new();
        let mut sh = set.spawn_local(Scoped { id: sid, inner: Box::pin(server) });
        let mut ch = set.spawn_local(Scoped { id: cid, inner: Box::pin(client) });
        let mut held: Vec<(u32, u64, Packet)> = Vec::new();
        let mut n = 0u64;
        let mut out = Vec::new();
        let mut round = 0u32;
        loop {
            set.run_until(tokio::time::sleep(Duration::from_millis(1))).await;
            round += 1;
            held.sort_by_key(|(r, s, _)| (*r, *s));
            while !held.is_empty() && held[0].0 <= round {
                let (_, _, pkt) = held.remove(0);
                t.borrow_mut().push(format!("r{round} RELEASE {}", describe(&pkt)));
                g.deliver(pkt);
            }
            g.egress_all(&mut out);
            for pkt in out.drain(..) {
                let fate = policy(&pkt);
                t.borrow_mut().push(format!("r{round} {:?} {}", fate, describe(&pkt)));
                match fate {
                    Fate::Now => g.deliver(pkt),
                    Fate::Hold(d) => {
                        n += 1;
                        held.push((round + d, n, pkt));
                    }
                    Fate::Drop => drops += 1,
                }
            }
            if sh.is_finished() && ch.is_finished() {
                break;
            }
            if round > 400 {
                hung = true;
                break;
            }
        }
        let s = if sh.is_finished() { (&mut sh).await.unwrap() } else { Err("server still waiting".into()) };
        let c = if ch.is_finished() { (&mut ch).await.unwrap() } else { Err("client still waiting".into()) };
        (s, c)
    });
    drop(guard);
    let trace = trace.borrow().clone();
    Outcome { server: sres, client: cres, hung, drops, trace }
}

fn pattern(n: usize) -> Vec<u8> {
    (0..n).map(|i| (i as u8).wrapping_mul(31).wrapping_add(7)).collect()
}

fn is_c2s(p: &Packet) -> Option<&turmoil_net::TcpSegment> {
    match &p.payload {
        Transport::Tcp(s) if s.dst_port == CLIENT_PORT_TO => Some(s),
        _ => None,
    }
}
fn is_s2c(p: &Packet) -> Option<&turmoil_net::TcpSegment> {
    match &p.payload {
        Transport::Tcp(s) if s.src_port == CLIENT_PORT_TO => Some(s),
        _ => None,
    }
}

fn cfg() -> KernelConfig {
    KernelConfig::default()
}


#[derive(Clone, Copy, Debug, PartialEq)]
enum Kind {
    Syn,
    SynAck,
    HsAck,
    Data,
    AckOfData,
    FinC2S,
    FinS2C,
    AckOfFinC2S,
    AckOfFinS2C,
    ReplyData,
}

fn matches(kind: Kind, p: &Packet) -> bool {
    let Transport::Tcp(s) = &p.payload else { return false };
    let c2s = s.dst_port == 9000;
    let pure = s.payload.is_empty() && !s.flags.syn && !s.flags.fin && !s.flags.rst;
    match kind {
        Kind::Syn => c2s && s.flags.syn && !s.flags.ack,
        Kind::SynAck => !c2s && s.flags.syn && s.flags.ack,
        Kind::HsAck => c2s && pure && s.seq == BASE && s.ack == BASE,
        Kind::Data => c2s && !s.payload.is_empty() && s.seq == BASE,
        Kind::AckOfData => !c2s && pure && s.ack == BASE + 100,
        Kind::FinC2S => c2s && s.flags.fin,
        Kind::FinS2C => !c2s && s.flags.fin,
        Kind::AckOfFinC2S => !c2s && pure && s.ack == BASE + 101,
        Kind::AckOfFinS2C => c2s && pure && s.ack == BASE + 51,
        Kind::ReplyData => !c2s && !s.payload.is_empty(),
    }
}

fn one(kind: Kind, k: u32, server_first: bool) -> Result<(), String> {
    let server = async move {
        let l = TcpListener::bind("0.0.0.0:9000").await.map_err(|e| e.to_string())?;
        let (mut s, _) = l.accept().await.map_err(|e| e.to_string())?;
        let mut got = Vec::new();
        let mut buf = vec![0u8; 4096];
        if server_first {
            s.write_all(&pattern(50)).await.map_err(|e| format!("server write: {e}"))?;
        }
        loop {
            let n = s.read(&mut buf).await.map_err(|e| format!("server read: {e}"))?;
            if n == 0 {
                break;
            }
            got.extend_from_slice(&buf[..n]);
        }
        if !server_first {
            s.write_all(&pattern(50)).await.map_err(|e| format!("server write: {e}"))?;
        }
        s.shutdown().await.map_err(|e| format!("server shutdown: {e}"))?;
        Ok(got)
    };
    let client = async move {
        let mut s = TcpStream::connect("server:9000").await.map_err(|e| format!("connect: {e}"))?;
        let mut got = Vec::new();
        let mut buf = vec![0u8; 4096];
        if server_first {
            let mut b = [0u8; 50];
            s.read_exact(&mut b).await.map_err(|e| format!("client read_exact: {e}"))?;
            got.extend_from_slice(&b);
        }
        s.write_all(&pattern(100)).await.map_err(|e| format!("client write: {e}"))?;
        s.shutdown().await.map_err(|e| format!("client shutdown: {e}"))?;
        loop {
            let n = s.read(&mut buf).await.map_err(|e| format!("client read: {e}"))?;
            if n == 0 {
                break;
            }
            got.extend_from_slice(&buf[..n]);
        }
        Ok(got)
    };
    let mut dropped = 0;
    let o = drive(cfg(), server, client, move |p| {
        if dropped < k && matches(kind, p) {
            dropped += 1;
            return Fate::Drop;
        }
        Fate::Now
    });
    let ok = !o.hung
        && o.server.as_deref() == Ok(&pattern(100)[..])
        && o.client.as_deref() == Ok(&pattern(50)[..]);
    if ok {
        Ok(())
    } else {
        Err(format!(
            "{kind:?} x{k} server_first={server_first} drops={} hung={} server={:?} client={:?}\n{}",
            o.drops,
            o.hung,
            o.server.as_ref().map(|v| v.len()),
            o.client.as_ref().map(|v| v.len()),
            o.trace.join("\n")
        ))
    }
}

#[test]
fn every_kind_survives_up_to_retx_max_drops() {
    let mut fails = Vec::new();
    for server_first in [false, true] {
        for kind in [
            Kind::Syn,
            Kind::SynAck,
            Kind::HsAck,
            Kind::Data,
            Kind::AckOfData,
            Kind::FinC2S,
            Kind::FinS2C,
            Kind::AckOfFinC2S,
            Kind::AckOfFinS2C,
            Kind::ReplyData,
        ] {
            for k in 1..=5 {
                if let Err(e) = one(kind, k, server_first) {
                    fails.push(e);
                }
            }
        }
    }
    if !fails.is_empty() {
        let heads: Vec<&str> = fails.iter().map(|f| f.lines().next().unwrap()).collect();
        panic!("{} failures\n{}\n\nFIRST\n{}", fails.len(), heads.join("\n"), fails[0]);
    }
}
