//! Audit C06 / F1: an ACK that covers bytes beyond a go-back-N rewound
//! `snd_nxt` is discarded, so a sender that fell behind its receiver by more
//! than one window never catches up and aborts with TimedOut although every
//! byte was delivered.

use std::cell::RefCell;
use std::future::Future;
use std::pin::Pin;
use std::rc::Rc;
use std::task::{Context, Poll};
use std::time::Duration;

use tokio::io::{AsyncReadExt, AsyncWriteExt};
use tokio::task::LocalSet;
use turmoil_net::shim::tokio::net::{TcpListener, TcpStream};
use turmoil_net::{HostId, KernelConfig, Net, Packet, Transport};

struct Scoped<F> {
    id: HostId,
    inner: Pin<Box<F>>,
}
impl<F: Future> Future for Scoped<F> {
    type Output = F::Output;
    fn poll(mut self: Pin<&mut Self>, cx: &mut Context<'_>) -> Poll<F::Output> {
        turmoil_net::set_current(self.id);
        self.inner.as_mut().poll(cx)
    }
}

#[derive(Clone, Copy, Debug, PartialEq)]
enum Fate {
    Now,
    Hold(u32),
    Drop,
}

fn describe(p: &Packet) -> String {
    match &p.payload {
        Transport::Tcp(s) => format!(
            "{}:{}->{}:{} seq={:x} ack={:x} [{}{}{}{}] wnd={} len={}",
            p.src,
            s.src_port,
            p.dst,
            s.dst_port,
            s.seq,
            s.ack,
            if s.flags.syn { "S" } else { "" },
            if s.flags.ack { "A" } else { "" },
            if s.flags.fin { "F" } else { "" },
            if s.flags.rst { "R" } else { "" },
            s.window,
            s.payload.len()
        ),
        _ => "udp".into(),
    }
}

/// The client's first data byte: ISN 0x0100_0000 + 1 (deterministic).
const BASE: u32 = 0x0100_0001;
const CLIENT_PORT_TO: u16 = 9000;

struct Outcome {
    server: Result<Vec<u8>, String>,
    client: Result<Vec<u8>, String>,
    hung: bool,
    drops: u32,
    trace: Vec<String>,
}

/// Drive a two-host Net with a per-packet fate policy -- the harness of the
/// property: deliver now / keep in flight for d egress rounds / drop.
fn drive<S, C>(
    cfg: KernelConfig,
    server: S,
    client: C,
    mut policy: impl FnMut(&Packet) -> Fate,
) -> Outcome
where
    S: Future<Output = Result<Vec<u8>, String>> + 'static,
    C: Future<Output = Result<Vec<u8>, String>> + 'static,
{
    let mut net = Net::with_config(cfg);
    let sid = net.add_host("server");
    let cid = net.add_host("client");
    let guard = net.enter();
    let rt = tokio::runtime::Builder::new_current_thread()
        .enable_time()
        .start_paused(true)
        .build()
        .unwrap();
    let trace = Rc::new(RefCell::new(Vec::new()));
    let mut drops = 0;
    let mut hung = false;
    let g = &guard;
    let t = trace.clone();
    let (sres, cres) = rt.block_on(async {
        let set = LocalSet::new();
        let mut sh = set.spawn_local(Scoped { id: sid, inner: Box::pin(server) });
        let mut ch = set.spawn_local(Scoped { id: cid, inner: Box::pin(client) });
        let mut held: Vec<(u32, u64, Packet)> = Vec::new();
        let mut n = 0u64;
        let mut out = Vec::new();
        let mut round = 0u32;
        loop {
            set.run_until(tokio::time::sleep(Duration::from_millis(1))).await;
            round += 1;
            held.sort_by_key(|(r, s, _)| (*r, *s));
            while !held.is_empty() && held[0].0 <= round {
                let (_, _, pkt) = held.remove(0);
                t.borrow_mut().push(format!("r{round} RELEASE {}", describe(&pkt)));
                g.deliver(pkt);
            }
            g.egress_all(&mut out);
            for pkt in out.drain(..) {
                let fate = policy(&pkt);
                t.borrow_mut().push(format!("r{round} {:?} {}", fate, describe(&pkt)));
                match fate {
                    Fate::Now => g.deliver(pkt),
                    Fate::Hold(d) => {
                        n += 1;
                        held.push((round + d, n, pkt));
                    }
                    Fate::Drop => drops += 1,
                }
            }
            if sh.is_finished() && ch.is_finished() {
                break;
            }
            if round > 400 {
                hung = true;
                break;
            }
        }
        let s = if sh.is_finished() { (&mut sh).await.unwrap() } else { Err("server still waiting".into()) };
        let c = if ch.is_finished() { (&mut ch).await.unwrap() } else { Err("client still waiting".into()) };
        (s, c)
    });
    drop(guard);
    let trace = trace.borrow().clone();
    Outcome { server: sres, client: cres, hung, drops, trace }
}

fn pattern(n: usize) -> Vec<u8> {
    (0..n).map(|i| (i as u8).wrapping_mul(31).wrapping_add(7)).collect()
}

fn is_c2s(p: &Packet) -> Option<&turmoil_net::TcpSegment> {
    match &p.payload {
        Transport::Tcp(s) if s.dst_port == CLIENT_PORT_TO => Some(s),
        _ => None,
    }
}
fn is_s2c(p: &Packet) -> Option<&turmoil_net::TcpSegment> {
    match &p.payload {
        Transport::Tcp(s) if s.src_port == CLIENT_PORT_TO => Some(s),
        _ => None,
    }
}

fn cfg() -> KernelConfig {
    // recv cap 100 bytes, MSS = 140 - 20 - 20 = 100 bytes.
    KernelConfig::default().recv_buf_cap(100).mtu(140)
}

/// Zero drops. The client writes 300 bytes and half-closes; the three data
/// segments and the FIN are spread over a few rounds, two ACKs (ack=+200) of
/// the server are overtaken by the later ones. The server takes 30 ms to
/// answer. Every packet is delivered within 5 rounds.
#[test]
fn no_loss_delays_only_client_times_out() {
    let server = async {
        let l = TcpListener::bind("0.0.0.0:9000").await.map_err(|e| e.to_string())?;
        let (mut s, _) = l.accept().await.map_err(|e| e.to_string())?;
        let mut got = Vec::new();
        let mut buf = vec![0u8; 4096];
        loop {
            let n = s.read(&mut buf).await.map_err(|e| format!("server read: {e}"))?;
            if n == 0 {
                break;
            }
            got.extend_from_slice(&buf[..n]);
        }
        // "processing"
        tokio::time::sleep(Duration::from_millis(30)).await;
        s.write_all(b"ok").await.map_err(|e| format!("server write: {e}"))?;
        s.shutdown().await.map_err(|e| format!("server shutdown: {e}"))?;
        // wait until the client closed
        tokio::time::sleep(Duration::from_millis(60)).await;
        Ok(got)
    };
    let client = async {
        let mut s = TcpStream::connect("server:9000").await.map_err(|e| e.to_string())?;
        s.write_all(&pattern(300)).await.map_err(|e| format!("client write: {e}"))?;
        s.shutdown().await.map_err(|e| format!("client shutdown: {e}"))?;
        let mut got = Vec::new();
        let mut buf = vec![0u8; 4096];
        loop {
            let n = s.read(&mut buf).await.map_err(|e| format!("client read: {e}"))?;
            if n == 0 {
                break;
            }
            got.extend_from_slice(&buf[..n]);
        }
        Ok(got)
    };
    let mut seen_seg2 = false;
    let mut seen_seg3 = false;
    let mut seen_fin = false;
    let o = drive(cfg(), server, client, move |p| {
        if let Some(s) = is_c2s(p) {
            if !s.payload.is_empty() && s.seq == BASE + 100 && !seen_seg2 {
                seen_seg2 = true;
                return Fate::Hold(2);
            }
            if !s.payload.is_empty() && s.seq == BASE + 200 && !seen_seg3 {
                seen_seg3 = true;
                return Fate::Hold(4);
            }
            if s.flags.fin && !seen_fin {
                seen_fin = true;
                return Fate::Hold(5);
            }
        }
        if let Some(s) = is_s2c(p) {
            if s.ack == BASE + 200 && s.payload.is_empty() && !s.flags.fin {
                return Fate::Hold(4);
            }
        }
        Fate::Now
    });
    let t = o.trace.join("\n");
    assert_eq!(o.drops, 0);
    assert_eq!(o.server.as_deref(), Ok(&pattern(300)[..]), "server side\n{t}");
    assert!(!o.hung, "hung\n{t}");
    assert_eq!(o.client.as_deref(), Ok(&b"ok"[..]), "client side\n{t}");
}

/// Two pure ACKs lost (ack=+200 with window 0 and its window update), data
/// segments spread over a few rounds. The client then wants to send 100 more
/// bytes after the server's answer.
#[test]
fn two_lost_acks_stall_the_sender_until_it_times_out() {
    let server = async {
        let l = TcpListener::bind("0.0.0.0:9000").await.map_err(|e| e.to_string())?;
        let (mut s, _) = l.accept().await.map_err(|e| e.to_string())?;
        let mut got = vec![0u8; 300];
        let mut off = 0;
        let mut buf = vec![0u8; 4096];
        while off < 300 {
            let n = s.read(&mut buf).await.map_err(|e| format!("server read: {e}"))?;
            if n == 0 {
                return Err(format!("early eof at {off}"));
            }
            got[off..off + n].copy_from_slice(&buf[..n]);
            off += n;
        }
        s.write_all(b"ok").await.map_err(|e| format!("server write: {e}"))?;
        loop {
            let n = s.read(&mut buf).await.map_err(|e| format!("server read 2: {e}"))?;
            if n == 0 {
                break;
            }
            got.extend_from_slice(&buf[..n]);
        }
        Ok(got)
    };
    let client = async {
        let mut s = TcpStream::connect("server:9000").await.map_err(|e| e.to_string())?;
        s.write_all(&pattern(400)[..300]).await.map_err(|e| format!("client write: {e}"))?;
        let mut got = [0u8; 2];
        s.read_exact(&mut got).await.map_err(|e| format!("client read: {e}"))?;
        s.write_all(&pattern(400)[300..]).await.map_err(|e| format!("client write 2: {e}"))?;
        s.shutdown().await.map_err(|e| format!("client shutdown: {e}"))?;
        let mut buf = [0u8; 16];
        let n = s.read(&mut buf).await.map_err(|e| format!("client read eof: {e}"))?;
        if n != 0 {
            return Err("unexpected bytes".into());
        }
        Ok(got.to_vec())
    };
    let mut seen_seg2 = false;
    let mut seen_seg3 = false;
    let mut dropped = 0;
    let o = drive(cfg(), server, client, move |p| {
        if let Some(s) = is_c2s(p) {
            if !s.payload.is_empty() && s.seq == BASE + 100 && !seen_seg2 {
                seen_seg2 = true;
                return Fate::Hold(2);
            }
            if !s.payload.is_empty() && s.seq == BASE + 200 && !seen_seg3 {
                seen_seg3 = true;
                return Fate::Hold(4);
            }
        }
        if let Some(s) = is_s2c(p) {
            if s.ack == BASE + 200 && s.payload.is_empty() && dropped < 2 {
                dropped += 1;
                return Fate::Drop;
            }
        }
        Fate::Now
    });
    let t = o.trace.join("\n");
    assert_eq!(o.drops, 2);
    assert!(!o.hung, "hung: server {:?} client {:?}\n{t}", o.server, o.client);
    assert_eq!(o.client.as_deref(), Ok(&b"ok"[..]), "client side\n{t}");
    assert_eq!(o.server.as_deref(), Ok(&pattern(400)[..]), "server side\n{t}");
}
