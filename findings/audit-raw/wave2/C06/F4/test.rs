//! Audit C06 / F4: no faults at all. A reader that drains its receive buffer
//! after both FINs were exchanged makes poll_recv emit a window update from
//! the (Closed) connection; the peer has legitimately forgotten the
//! connection and answers with RST; the RST is accepted on the Closed TCB,
//! wipes the still unread bytes and turns the clean EOF into
//! ConnectionReset.

use std::cell::RefCell;
use std::rc::Rc;
use std::time::Duration;

use tokio::io::{AsyncReadExt, AsyncWriteExt};
use turmoil_net::fixture::ClientServer;
use turmoil_net::shim::tokio::net::{TcpListener, TcpStream};
use turmoil_net::KernelConfig;

fn pattern(n: usize) -> Vec<u8> {
    (0..n).map(|i| (i as u8).wrapping_mul(31).wrapping_add(7)).collect()
}

fn scenario(cfg: KernelConfig, n: usize, rbuf: usize) -> Result<Vec<u8>, String> {
    let out: Rc<RefCell<Option<Result<Vec<u8>, String>>>> = Rc::new(RefCell::new(None));
    let out2 = out.clone();
    ClientServer::with_config(cfg)
        .server("server", async move {
            let l = TcpListener::bind("0.0.0.0:9000").await.unwrap();
            let (mut s, _) = l.accept().await.unwrap();
            // nothing to say: half-close at once, then take our time
            s.shutdown().await.unwrap();
            tokio::time::sleep(Duration::from_millis(50)).await;
            let mut got = Vec::new();
            let mut buf = vec![0u8; rbuf];
            let r = loop {
                match s.read(&mut buf).await {
                    Ok(0) => break Ok(got),
                    Ok(k) => got.extend_from_slice(&buf[..k]),
                    Err(e) => break Err(format!("after {} bytes: {e}", got.len())),
                }
                tokio::time::sleep(Duration::from_millis(5)).await;
            };
            *out2.borrow_mut() = Some(r);
        })
        .run("client", async move {
            let mut s = TcpStream::connect("server:9000").await.unwrap();
            s.write_all(&pattern(n)).await.unwrap();
            s.shutdown().await.unwrap();
            let mut b = [0u8; 8];
            assert_eq!(s.read(&mut b).await.unwrap(), 0, "server sends nothing");
            drop(s);
            tokio::time::sleep(Duration::from_millis(500)).await;
        });
    let r = out.borrow_mut().take();
    r.unwrap_or_else(|| Err("server still waiting".into()))
}

/// Default configuration, no rules: 60 000 bytes, reader buffer 40 000.
#[test]
fn slow_reader_after_close_default_caps() {
    let r = scenario(KernelConfig::default(), 60_000, 40_000);
    assert_eq!(r.as_ref().map(|v| v.len()), Ok(60_000), "{:?}", r.as_ref().map(|v| v.len()));
    assert_eq!(r.unwrap(), pattern(60_000));
}

/// Small cap: 100 bytes into a 100 byte buffer, reader buffer 60.
#[test]
fn slow_reader_after_close_small_caps() {
    let r = scenario(KernelConfig::default().recv_buf_cap(100), 100, 60);
    assert_eq!(r.as_ref().map(|v| v.len()), Ok(100), "{:?}", r.as_ref().map(|v| v.len()));
}
