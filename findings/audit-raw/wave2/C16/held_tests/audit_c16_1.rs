//! Audit C16 harness: drive two hosts by hand (Net::enter + egress_all /
//! deliver), tap every cross-host packet, and assert the buffer / MSS /
//! window invariants under random delay, reordering and bounded loss.

use std::cell::RefCell;
use std::collections::HashMap;
use std::future::Future;
use std::net::{IpAddr, SocketAddr};
use std::pin::Pin;
use std::rc::Rc;
use std::task::{Context, Poll};
use std::time::Duration;

use tokio::io::{AsyncReadExt, AsyncWriteExt};
use tokio::task::LocalSet;
use tokio::time::sleep;
use turmoil_net::shim::tokio::net::{TcpListener, TcpStream};
use turmoil_net::{
    netstat, set_current, HostId, KernelConfig, Net, NetstatState, Packet, Proto, Transport,
};

struct Rng(u64);
impl Rng {
    fn next(&mut self) -> u64 {
        self.0 ^= self.0 << 13;
        self.0 ^= self.0 >> 7;
        self.0 ^= self.0 << 17;
        self.0
    }
    fn below(&mut self, n: u64) -> u64 {
        self.next() % n
    }
}

struct Scoped<F> {
    id: HostId,
    inner: Pin<Box<F>>,
}
impl<F: Future> Future for Scoped<F> {
    type Output = F::Output;
    fn poll(mut self: Pin<&mut Self>, cx: &mut Context<'_>) -> Poll<F::Output> {
        set_current(self.id);
        self.inner.as_mut().poll(cx)
    }
}

#[derive(Default, Clone, Copy, Debug)]
struct Dir {
    /// Highest ack the sender of this direction has been *delivered*
    /// from its peer, and the window carried by that segment.
    ack: Option<u32>,
    wnd: u16,
    wnd_from_syn: bool,
}

#[derive(Default)]
struct Tap {
    /// keyed by (sender, receiver)
    dirs: HashMap<(SocketAddr, SocketAddr), Dir>,
    violations: Vec<String>,
    max_payload: usize,
    data_segments: usize,
    finished_at: Option<u64>,
    max_seq_seen: u32,
}

fn ip_hdr(ip: IpAddr) -> usize {
    if ip.is_ipv4() {
        20
    } else {
        40
    }
}

impl Tap {
    fn on_emit(&mut self, pkt: &Packet, mtu: u32) {
        match &pkt.payload {
            Transport::Tcp(s) => {
                let mss = (mtu as usize).saturating_sub(ip_hdr(pkt.src) + 20);
                if s.payload.len() > mss {
                    self.violations.push(format!(
                        "MSS: segment payload {} > mss {} ({} -> {})",
                        s.payload.len(),
                        mss,
                        pkt.src,
                        pkt.dst
                    ));
                }
                if !s.payload.is_empty() {
                    self.data_segments += 1;
                    self.max_seq_seen = self.max_seq_seen.max(s.seq);
                    self.max_payload = self.max_payload.max(s.payload.len());
                    let me = SocketAddr::new(pkt.src, s.src_port);
                    let peer = SocketAddr::new(pkt.dst, s.dst_port);
                    if let Some(d) = self.dirs.get(&(me, peer)) {
                        if let (Some(ack), false) = (d.ack, d.wnd_from_syn) {
                            let end = s.seq.wrapping_add(s.payload.len() as u32);
                            let in_flight = end.wrapping_sub(ack) as i32;
                            if in_flight > d.wnd as i32 {
                                self.violations.push(format!(
                                    "WINDOW: {me} -> {peer} seq {} len {} puts {} bytes past ack {} but last window was {}",
                                    s.seq,
                                    s.payload.len(),
                                    in_flight,
                                    ack,
                                    d.wnd
                                ));
                            }
                        }
                    }
                }
            }
            Transport::Udp(d) => {
                let max = (mtu as usize).saturating_sub(ip_hdr(pkt.dst) + 8);
                if d.payload.len() > max {
                    self.violations
                        .push(format!("UDP payload {} > {}", d.payload.len(), max));
                }
            }
        }
    }

    fn on_deliver(&mut self, pkt: &Packet) {
        if let Transport::Tcp(s) = &pkt.payload {
            if !s.flags.ack || s.flags.rst {
                return;
            }
            // The receiver of this packet is the *sender* of the
            // reverse direction.
            let me = SocketAddr::new(pkt.dst, s.dst_port);
            let peer = SocketAddr::new(pkt.src, s.src_port);
            let d = self.dirs.entry((me, peer)).or_default();
            let fresh = match d.ack {
                None => true,
                Some(a) => (s.ack.wrapping_sub(a) as i32) >= 0,
            };
            if fresh {
                d.ack = Some(s.ack);
                d.wnd = s.window;
                d.wnd_from_syn = s.flags.syn;
            }
        }
    }
}

#[derive(Clone, Copy, Debug)]
struct Scenario {
    seed: u64,
    mtu: u32,
    send_cap: usize,
    recv_cap: usize,
    v6: bool,
    max_delay_ms: u64,
    loss_pct: u64,
    total: usize,
    small_reads: bool,
    /// refused loopback connects to run first on both hosts: each one
    /// bumps the host's ISN counter by 0x1_0000.
    pre_bump: usize,
    ticks: usize,
}

async fn writer_reader(mut s: TcpStream, seed: u64, total: usize, small_reads: bool, cap: usize) {
    let (mut r, mut w) = s.split();
    let wr = async {
        let mut rng = Rng(seed | 1);
        let mut sent = 0usize;
        while sent < total {
            let n = match rng.below(4) {
                0 => 1,
                1 => 1 + rng.below(64) as usize,
                2 => 1 + rng.below(2000) as usize,
                _ => 1 + rng.below(100_000) as usize,
            }
            .min(total - sent);
            let buf: Vec<u8> = (0..n).map(|i| ((sent + i) % 251) as u8).collect();
            if w.write_all(&buf).await.is_err() {
                return;
            }
            sent += n;
            if rng.below(3) == 0 {
                sleep(Duration::from_millis(rng.below(5))).await;
            }
        }
    };
    let rd = async {
        let mut rng = Rng((seed ^ 0x9e37_79b9) | 1);
        let mut got = 0usize;
        while got < total {
            let n = if small_reads && rng.below(2) == 0 {
                1 + rng.below(16) as usize
            } else {
                cap.max(1) + rng.below(100) as usize
            };
            let mut buf = vec![0u8; n];
            match r.read(&mut buf).await {
                Ok(0) | Err(_) => return,
                Ok(k) => {
                    for (i, b) in buf[..k].iter().enumerate() {
                        assert_eq!(*b, ((got + i) % 251) as u8, "stream corrupted at {}", got + i);
                    }
                    got += k;
                }
            }
            if rng.below(3) == 0 {
                sleep(Duration::from_millis(rng.below(7))).await;
            }
        }
    };
    tokio::join!(wr, rd);
}

async fn bump(n: usize) {
    for _ in 0..n {
        let e = TcpStream::connect("127.0.0.1:1").await.unwrap_err();
        assert_eq!(e.kind(), std::io::ErrorKind::ConnectionRefused);
    }
}

fn run(sc: Scenario) -> (Vec<String>, usize, usize) {
    let cfg = KernelConfig::default()
        .mtu(sc.mtu)
        .send_buf_cap(sc.send_cap)
        .recv_buf_cap(sc.recv_cap);
    let mut net = Net::with_config(cfg);
    let (sip, cip): (IpAddr, IpAddr) = if sc.v6 {
        ("fd00::1".parse().unwrap(), "fd00::2".parse().unwrap())
    } else {
        ("10.0.0.1".parse().unwrap(), "10.0.0.2".parse().unwrap())
    };
    let sid = net.add_host(sip);
    let cid = net.add_host(cip);
    let guard = net.enter();
    let rt = tokio::runtime::Builder::new_current_thread()
        .enable_time()
        .start_paused(true)
        .build()
        .unwrap();
    let tap = Rc::new(RefCell::new(Tap::default()));
    let tap2 = tap.clone();
    let guard_ref = &guard;
    rt.block_on(async move {
        let set = LocalSet::new();
        let bind: SocketAddr = if sc.v6 {
            "[::]:9000".parse().unwrap()
        } else {
            "0.0.0.0:9000".parse().unwrap()
        };
        let sh = set.spawn_local(Scoped {
            id: sid,
            inner: Box::pin(async move {
                let l = TcpListener::bind(bind).await.unwrap();
                bump(sc.pre_bump).await;
                let (s, _) = l.accept().await.unwrap();
                writer_reader(s, sc.seed.wrapping_mul(3), sc.total, sc.small_reads, sc.recv_cap)
                    .await;
                sleep(Duration::from_millis(50)).await;
            }),
        });
        let ch = set.spawn_local(Scoped {
            id: cid,
            inner: Box::pin(async move {
                bump(sc.pre_bump).await;
                sleep(Duration::from_millis(20)).await;
                let Ok(s) = TcpStream::connect(SocketAddr::new(sip, 9000)).await else {
                    return;
                };
                writer_reader(s, sc.seed.wrapping_mul(7), sc.total, sc.small_reads, sc.recv_cap)
                    .await;
                sleep(Duration::from_millis(50)).await;
            }),
        });
        let mut rng = Rng(sc.seed | 1);
        let mut now = 0u64;
        let mut seqno = 0u64;
        let mut pending: Vec<(u64, u64, Packet)> = Vec::new();
        let mut out = Vec::new();
        for _tick in 0..sc.ticks {
            set.run_until(sleep(Duration::from_millis(1))).await;
            now += 1;
            pending.sort_by_key(|(t, s, _)| (*t, *s));
            let due = pending.iter().position(|(t, _, _)| *t > now).unwrap_or(pending.len());
            let ready: Vec<_> = pending.drain(..due).collect();
            for (_, _, p) in ready {
                tap2.borrow_mut().on_deliver(&p);
                guard_ref.deliver(p);
            }
            out.clear();
            guard_ref.egress_all(&mut out);
            for p in out.iter() {
                tap2.borrow_mut().on_emit(p, sc.mtu);
            }
            for p in out.drain(..) {
                let handshake = matches!(&p.payload, Transport::Tcp(s) if s.flags.syn);
                if !handshake && sc.loss_pct > 0 && rng.below(100) < sc.loss_pct {
                    continue;
                }
                let d = if sc.max_delay_ms == 0 || handshake {
                    0
                } else {
                    rng.below(sc.max_delay_ms + 1)
                };
                if d == 0 {
                    tap2.borrow_mut().on_deliver(&p);
                    guard_ref.deliver(p);
                } else {
                    pending.push((now + d, seqno, p));
                    seqno += 1;
                }
            }
            // queue depths
            for ip in [sip, cip] {
                for e in netstat(ip).entries {
                    if e.proto != Proto::Tcp || e.state == Some(NetstatState::Listen) {
                        continue;
                    }
                    if e.send_q > sc.send_cap {
                        tap2.borrow_mut().violations.push(format!(
                            "SENDQ {} > cap {} on {}",
                            e.send_q, sc.send_cap, e.local
                        ));
                    }
                    if e.recv_q > sc.recv_cap {
                        tap2.borrow_mut().violations.push(format!(
                            "RECVQ {} > cap {} on {}",
                            e.recv_q, sc.recv_cap, e.local
                        ));
                    }
                }
            }
            if sh.is_finished() && ch.is_finished() {
                tap2.borrow_mut().finished_at = Some(now);
                break;
            }
        }
    });
    drop(guard);
    let t = tap.borrow();
    if std::env::var("C16_VERBOSE").is_ok() {
        eprintln!("  finished_at={:?} max_seq_seen={:#x}", t.finished_at, t.max_seq_seen);
    }
    (t.violations.clone(), t.data_segments, t.max_payload)
}

#[test]
fn invariants_hold_across_configs() {
    let mut all = Vec::new();
    let mut seed = 1u64;
    for &v6 in &[false, true] {
        let mtus: &[u32] = if std::env::var("C16_FULL").is_ok() {
            &[41, 45, 61, 64, 100, 576, 1500, 9000]
        } else {
            &[61, 100, 1500]
        };
        for &mtu in mtus {
            for &(send_cap, recv_cap) in &[
                (1usize, 1usize),
                (1, 5000),
                (5000, 1),
                (10, 7),
                (100, 3000),
                (3000, 100),
                (1000, 1000),
                (65536, 65536),
                (200_000, 70_000),
                (70_000, 200_000),
            ] {
                for &(max_delay_ms, loss_pct) in &[(0u64, 0u64), (6, 0), (6, 5), (12, 15)] {
                    for &small_reads in &[false, true] {
                        seed += 1;
                        let sc = Scenario {
                            seed: seed.wrapping_mul(0x9E37_79B9_7F4A_7C15),
                            mtu,
                            send_cap,
                            recv_cap,
                            v6,
                            max_delay_ms,
                            loss_pct,
                            total: 20_000,
                            small_reads,
                            pre_bump: 0,
                            ticks: 4000,
                        };
                        let (v, segs, maxp) = run(sc);
                        if std::env::var("C16_VERBOSE").is_ok() {
                            eprintln!("{sc:?}: segs={segs} maxp={maxp} viol={}", v.len());
                        }
                        if !v.is_empty() {
                            all.push(format!(
                                "{sc:?}: segs={segs} maxp={maxp}\n    {}",
                                v[..v.len().min(3)].join("\n    ")
                            ));
                        }
                    }
                }
            }
        }
    }
    assert!(all.is_empty(), "{} scenarios violated:\n{}", all.len(), all.join("\n"));
}

#[test]
fn quick_subset() {
    let mut all = Vec::new();
    let mut seed = 77u64;
    for &v6 in &[false, true] {
        for &(send_cap, recv_cap) in &[(3000usize, 100usize), (1000, 1000), (70_000, 200_000)] {
            for &(max_delay_ms, loss_pct) in &[(0u64, 0u64), (6, 5)] {
                seed += 1;
                let sc = Scenario {
                    seed: seed.wrapping_mul(0x9E37_79B9_7F4A_7C15),
                    mtu: 1500,
                    send_cap,
                    recv_cap,
                    v6,
                    max_delay_ms,
                    loss_pct,
                    total: 20_000,
                    small_reads: false,
                    pre_bump: 0,
                    ticks: 4000,
                };
                let (v, segs, maxp) = run(sc);
                if !v.is_empty() {
                    all.push(format!("{sc:?}: segs={segs} maxp={maxp}\n    {}", v[..v.len().min(3)].join("\n    ")));
                }
            }
        }
    }
    assert!(all.is_empty(), "{} scenarios violated:\n{}", all.len(), all.join("\n"));
}

/// Sequence-number wrap-around: 65279 refused connects move each host's
/// ISN counter from 0x0100_0000 to 0xFFFF_0000, so the transfer crosses
/// u32::MAX after 64 KiB.
#[test]
fn wraparound() {
    let mut all = Vec::new();
    let mut seed = 4242u64;
    for &v6 in &[false, true] {
        for &(send_cap, recv_cap) in &[(3000usize, 1000usize), (70_000, 200_000), (200_000, 70_000)] {
            for &(max_delay_ms, loss_pct) in &[(0u64, 0u64), (2, 3)] {
                seed += 1;
                let sc = Scenario {
                    seed: seed.wrapping_mul(0x9E37_79B9_7F4A_7C15),
                    mtu: 1500,
                    send_cap,
                    recv_cap,
                    v6,
                    max_delay_ms,
                    loss_pct,
                    total: 150_000,
                    small_reads: false,
                    pre_bump: 65279,
                    ticks: 80_000,
                };
                let (v, segs, maxp) = run(sc);
                eprintln!("{sc:?}: segs={segs} maxp={maxp} viol={}", v.len());
                if !v.is_empty() {
                    all.push(format!("{sc:?}: segs={segs} maxp={maxp}\n    {}", v[..v.len().min(3)].join("\n    ")));
                }
            }
        }
    }
    assert!(all.is_empty(), "{} scenarios violated:\n{}", all.len(), all.join("\n"));
}
