//! Audit C16, targeted checks: loopback queue depths + WouldBlock,
//! UDP MTU boundaries on every send path, self-addressed traffic.

use std::cell::RefCell;
use std::net::SocketAddr;
use std::rc::Rc;
use std::time::Duration;

use tokio::io::{AsyncReadExt, AsyncWriteExt};
use tokio::time::sleep;
use turmoil_net::fixture::ClientServer;
use turmoil_net::shim::tokio::net::{TcpListener, TcpStream, UdpSocket};
use turmoil_net::{netstat, rule, KernelConfig, NetstatState, Packet, Proto, Transport, Verdict};

fn tcp_depths(host: &str) -> Vec<(SocketAddr, usize, usize)> {
    netstat(host)
        .entries
        .into_iter()
        .filter(|e| e.proto == Proto::Tcp && e.state != Some(NetstatState::Listen))
        .map(|e| (e.local, e.send_q, e.recv_q))
        .collect()
}

/// Loopback (127.0.0.1 and ::1): fill the pipe with nobody reading;
/// send queue and receive queue stay under their caps, the next
/// try_write is WouldBlock, a parked write resumes once the reader
/// drains.
#[test]
fn loopback_caps_and_wouldblock() {
    for (send_cap, recv_cap, lo_mtu) in [
        (1usize, 1usize, 65536u32),
        (10, 7, 65536),
        (100, 3000, 65536),
        (3000, 100, 65536),
        (5000, 5000, 100),
        (70_000, 200_000, 65536),
        (200_000, 70_000, 65536),
        (300, 300, 61),
    ] {
        for addr in ["127.0.0.1:7000", "[::1]:7000"] {
            let cfg = KernelConfig::default()
                .send_buf_cap(send_cap)
                .recv_buf_cap(recv_cap)
                .loopback_mtu(lo_mtu);
            ClientServer::with_config(cfg)
                .server("dummy", async {})
                .run("h", async move {
                    let l = TcpListener::bind(addr).await.unwrap();
                    let (mut c, (mut s, _)) =
                        tokio::try_join!(TcpStream::connect(addr), l.accept()).unwrap();
                    let total = send_cap + recv_cap + 5000;
                    let data: Vec<u8> = (0..total).map(|i| (i % 251) as u8).collect();
                    let d2 = data.clone();
                    let mut written = 0usize;
                    // fill until WouldBlock persists for several ticks
                    let mut idle = 0;
                    while idle < 20 {
                        match c.try_write(&data[written..]) {
                            Ok(n) => {
                                assert!(n > 0);
                                written += n;
                                idle = 0;
                            }
                            Err(e) => {
                                assert_eq!(e.kind(), std::io::ErrorKind::WouldBlock);
                                idle += 1;
                            }
                        }
                        for (local, sq, rq) in tcp_depths("h") {
                            assert!(sq <= send_cap, "{local}: send_q {sq} > cap {send_cap}");
                            assert!(rq <= recv_cap, "{local}: recv_q {rq} > cap {recv_cap}");
                        }
                        sleep(Duration::from_millis(1)).await;
                    }
                    assert!(
                        written <= send_cap + recv_cap,
                        "accepted {written} bytes with nobody reading; caps {send_cap}+{recv_cap}"
                    );
                    assert!(written >= send_cap.min(total));
                    // A parked writer resumes once the reader drains.
                    let rest = written;
                    let w = async {
                        c.write_all(&data[rest..]).await.unwrap();
                        c.shutdown().await.unwrap();
                    };
                    let r = async {
                        let mut got = Vec::new();
                        let mut buf = vec![0u8; recv_cap.max(1)];
                        loop {
                            let n = s.read(&mut buf).await.unwrap();
                            if n == 0 {
                                break;
                            }
                            got.extend_from_slice(&buf[..n]);
                            for (local, sq, rq) in tcp_depths("h") {
                                assert!(sq <= send_cap, "{local}: send_q {sq} > cap {send_cap}");
                                assert!(rq <= recv_cap, "{local}: recv_q {rq} > cap {recv_cap}");
                            }
                        }
                        got
                    };
                    let ((), got) = tokio::join!(w, r);
                    assert_eq!(got, d2);
                });
        }
    }
}

fn emsgsize(e: &std::io::Error) -> bool {
    e.raw_os_error() == Some(90)
}

/// UDP: on every send path, a payload of exactly mtu - ip - 8 passes and
/// one byte more is EMSGSIZE; nothing larger than the MTU is ever seen
/// on the wire.
#[test]
fn udp_boundaries() {
    for (mtu, lo_mtu) in [(1500u32, 65536u32), (100, 200), (200, 100), (48, 48), (49, 49), (28, 28)] {
        for v6 in [false, true] {
            let hdr = if v6 { 48 } else { 28 };
            if mtu < hdr || lo_mtu < hdr {
                // nothing fits at all: covered by audit_c16_4
                continue;
            }
            let max = mtu.saturating_sub(hdr) as usize;
            let lo_max = lo_mtu.saturating_sub(hdr) as usize;
            let cfg = KernelConfig::default().mtu(mtu).loopback_mtu(lo_mtu);
            let (sip, cip, lo, any) = if v6 {
                ("fd00::1", "fd00::2", "[::1]", "[::]")
            } else {
                ("10.0.0.1", "10.0.0.2", "127.0.0.1", "0.0.0.0")
            };
            let sip: std::net::IpAddr = sip.parse().unwrap();
            let cip: std::net::IpAddr = cip.parse().unwrap();
            let seen = Rc::new(RefCell::new(Vec::<usize>::new()));
            let seen2 = seen.clone();
            ClientServer::with_config(cfg)
                .server(sip, async move {
                    let s = UdpSocket::bind(format!("{any}:9000")).await.unwrap();
                    let mut buf = vec![0u8; 70000];
                    loop {
                        let _ = s.recv_from(&mut buf).await;
                    }
                })
                .run(cip, async move {
                    rule(move |p: &Packet| {
                        if let Transport::Udp(d) = &p.payload {
                            seen2.borrow_mut().push(d.payload.len());
                        }
                        Verdict::Pass
                    })
                    .forget();
                    let dst = SocketAddr::new(sip, 9000);
                    let ok = vec![7u8; max];
                    let big = vec![7u8; max + 1];
                    // unconnected
                    let c = UdpSocket::bind(format!("{any}:0")).await.unwrap();
                    assert_eq!(c.send_to(&ok, dst).await.unwrap(), max);
                    assert!(emsgsize(&c.send_to(&big, dst).await.unwrap_err()));
                    assert_eq!(c.try_send_to(&ok, dst).unwrap(), max);
                    assert!(emsgsize(&c.try_send_to(&big, dst).unwrap_err()));
                    // connected
                    let c2 = UdpSocket::bind(format!("{any}:0")).await.unwrap();
                    c2.connect(dst).await.unwrap();
                    assert_eq!(c2.send(&ok).await.unwrap(), max);
                    assert!(emsgsize(&c2.send(&big).await.unwrap_err()));
                    assert_eq!(c2.try_send(&ok).unwrap(), max);
                    assert!(emsgsize(&c2.try_send(&big).unwrap_err()));
                    // bound to the concrete address
                    let c3 = UdpSocket::bind(SocketAddr::new(cip, 0)).await.unwrap();
                    assert_eq!(c3.send_to(&ok, dst).await.unwrap(), max);
                    assert!(emsgsize(&c3.send_to(&big, dst).await.unwrap_err()));
                    // loopback
                    let lo_dst: SocketAddr = format!("{lo}:9100").parse().unwrap();
                    let r = UdpSocket::bind(lo_dst).await.unwrap();
                    let lok = vec![9u8; lo_max];
                    let lbig = vec![9u8; lo_max + 1];
                    assert_eq!(c.send_to(&lok, lo_dst).await.unwrap(), lo_max);
                    assert!(emsgsize(&c.send_to(&lbig, lo_dst).await.unwrap_err()));
                    sleep(Duration::from_millis(3)).await;
                    let mut buf = vec![0u8; 70000];
                    let (n, _) = r.recv_from(&mut buf).await.unwrap();
                    assert_eq!(n, lo_max);
                    assert!(r.try_recv_from(&mut buf).is_err());
                    if !v6 {
                        // broadcast obeys the same limit
                        c.set_broadcast(true).unwrap();
                        let b: SocketAddr = "255.255.255.255:9000".parse().unwrap();
                        assert_eq!(c.send_to(&ok, b).await.unwrap(), max);
                        assert!(emsgsize(&c.send_to(&big, b).await.unwrap_err()));
                    }
                    sleep(Duration::from_millis(5)).await;
                });
            for n in seen.borrow().iter() {
                assert!(*n <= max, "mtu {mtu} v6 {v6}: datagram of {n} bytes on the wire, max {max}");
            }
            assert!(seen.borrow().len() >= 5);
        }
    }
}
