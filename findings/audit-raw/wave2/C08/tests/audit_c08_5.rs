//! Audit C08: TCP streams under random hold / release cycles (Sim handle and
//! host code), small capacities, partial reads, several connections.

use std::cell::{Cell, RefCell};
use std::rc::Rc;
use std::time::Duration;

use rand::{rngs::SmallRng, Rng, SeedableRng};
use tokio::io::{AsyncReadExt, AsyncWriteExt};
use turmoil::net::{TcpListener, TcpStream};
use turmoil::{Builder, Sim};

const PORT: u16 = 7000;

#[derive(Default)]
struct Side {
    bytes: Vec<u8>,
    eof: bool,
    err: Option<String>,
}

struct Shared {
    m: u32,
    readbuf: usize,
    // [conn][0 = at server, 1 = at client]
    sides: RefCell<Vec<[Side; 2]>>,
}

async fn pump(s: TcpStream, sh: Rc<Shared>, conn: usize, at: usize) -> turmoil::Result {
    let (mut r, mut w) = s.into_split();
    let m = sh.m;
    let wr = async {
        for i in 0..m {
            let v = i * 2 + at as u32 + (conn as u32) * 1_000_000;
            w.write_all(&v.to_be_bytes()).await.unwrap();
            if i % 7 == 3 {
                tokio::time::sleep(Duration::from_millis(1)).await;
            }
        }
        w.shutdown().await.unwrap();
    };
    let rd = async {
        let mut buf = vec![0u8; sh.readbuf];
        loop {
            let res = r.read(&mut buf).await;
            let mut sides = sh.sides.borrow_mut();
            let side = &mut sides[conn][at];
            match res {
                Ok(0) => {
                    side.eof = true;
                    break;
                }
                Ok(n) => side.bytes.extend_from_slice(&buf[..n]),
                Err(e) => {
                    side.err = Some(e.to_string());
                    break;
                }
            }
        }
    };
    tokio::join!(wr, rd);
    Ok(())
}

fn progress(sh: &Shared) -> Vec<(usize, bool)> {
    sh.sides
        .borrow()
        .iter()
        .flat_map(|c| c.iter().map(|s| (s.bytes.len(), s.eof)).collect::<Vec<_>>())
        .collect()
}

fn link_count(sim: &Sim<'_>, a: &str, b: &str) -> usize {
    let (a, b) = (sim.lookup(a), sim.lookup(b));
    let mut n = 0;
    sim.links(|links| {
        for l in links {
            let p = l.pair();
            if p == (a, b) || p == (b, a) {
                n += l.count();
            }
        }
    });
    n
}

fn run_case(seed: u64) {
    let mut rng = SmallRng::seed_from_u64(seed);
    let cap = rng.random_range(1..=5usize);
    let conns = rng.random_range(1..=3usize);
    let mut b = Builder::new();
    let maxlat = rng.random_range(0..30u64);
    b.rng_seed(seed)
        .tcp_capacity(cap)
        .simulation_duration(Duration::from_secs(1000))
        .max_message_latency(Duration::from_millis(maxlat));
    if rng.random_bool(0.5) {
        b.enable_random_order();
    }
    let mut sim = b.build();
    let sh = Rc::new(Shared {
        m: rng.random_range(1..40),
        readbuf: rng.random_range(1..9),
        sides: RefCell::new((0..conns).map(|_| Default::default()).collect()),
    });
    let done = Rc::new(Cell::new(0usize));

    let sh1 = sh.clone();
    let d1 = done.clone();
    sim.host("s", move || {
        let sh = sh1.clone();
        let done = d1.clone();
        async move {
            let l = TcpListener::bind(("0.0.0.0", PORT)).await?;
            loop {
                let (mut s, _) = l.accept().await?;
                let sh = sh.clone();
                let done = done.clone();
                tokio::task::spawn_local(async move {
                    // first byte: connection id
                    let conn = s.read_u8().await.unwrap() as usize;
                    pump(s, sh, conn, 0).await.unwrap();
                    done.set(done.get() + 1);
                });
            }
        }
    });
    sim.host("z", || async {
        // unrelated traffic z <-> s is not needed; just exist
        std::future::pending().await
    });
    for conn in 0..conns {
        let sh = sh.clone();
        let done = done.clone();
        // SYNs must not pile up in a backlog of `cap` (documented panic)
        let start = 2 + conn as u64 * (maxlat + 2);
        sim.client(format!("c{conn}"), async move {
            tokio::time::sleep(Duration::from_millis(start)).await;
            let mut s = TcpStream::connect(("s", PORT)).await?;
            s.write_u8(conn as u8).await?;
            pump(s, sh, conn, 1).await?;
            done.set(done.get() + 1);
            std::future::pending::<()>().await;
            Ok(())
        });
    }

    // c0 <-> s is the held link
    let mut steps = 0;
    for _cycle in 0..4 {
        for _ in 0..rng.random_range(0..25) {
            sim.step().unwrap();
            steps += 1;
        }
        sim.hold("c0", "s");
        // one step to let the applications drain what was delivered before
        sim.step().unwrap();
        let p0 = progress(&sh);
        let n0 = link_count(&sim, "c0", "s");
        let hold_len = rng.random_range(1..80);
        for _ in 0..hold_len {
            sim.step().unwrap();
            steps += 1;
            let p = progress(&sh);
            assert_eq!(p[0], p0[0], "seed {seed}: server side of conn 0 progressed while held");
            assert_eq!(p[1], p0[1], "seed {seed}: client side of conn 0 progressed while held");
            assert!(link_count(&sim, "c0", "s") >= n0, "seed {seed}: message left the held link");
        }
        if conns > 1 && done.get() < 2 * conns - 2 {
            // the other connections are not affected: they finish within a
            // bounded number of steps even while c0 <-> s is held
        }
        sim.release("s", "c0");
    }
    for _ in 0..3000 {
        sim.step().unwrap();
        steps += 1;
        if done.get() == 2 * conns {
            break;
        }
    }
    let _ = steps;
    let sides = sh.sides.borrow();
    for (conn, c) in sides.iter().enumerate() {
        for at in 0..2 {
            let side = &c[at];
            assert_eq!(side.err, None, "seed {seed} conn {conn} at {at}");
            // the peer writes values with parity 1 - at
            let want: Vec<u8> = (0..sh.m)
                .flat_map(|i| (i * 2 + (1 - at) as u32 + (conn as u32) * 1_000_000).to_be_bytes())
                .collect();
            assert_eq!(side.bytes, want, "seed {seed} conn {conn} at {at} (cap {cap}, m {})", sh.m);
            assert!(side.eof, "seed {seed} conn {conn} at {at}: no EOF (cap {cap}, m {})", sh.m);
        }
    }
    assert_eq!(link_count(&sim, "c0", "s"), 0, "seed {seed}");
}

#[test]
fn tcp_random_hold_release() {
    for seed in 0..150 {
        run_case(seed);
    }
}

/// While c0 <-> s is held for good, the other connections complete.
#[test]
fn tcp_other_links_complete_while_held() {
    for seed in 0..20 {
        let mut rng = SmallRng::seed_from_u64(seed);
        let mut sim = Builder::new().rng_seed(seed).tcp_capacity(rng.random_range(1..4)).build();
        let sh = Rc::new(Shared {
            m: 20,
            readbuf: 3,
            sides: RefCell::new((0..3).map(|_| Default::default()).collect()),
        });
        let sh1 = sh.clone();
        sim.host("s", move || {
            let sh = sh1.clone();
            async move {
                let l = TcpListener::bind(("0.0.0.0", PORT)).await?;
                loop {
                    let (mut s, _) = l.accept().await?;
                    let sh = sh.clone();
                    tokio::task::spawn_local(async move {
                        let conn = s.read_u8().await.unwrap() as usize;
                        pump(s, sh, conn, 0).await.unwrap();
                    });
                }
            }
        });
        for conn in 0..3usize {
            let sh = sh.clone();
            sim.client(format!("c{conn}"), async move {
                tokio::time::sleep(Duration::from_millis(2 + conn as u64 * 102)).await;
                let mut s = TcpStream::connect(("s", PORT)).await?;
                s.write_u8(conn as u8).await?;
                pump(s, sh, conn, 1).await?;
                if conn == 0 {
                    std::future::pending::<()>().await;
                }
                Ok(())
            });
        }
        let at = rng.random_range(0..30);
        for _ in 0..at {
            sim.step().unwrap();
        }
        sim.hold("s", "c0");
        for _ in 0..2000 {
            sim.step().unwrap();
        }
        let sides = sh.sides.borrow();
        for conn in 1..3 {
            for at in 0..2 {
                assert!(sides[conn][at].eof, "seed {seed}: conn {conn} at {at} did not finish");
                assert_eq!(sides[conn][at].bytes.len(), 80);
            }
        }
    }
}

/// hold / release issued from inside host code (a third host, the server or
/// the client), streams still complete exactly once and in order.
#[test]
fn tcp_random_hold_release_from_host_code() {
    for seed in 0..120u64 {
        let mut rng = SmallRng::seed_from_u64(seed ^ 0xabcdef);
        let cap = rng.random_range(1..=4usize);
        let mut b = Builder::new();
        b.rng_seed(seed).tcp_capacity(cap).simulation_duration(Duration::from_secs(1000));
        b.max_message_latency(Duration::from_millis(rng.random_range(0..20)));
        if rng.random_bool(0.5) {
            b.enable_random_order();
        }
        let mut sim = b.build();
        let sh = Rc::new(Shared {
            m: rng.random_range(1..60),
            readbuf: rng.random_range(1..9),
            sides: RefCell::new(vec![Default::default()]),
        });
        let who = rng.random_range(0..3);
        let sched: Vec<u64> = (0..8).map(|_| rng.random_range(1..30)).collect();
        let ctl = move || {
            let sched = sched.clone();
            async move {
                let mut held = false;
                for d in sched {
                    tokio::time::sleep(Duration::from_millis(d)).await;
                    if held {
                        turmoil::release("c0", "s");
                    } else {
                        turmoil::hold("s", "c0");
                    }
                    held = !held;
                }
            }
        };
        let sh1 = sh.clone();
        let ctl_s = ctl.clone();
        sim.host("s", move || {
            let sh = sh1.clone();
            let ctl = ctl_s.clone();
            async move {
                if who == 0 {
                    tokio::task::spawn_local(ctl());
                }
                let l = TcpListener::bind(("0.0.0.0", PORT)).await?;
                let (mut s, _) = l.accept().await?;
                let conn = s.read_u8().await? as usize;
                pump(s, sh, conn, 0).await?;
                std::future::pending::<()>().await;
                Ok(())
            }
        });
        let ctl_z = ctl.clone();
        sim.host("z", move || {
            let ctl = ctl_z.clone();
            async move {
                if who == 1 {
                    ctl().await;
                }
                std::future::pending().await
            }
        });
        let sh2 = sh.clone();
        let finished = Rc::new(Cell::new(false));
        let f2 = finished.clone();
        sim.client("c0", async move {
            if who == 2 {
                tokio::task::spawn_local(ctl());
            }
            tokio::time::sleep(Duration::from_millis(2)).await;
            let mut s = TcpStream::connect(("s", PORT)).await?;
            s.write_u8(0).await?;
            pump(s, sh2, 0, 1).await?;
            f2.set(true);
            std::future::pending::<()>().await;
            Ok(())
        });
        for _ in 0..5000 {
            sim.step().unwrap();
        }
        assert!(finished.get(), "seed {seed}: client did not finish (cap {cap}, who {who})");
        let sides = sh.sides.borrow();
        for at in 0..2 {
            let side = &sides[0][at];
            assert_eq!(side.err, None, "seed {seed} at {at}");
            let want: Vec<u8> = (0..sh.m).flat_map(|i| (i * 2 + (1 - at) as u32).to_be_bytes()).collect();
            assert_eq!(side.bytes, want, "seed {seed} at {at}");
            assert!(side.eof, "seed {seed} at {at}: no EOF (cap {cap}, who {who})");
        }
        assert_eq!(link_count(&sim, "c0", "s"), 0);
    }
}
