//! Audit C08 observation (not a finding): flow-control credits are shared
//! memory, so "the peer has read" crosses a held link instantly.
use std::cell::Cell;
use std::rc::Rc;
use std::time::Duration;
use tokio::io::AsyncReadExt;
use turmoil::net::{TcpListener, TcpStream};
use turmoil::Builder;

#[test]
fn credit_return_crosses_a_held_link() {
    let mut sim = Builder::new().tcp_capacity(2).build();
    let read_now = Rc::new(Cell::new(false));
    let writable_at_hold = Rc::new(Cell::new(None));
    let r = read_now.clone();
    sim.host("s", move || {
        let r = r.clone();
        async move {
            let l = TcpListener::bind(("0.0.0.0", 7000)).await?;
            let (mut s, _) = l.accept().await?;
            while !r.get() {
                tokio::time::sleep(Duration::from_millis(1)).await;
            }
            let mut b = [0u8; 1];
            s.read_exact(&mut b).await?;
            s.read_exact(&mut b).await?;
            std::future::pending::<()>().await;
            Ok(())
        }
    });
    let w = writable_at_hold.clone();
    sim.client("c", async move {
        let s = TcpStream::connect(("s", 7000)).await?;
        assert_eq!(s.try_write(b"a")?, 1);
        assert_eq!(s.try_write(b"b")?, 1);
        assert!(s.try_write(b"c").is_err());
        let ok = tokio::time::timeout(Duration::from_millis(1000), s.writable()).await.is_ok();
        w.set(Some(ok));
        std::future::pending::<()>().await;
        Ok(())
    });
    for _ in 0..300 {
        sim.step().unwrap();
    }
    sim.hold("c", "s");
    read_now.set(true);
    for _ in 0..1500 {
        sim.step().unwrap();
    }
    // prints Some(true): the client became writable while the link was held
    println!("writable during hold: {:?}", writable_at_hold.get());
}
