//! Audit C08: UDP hold / release driven from the Sim handle, randomized.

use std::cell::{Cell, RefCell};
use std::collections::{BTreeMap, BTreeSet};
use std::net::IpAddr;
use std::rc::Rc;
use std::time::Duration;

use rand::{rngs::SmallRng, Rng, SeedableRng};
use turmoil::net::UdpSocket;
use turmoil::{Builder, Sim};

const PORT: u16 = 9000;

#[derive(Default)]
struct Log {
    // (src, dst) -> ids sent
    sent: BTreeMap<(IpAddr, IpAddr), Vec<u32>>,
    // (src, dst) -> (id, step)
    recv: BTreeMap<(IpAddr, IpAddr), Vec<(u32, usize)>>,
}

fn spawn_host(sim: &mut Sim<'_>, name: &'static str, peers: Vec<&'static str>, log: Rc<RefCell<Log>>, step: Rc<Cell<usize>>, sending: Rc<Cell<bool>>) {
    sim.host(name, move || {
        let log = log.clone();
        let step = step.clone();
        let sending = sending.clone();
        let peers = peers.clone();
        async move {
            let sock = Rc::new(UdpSocket::bind(("0.0.0.0", PORT)).await?);
            let me = turmoil::lookup(name);
            let rsock = sock.clone();
            let rlog = log.clone();
            let rstep = step.clone();
            tokio::task::spawn_local(async move {
                let mut buf = [0u8; 16];
                loop {
                    let (n, from) = rsock.recv_from(&mut buf).await.unwrap();
                    assert_eq!(n, 4);
                    let id = u32::from_be_bytes(buf[..4].try_into().unwrap());
                    rlog.borrow_mut()
                        .recv
                        .entry((from.ip(), me))
                        .or_default()
                        .push((id, rstep.get()));
                }
            });
            let mut next: BTreeMap<&'static str, u32> = BTreeMap::new();
            loop {
                if sending.get() {
                    for p in &peers {
                        let id = next.entry(p).or_insert(0);
                        let dst = turmoil::lookup(*p);
                        sock.send_to(&id.to_be_bytes(), (dst, PORT)).await?;
                        log.borrow_mut().sent.entry((me, dst)).or_default().push(*id);
                        *id += 1;
                    }
                }
                tokio::time::sleep(Duration::from_millis(1)).await;
            }
        }
    });
}

/// Number of in-flight messages per link, in each direction, as shown by the links iterator.
fn links_view(sim: &Sim<'_>) -> BTreeMap<(IpAddr, IpAddr), usize> {
    let mut out = BTreeMap::new();
    sim.links(|links| {
        for link in links {
            for sent in link {
                let (s, d) = sent.pair();
                *out.entry((s.ip(), d.ip())).or_insert(0) += 1;
            }
        }
    });
    out
}

fn in_flight(log: &Log) -> BTreeMap<(IpAddr, IpAddr), usize> {
    let mut out = BTreeMap::new();
    for (k, v) in &log.sent {
        let r = log.recv.get(k).map(|r| r.len()).unwrap_or(0);
        if v.len() > r {
            out.insert(*k, v.len() - r);
        }
    }
    out
}

fn run_case(seed: u64, regex_sets: bool) {
    let mut rng = SmallRng::seed_from_u64(seed);
    let mut sim = Builder::new()
        .udp_capacity(2048)
        .rng_seed(seed)
        .simulation_duration(Duration::from_secs(100))
        .build();
    let log = Rc::new(RefCell::new(Log::default()));
    let step = Rc::new(Cell::new(0usize));
    let sending = Rc::new(Cell::new(false));
    let names = ["a", "b", "c"];
    for n in names {
        let peers = names.iter().copied().filter(|p| *p != n).collect();
        spawn_host(&mut sim, n, peers, log.clone(), step.clone(), sending.clone());
    }
    let a = sim.lookup("a");
    let b = sim.lookup("b");

    let do_step = |sim: &mut Sim<'_>| {
        step.set(step.get() + 1);
        sim.step().unwrap();
        // the iterator shows exactly the in-flight messages
        assert_eq!(links_view(sim), in_flight(&log.borrow()), "seed {seed} step {}", step.get());
    };

    // let every host bind first
    do_step(&mut sim);
    do_step(&mut sim);
    sending.set(true);

    for _cycle in 0..3 {
        for _ in 0..rng.random_range(1..40) {
            do_step(&mut sim);
        }
        if regex_sets {
            sim.hold(regex::Regex::new("^(a|b)$").unwrap(), regex::Regex::new("^(a|b)$").unwrap());
        } else if rng.random_bool(0.5) {
            sim.hold("a", "b");
        } else {
            sim.hold("b", "a");
        }
        let before: BTreeMap<_, _> = [(a, b), (b, a)]
            .into_iter()
            .map(|k| (k, log.borrow().recv.get(&k).map(|v| v.len()).unwrap_or(0)))
            .collect();
        let other_before: usize = log
            .borrow()
            .recv
            .iter()
            .filter(|(k, _)| **k != (a, b) && **k != (b, a))
            .map(|(_, v)| v.len())
            .sum();
        let hold_len = rng.random_range(1..60);
        for _ in 0..hold_len {
            do_step(&mut sim);
        }
        for (k, n) in &before {
            assert_eq!(
                log.borrow().recv.get(k).map(|v| v.len()).unwrap_or(0),
                *n,
                "seed {seed}: delivery on held link {k:?}"
            );
        }
        let other_after: usize = log
            .borrow()
            .recv
            .iter()
            .filter(|(k, _)| **k != (a, b) && **k != (b, a))
            .map(|(_, v)| v.len())
            .sum();
        assert!(other_after > other_before, "unheld links stalled");

        // held set per direction
        let held: BTreeMap<_, BTreeSet<u32>> = [(a, b), (b, a)]
            .into_iter()
            .map(|k| {
                let l = log.borrow();
                let got: BTreeSet<u32> = l.recv.get(&k).map(|v| v.iter().map(|x| x.0).collect()).unwrap_or_default();
                let s: BTreeSet<u32> = l.sent[&k].iter().copied().filter(|i| !got.contains(i)).collect();
                (k, s)
            })
            .collect();

        if rng.random_bool(0.5) {
            sim.release("a", "b");
        } else {
            sim.release("b", "a");
        }
        let rel_step = step.get() + 1;
        do_step(&mut sim);
        for (k, set) in &held {
            let l = log.borrow();
            let at: Vec<u32> = l.recv[k].iter().filter(|x| x.1 == rel_step).map(|x| x.0).collect();
            let want: Vec<u32> = set.iter().copied().collect();
            assert!(at.len() >= want.len(), "seed {seed}: {k:?} released {} of {}", at.len(), want.len());
            assert_eq!(&at[..want.len()], &want[..], "seed {seed}: {k:?} order / loss after release");
        }
    }

    // drain
    sending.set(false);
    for _ in 0..150 {
        do_step(&mut sim);
    }
    let l = log.borrow();
    for (k, s) in &l.sent {
        let mut r: Vec<u32> = l.recv[k].iter().map(|x| x.0).collect();
        r.sort();
        assert_eq!(&r, s, "seed {seed}: {k:?} exactly once");
    }
}

#[test]
fn udp_sim_handle_random() {
    for seed in 0..40 {
        run_case(seed, false);
    }
}

#[test]
fn udp_sim_handle_random_regex() {
    for seed in 100..110 {
        run_case(seed, true);
    }
}
