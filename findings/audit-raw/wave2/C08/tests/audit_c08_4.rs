//! Audit C08 F1: a regex host set also matches names that DNS knows but that
//! have no host (yet); hold / release over such a set panics instead of
//! holding the links between the hosts that do exist.
//!
//! cargo test -p turmoil --offline --features regex --test audit_c08_4

use std::cell::RefCell;
use std::rc::Rc;
use std::time::Duration;

use turmoil::net::UdpSocket;
use turmoil::Builder;

const PORT: u16 = 9000;

fn all() -> regex::Regex {
    regex::Regex::new(".*").unwrap()
}

/// Sim handle: the test resolved the address of a host it registers later.
#[test]
fn regex_hold_from_sim_with_a_name_resolved_ahead_of_registration() {
    let mut sim = Builder::new().build();
    let got = Rc::new(RefCell::new(Vec::<u8>::new()));

    let g = got.clone();
    sim.host("b", move || {
        let got = g.clone();
        async move {
            let sock = UdpSocket::bind(("0.0.0.0", PORT)).await?;
            let mut buf = [0u8; 4];
            loop {
                let (_, _) = sock.recv_from(&mut buf).await?;
                got.borrow_mut().push(buf[0]);
            }
        }
    });
    sim.client("a", async {
        let sock = UdpSocket::bind(("0.0.0.0", PORT)).await?;
        tokio::time::sleep(Duration::from_millis(5)).await;
        for i in 0..3u8 {
            sock.send_to(&[i], ("b", PORT)).await?;
        }
        std::future::pending::<()>().await;
        Ok(())
    });

    // e.g. to hand the address to the other hosts before "late" is started
    let _late = sim.lookup("late");

    sim.step().unwrap();
    sim.hold(all(), all()); // panics: unable to find link between Pair(a, late)
    for _ in 0..200 {
        sim.step().unwrap();
    }
    assert!(got.borrow().is_empty(), "delivered across a held link");

    // "late" joins; the set now names three hosts
    sim.host("late", || async { std::future::pending().await });
    sim.release(all(), all());
    sim.step().unwrap();
    assert_eq!(*got.borrow(), vec![0, 1, 2]);
}

/// Host code: a client looked up a name nobody registered.
#[test]
fn regex_hold_from_host_code_with_an_unregistered_name() {
    let mut sim = Builder::new().build();
    sim.host("b", || async { std::future::pending().await });
    sim.client("a", async {
        let _ = turmoil::lookup("not-there");
        turmoil::hold(all(), all());
        turmoil::release(all(), all());
        Ok(())
    });
    sim.run().unwrap();
}
