//! Audit C08: UDP hold / release from inside host code, random node order.

use std::cell::{Cell, RefCell};
use std::collections::{BTreeMap, BTreeSet};
use std::net::IpAddr;
use std::rc::Rc;
use std::time::Duration;

use rand::{rngs::SmallRng, Rng, SeedableRng};
use turmoil::net::UdpSocket;
use turmoil::{Builder, Sim};

const PORT: u16 = 9000;

#[derive(Debug, Clone)]
enum Ev {
    Sent(IpAddr, IpAddr, u32),
    Recv(IpAddr, IpAddr, u32, usize),
    Hold(usize),
    Release(usize),
}

type Log = Rc<RefCell<Vec<Ev>>>;

#[allow(clippy::too_many_arguments)]
fn spawn_host(
    sim: &mut Sim<'_>,
    name: &'static str,
    peers: Vec<&'static str>,
    log: Log,
    step: Rc<Cell<usize>>,
    sending: Rc<Cell<bool>>,
    ctl: Option<Vec<u64>>,
    burst: u32,
) {
    sim.host(name, move || {
        let log = log.clone();
        let step = step.clone();
        let sending = sending.clone();
        let peers = peers.clone();
        let ctl = ctl.clone();
        async move {
            let sock = Rc::new(UdpSocket::bind(("0.0.0.0", PORT)).await?);
            let me = turmoil::lookup(name);
            let rsock = sock.clone();
            let rlog = log.clone();
            let rstep = step.clone();
            tokio::task::spawn_local(async move {
                let mut buf = [0u8; 16];
                loop {
                    let (n, from) = rsock.recv_from(&mut buf).await.unwrap();
                    assert_eq!(n, 4);
                    let id = u32::from_be_bytes(buf[..4].try_into().unwrap());
                    rlog.borrow_mut().push(Ev::Recv(from.ip(), me, id, rstep.get()));
                }
            });
            if let Some(ctl) = ctl {
                let clog = log.clone();
                let cstep = step.clone();
                tokio::task::spawn_local(async move {
                    let mut held = false;
                    for d in ctl {
                        tokio::time::sleep(Duration::from_millis(d)).await;
                        if held {
                            turmoil::release("b", "a");
                            clog.borrow_mut().push(Ev::Release(cstep.get()));
                        } else {
                            turmoil::hold("a", "b");
                            clog.borrow_mut().push(Ev::Hold(cstep.get()));
                        }
                        held = !held;
                    }
                });
            }
            let mut next: BTreeMap<&'static str, u32> = BTreeMap::new();
            loop {
                if sending.get() {
                    for _ in 0..burst {
                        for p in &peers {
                            let id = next.entry(p).or_insert(0);
                            let dst = turmoil::lookup(*p);
                            sock.send_to(&id.to_be_bytes(), (dst, PORT)).await?;
                            log.borrow_mut().push(Ev::Sent(me, dst, *id));
                            *id += 1;
                        }
                        tokio::task::yield_now().await;
                    }
                }
                tokio::time::sleep(Duration::from_millis(1)).await;
            }
        }
    });
}

fn run_case(seed: u64, max_latency_ms: u64) {
    let mut rng = SmallRng::seed_from_u64(seed);
    let mut b = Builder::new();
    b.udp_capacity(4096)
        .rng_seed(seed)
        .max_message_latency(Duration::from_millis(max_latency_ms))
        .simulation_duration(Duration::from_secs(100));
    if rng.random_bool(0.7) {
        b.enable_random_order();
    }
    let mut sim = b.build();
    let log: Log = Rc::new(RefCell::new(Vec::new()));
    let step = Rc::new(Cell::new(0usize));
    let sending = Rc::new(Cell::new(false));
    let names = ["a", "b", "c", "d"];
    let nhosts = rng.random_range(3..=4);
    let names = &names[..nhosts];
    let controller = names[rng.random_range(0..nhosts)];
    let burst = rng.random_range(1..=3);
    // even count so that the link ends released
    let sched: Vec<u64> = (0..6).map(|_| rng.random_range(1..40)).collect();
    for n in names {
        let peers = names.iter().copied().filter(|p| p != n).collect();
        let ctl = (*n == controller).then(|| {
            let mut s = sched.clone();
            s[0] += 3;
            s
        });
        spawn_host(&mut sim, n, peers, log.clone(), step.clone(), sending.clone(), ctl, burst);
    }
    let a = sim.lookup("a");
    let bb = sim.lookup("b");

    let mut do_step = |sim: &mut Sim<'_>| {
        step.set(step.get() + 1);
        sim.step().unwrap();
    };
    do_step(&mut sim);
    do_step(&mut sim);
    sending.set(true);
    let total: u64 = sched.iter().sum::<u64>() + 10;
    for _ in 0..total {
        do_step(&mut sim);
    }
    sending.set(false);
    for _ in 0..(max_latency_ms + 20) {
        do_step(&mut sim);
    }

    let evs = log.borrow().clone();
    let on_link = |s: &IpAddr, d: &IpAddr| (*s == a && *d == bb) || (*s == bb && *d == a);

    // 1. nothing delivered while held; unrelated links keep delivering
    let mut held = false;
    let mut hold_step = 0;
    let ctl_addr = sim.lookup(controller);
    let mut other_during_hold = 0;
    let mut holds = 0;
    for e in &evs {
        match e {
            Ev::Hold(st) => {
                held = true;
                hold_step = *st;
                holds += 1;
            }
            Ev::Release(_) => held = false,
            // already in the controller's own socket queue when it called hold
            Ev::Recv(_, d, _, st) if held && *d == ctl_addr && *st == hold_step => {}
            Ev::Recv(s, d, id, st) if held => {
                assert!(!on_link(s, d), "seed {seed}: {s}->{d} id {id} delivered at step {st} while held ({controller} controls)");
                other_during_hold += 1;
            }
            _ => {}
        }
    }
    assert_eq!(holds, 3);
    assert!(other_during_hold > 0);

    // 2. released together => in sent order, promptly, nothing lost
    for dir in [(a, bb), (bb, a)] {
        let mut sent: Vec<u32> = vec![];
        let mut got: BTreeSet<u32> = BTreeSet::new();
        let mut i = 0;
        while i < evs.len() {
            match &evs[i] {
                Ev::Sent(s, d, id) if (*s, *d) == dir => sent.push(*id),
                Ev::Recv(s, d, id, _) if (*s, *d) == dir => {
                    assert!(got.insert(*id), "seed {seed}: duplicate {dir:?} {id}");
                }
                Ev::Release(rel_step) => {
                    let heldset: Vec<u32> = sent.iter().copied().filter(|x| !got.contains(x)).collect();
                    // arrival order of the held set after the release
                    let mut arrived = vec![];
                    let mut reheld = false;
                    for e in &evs[i + 1..] {
                        if let Ev::Hold(_) = e {
                            reheld = true;
                        }
                        if let Ev::Recv(s, d, id, st) = e {
                            if (*s, *d) == dir && heldset.contains(id) {
                                assert!(reheld || *st <= rel_step + 1, "seed {seed}: held {dir:?} {id} released at step {rel_step} arrived at {st}");
                                arrived.push(*id);
                            }
                        }
                    }
                    assert_eq!(arrived, heldset, "seed {seed}: {dir:?} after release at step {rel_step} ({controller} controls)");
                }
                _ => {}
            }
            i += 1;
        }
    }

    // 3. exactly once overall
    let mut sent: BTreeMap<(IpAddr, IpAddr), Vec<u32>> = BTreeMap::new();
    let mut recv: BTreeMap<(IpAddr, IpAddr), Vec<u32>> = BTreeMap::new();
    for e in &evs {
        match e {
            Ev::Sent(s, d, id) => sent.entry((*s, *d)).or_default().push(*id),
            Ev::Recv(s, d, id, _) => recv.entry((*s, *d)).or_default().push(*id),
            _ => {}
        }
    }
    for (k, s) in &sent {
        let mut r = recv.get(k).cloned().unwrap_or_default();
        r.sort();
        assert_eq!(&r, s, "seed {seed}: {k:?} exactly once");
    }
}

#[test]
fn udp_host_code_random_default_latency() {
    for seed in 0..60 {
        run_case(seed, 100);
    }
}

#[test]
fn udp_host_code_random_zero_latency() {
    for seed in 0..60 {
        run_case(seed, 0);
    }
}
