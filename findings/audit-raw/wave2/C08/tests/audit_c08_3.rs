//! Audit C08: TCP, manual delivery of every permutation / subset of held
//! segments (data + FIN), both directions.

use std::cell::{Cell, RefCell};
use std::rc::Rc;
use std::time::Duration;

use tokio::io::{AsyncReadExt, AsyncWriteExt};
use turmoil::net::{TcpListener, TcpStream};
use turmoil::{Builder, Protocol, Segment, Sim};

const PORT: u16 = 7000;

#[derive(Default)]
struct Side {
    bytes: Vec<u8>,
    eof: bool,
    err: Option<String>,
}

struct Shared {
    go: Cell<bool>,
    connected: Cell<u32>,
    k: usize,
    srv: RefCell<Side>,
    cli: RefCell<Side>,
}

async fn pump(s: TcpStream, sh: Rc<Shared>, is_server: bool, writes: bool) -> turmoil::Result {
    sh.connected.set(sh.connected.get() + 1);
    while !sh.go.get() {
        tokio::time::sleep(Duration::from_millis(1)).await;
    }
    let (mut r, mut w) = s.into_split();
    let wr = async {
        if writes {
            for i in 0..sh.k {
                let b = [(i as u8 + 1) * if is_server { 10 } else { 1 }; 3];
                w.write_all(&b).await.unwrap();
            }
            w.shutdown().await.unwrap();
        }
    };
    let rd = async {
        let mut buf = [0u8; 64];
        loop {
            let side = if is_server { &sh.srv } else { &sh.cli };
            match r.read(&mut buf).await {
                Ok(0) => {
                    side.borrow_mut().eof = true;
                    break;
                }
                Ok(n) => side.borrow_mut().bytes.extend_from_slice(&buf[..n]),
                Err(e) => {
                    side.borrow_mut().err = Some(e.to_string());
                    break;
                }
            }
        }
    };
    tokio::join!(wr, rd);
    std::future::pending::<()>().await;
    Ok(())
}

fn setup(k: usize, server_writes: bool) -> (Sim<'static>, Rc<Shared>) {
    let mut sim = Builder::new()
        .simulation_duration(Duration::from_secs(100))
        .build();
    let sh = Rc::new(Shared {
        go: Cell::new(false),
        connected: Cell::new(0),
        k,
        srv: Default::default(),
        cli: Default::default(),
    });
    let sh1 = sh.clone();
    sim.host("s", move || {
        let sh = sh1.clone();
        async move {
            let l = TcpListener::bind(("0.0.0.0", PORT)).await?;
            let (s, _) = l.accept().await?;
            pump(s, sh, true, server_writes).await
        }
    });
    // an uninvolved host, to have unrelated links
    sim.host("z", || async { std::future::pending().await });
    let sh2 = sh.clone();
    sim.client("c", async move {
        let s = TcpStream::connect(("s", PORT)).await?;
        pump(s, sh2, false, true).await
    });
    while sh.connected.get() < 2 {
        sim.step().unwrap();
    }
    (sim, sh)
}

/// (src is client, seq or None for non-seq) of each message on the link
fn view(sim: &Sim<'_>) -> Vec<(bool, String)> {
    let c = sim.lookup("c");
    let mut out = vec![];
    sim.links(|links| {
        for link in links {
            for m in link {
                let from_c = m.pair().0.ip() == c;
                let d = match m.protocol() {
                    Protocol::Tcp(Segment::Data(seq, _)) => format!("D{seq}"),
                    Protocol::Tcp(Segment::Fin(seq)) => format!("F{seq}"),
                    Protocol::Tcp(Segment::Rst) => "RST".to_string(),
                    Protocol::Tcp(Segment::Syn(_)) => "SYN".to_string(),
                    Protocol::Udp(_) => "UDP".to_string(),
                };
                out.push((from_c, d));
            }
        }
    });
    out
}

fn deliver(sim: &Sim<'_>, from_c: bool, seq: u64) {
    let c = sim.lookup("c");
    let mut n = 0;
    sim.links(|links| {
        for link in links {
            for m in link {
                if (m.pair().0.ip() == c) != from_c {
                    continue;
                }
                let s = match m.protocol() {
                    Protocol::Tcp(Segment::Data(s, _)) | Protocol::Tcp(Segment::Fin(s)) => *s,
                    _ => continue,
                };
                if s == seq {
                    m.deliver();
                    n += 1;
                }
            }
        }
    });
    assert_eq!(n, 1, "message {from_c} {seq} not on the link exactly once");
}

fn permutations(n: usize) -> Vec<Vec<usize>> {
    if n == 0 {
        return vec![vec![]];
    }
    let mut out = vec![];
    for p in permutations(n - 1) {
        for i in 0..=p.len() {
            let mut q = p.clone();
            q.insert(i, n - 1);
            out.push(q);
        }
    }
    out
}

fn expected(k: usize, delivered: &[bool], mult: u8) -> (Vec<u8>, bool) {
    // delivered[i] for seq i+1; seq k+1 is FIN
    let mut bytes = vec![];
    let mut i = 0;
    while i < k && delivered[i] {
        bytes.extend_from_slice(&[(i as u8 + 1) * mult; 3]);
        i += 1;
    }
    (bytes, i == k && delivered[k])
}

#[test]
fn tcp_manual_every_permutation_one_direction() {
    for k in 1..=3usize {
        for perm in permutations(k + 1) {
            let (mut sim, sh) = setup(k, false);
            sim.hold("c", "s");
            sh.go.set(true);
            for _ in 0..5 {
                sim.step().unwrap();
            }
            let mut want: Vec<(bool, String)> = (1..=k).map(|i| (true, format!("D{i}"))).collect();
            want.push((true, format!("F{}", k + 1)));
            assert_eq!(view(&sim), want, "k {k}: links iterator");
            assert!(sh.srv.borrow().bytes.is_empty());

            let mut delivered = vec![false; k + 1];
            for &idx in &perm {
                deliver(&sim, true, idx as u64 + 1);
                delivered[idx] = true;
                sim.step().unwrap();
                sim.step().unwrap();
                let (b, eof) = expected(k, &delivered, 1);
                let srv = sh.srv.borrow();
                assert_eq!(srv.err, None, "k {k} perm {perm:?}");
                assert_eq!(srv.bytes, b, "k {k} perm {perm:?} after {idx}");
                assert_eq!(srv.eof, eof, "k {k} perm {perm:?} after {idx}");
                let left: Vec<_> = want
                    .iter()
                    .enumerate()
                    .filter(|(i, _)| !delivered[*i])
                    .map(|(_, w)| w.clone())
                    .collect();
                assert_eq!(view(&sim), left, "k {k} perm {perm:?}: still held");
            }
            assert!(sh.srv.borrow().eof);
            sim.release("c", "s");
            for _ in 0..3 {
                sim.step().unwrap();
            }
            assert_eq!(sh.srv.borrow().bytes.len(), 3 * k);
            assert_eq!(view(&sim), vec![]);
        }
    }
}

#[test]
fn tcp_manual_every_subset_then_release_both_directions() {
    let k = 2usize;
    // 2 * (k+1) = 6 messages, every subset, delivered in reverse order
    let n = 2 * (k + 1);
    for mask in 0u32..(1 << n) {
        let (mut sim, sh) = setup(k, true);
        sim.hold("s", "c");
        sh.go.set(true);
        for _ in 0..5 {
            sim.step().unwrap();
        }
        let v = view(&sim);
        assert_eq!(v.len(), n, "{v:?}");
        assert!(sh.srv.borrow().bytes.is_empty() && sh.cli.borrow().bytes.is_empty());

        let mut dc = vec![false; k + 1];
        let mut ds = vec![false; k + 1];
        for bit in (0..n).rev() {
            if mask & (1 << bit) == 0 {
                continue;
            }
            let from_c = bit < k + 1;
            let idx = bit % (k + 1);
            deliver(&sim, from_c, idx as u64 + 1);
            if from_c {
                dc[idx] = true
            } else {
                ds[idx] = true
            }
            sim.step().unwrap();
            sim.step().unwrap();
            let (b, eof) = expected(k, &dc, 1);
            assert_eq!((&sh.srv.borrow().bytes, sh.srv.borrow().eof), (&b, eof), "mask {mask:b} bit {bit}");
            let (b, eof) = expected(k, &ds, 10);
            assert_eq!((&sh.cli.borrow().bytes, sh.cli.borrow().eof), (&b, eof), "mask {mask:b} bit {bit}");
        }
        assert_eq!(view(&sim).len(), n - mask.count_ones() as usize, "mask {mask:b}");
        sim.release("c", "s");
        sim.step().unwrap();
        sim.step().unwrap();
        let (b, _) = expected(k, &vec![true; k + 1], 1);
        assert_eq!((&sh.srv.borrow().bytes, sh.srv.borrow().eof), (&b, true), "mask {mask:b} final");
        let (b, _) = expected(k, &vec![true; k + 1], 10);
        assert_eq!((&sh.cli.borrow().bytes, sh.cli.borrow().eof), (&b, true), "mask {mask:b} final");
        assert_eq!(sh.srv.borrow().err, None);
        assert_eq!(sh.cli.borrow().err, None);
        assert_eq!(view(&sim), vec![]);
    }
}
