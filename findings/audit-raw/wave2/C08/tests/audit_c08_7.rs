//! Audit C08: UDP held count == capacity, readable() parking, IPv6,
//! broadcast / multicast fan-out with one held link, manual UDP permutations.

use std::cell::RefCell;
use std::net::{IpAddr, Ipv4Addr};
use std::rc::Rc;
use std::time::Duration;

use turmoil::net::UdpSocket;
use turmoil::{Builder, IpVersion, Protocol, Sim};

const PORT: u16 = 9000;

type Got = Rc<RefCell<Vec<(String, IpAddr, u8)>>>;

fn receiver(sim: &mut Sim<'_>, name: &'static str, got: Got, v6: bool, group: Option<Ipv4Addr>, use_readable: bool) {
    sim.host(name, move || {
        let got = got.clone();
        async move {
            let sock = if v6 {
                UdpSocket::bind(("::", PORT)).await?
            } else {
                UdpSocket::bind(("0.0.0.0", PORT)).await?
            };
            if let Some(g) = group {
                sock.join_multicast_v4(g, Ipv4Addr::UNSPECIFIED)?;
            }
            let mut buf = [0u8; 8];
            loop {
                if use_readable {
                    sock.readable().await?;
                    // leave the datagram parked for a while
                    tokio::time::sleep(Duration::from_millis(3)).await;
                }
                let (n, from) = sock.recv_from(&mut buf).await?;
                assert_eq!(n, 1);
                got.borrow_mut().push((name.to_string(), from.ip(), buf[0]));
            }
        }
    });
}

fn ids(got: &Got, name: &str) -> Vec<u8> {
    got.borrow().iter().filter(|g| g.0 == name).map(|g| g.2).collect()
}

#[test]
fn udp_capacity_exact_and_readable_parking() {
    for v6 in [false, true] {
        for use_readable in [false, true] {
            for cap in [1usize, 2, 7] {
                let mut b = Builder::new();
                b.udp_capacity(cap);
                if v6 {
                    b.ip_version(IpVersion::V6);
                }
                let mut sim = b.build();
                let got: Got = Default::default();
                receiver(&mut sim, "b", got.clone(), v6, None, use_readable);
                receiver(&mut sim, "c", got.clone(), v6, None, use_readable);
                sim.client("a", async move {
                    let sock = if v6 {
                        UdpSocket::bind(("::", PORT)).await?
                    } else {
                        UdpSocket::bind(("0.0.0.0", PORT)).await?
                    };
                    tokio::time::sleep(Duration::from_millis(2)).await;
                    turmoil::hold("a", "b");
                    for i in 0..cap as u8 {
                        sock.send_to(&[i], ("b", PORT)).await?;
                    }
                    tokio::time::sleep(Duration::from_millis(300)).await;
                    turmoil::release("a", "b");
                    std::future::pending::<()>().await;
                    Ok(())
                });
                for _ in 0..250 {
                    sim.step().unwrap();
                }
                assert!(ids(&got, "b").is_empty());
                for _ in 0..150 {
                    sim.step().unwrap();
                }
                assert_eq!(ids(&got, "b"), (0..cap as u8).collect::<Vec<_>>(), "v6 {v6} readable {use_readable} cap {cap}");
            }
        }
    }
}

#[test]
fn broadcast_and_multicast_with_one_held_link() {
    let group: Ipv4Addr = "239.1.2.3".parse().unwrap();
    let mut sim = Builder::new().build();
    let got: Got = Default::default();
    for n in ["b", "c", "d"] {
        receiver(&mut sim, n, got.clone(), false, Some(group), false);
    }
    sim.client("a", async move {
        let sock = UdpSocket::bind(("0.0.0.0", PORT)).await?;
        sock.set_broadcast(true)?;
        tokio::time::sleep(Duration::from_millis(3)).await;
        for i in 0..10u8 {
            if i % 2 == 0 {
                sock.send_to(&[i], (Ipv4Addr::BROADCAST, PORT)).await?;
            } else {
                sock.send_to(&[i], (group, PORT)).await?;
            }
            tokio::time::sleep(Duration::from_millis(1)).await;
        }
        std::future::pending::<()>().await;
        Ok(())
    });
    sim.step().unwrap();
    sim.step().unwrap();
    sim.hold("b", "a");
    for _ in 0..300 {
        sim.step().unwrap();
    }
    assert!(ids(&got, "b").is_empty());
    let mut c = ids(&got, "c");
    c.sort();
    assert_eq!(c, (0..10).collect::<Vec<_>>());
    let mut d = ids(&got, "d");
    d.sort();
    assert_eq!(d, (0..10).collect::<Vec<_>>());
    // iterator: exactly 10 on a-b, none elsewhere
    let (a, b) = (sim.lookup("a"), sim.lookup("b"));
    sim.links(|links| {
        for l in links {
            let p = l.pair();
            let n = l.count();
            if p == (a, b) || p == (b, a) {
                assert_eq!(n, 10);
            } else {
                assert_eq!(n, 0, "{p:?}");
            }
        }
    });
    sim.release("a", "b");
    sim.step().unwrap();
    assert_eq!(ids(&got, "b"), (0..10).collect::<Vec<_>>());
}

fn permutations(n: usize) -> Vec<Vec<usize>> {
    if n == 0 {
        return vec![vec![]];
    }
    let mut out = vec![];
    for p in permutations(n - 1) {
        for i in 0..=p.len() {
            let mut q = p.clone();
            q.insert(i, n - 1);
            out.push(q);
        }
    }
    out
}

#[test]
fn udp_manual_permutations_and_subsets() {
    let k = 4usize;
    for perm in permutations(k) {
        for take in 0..=k {
            let mut sim = Builder::new().build();
            let got: Got = Default::default();
            receiver(&mut sim, "b", got.clone(), false, None, false);
            receiver(&mut sim, "c", got.clone(), false, None, false);
            sim.client("a", async move {
                let sock = UdpSocket::bind(("0.0.0.0", PORT)).await?;
                tokio::time::sleep(Duration::from_millis(2)).await;
                turmoil::hold("a", "b");
                for i in 0..4u8 {
                    sock.send_to(&[i], ("b", PORT)).await?;
                    sock.send_to(&[i], ("c", PORT)).await?;
                }
                std::future::pending::<()>().await;
                Ok(())
            });
            for _ in 0..120 {
                sim.step().unwrap();
            }
            let mut c = ids(&got, "c");
            c.sort();
            assert_eq!(c, vec![0, 1, 2, 3]);
            let mut want = vec![];
            for &i in &perm[..take] {
                let mut n = 0;
                sim.links(|links| {
                    for l in links {
                        for m in l {
                            if let Protocol::Udp(d) = m.protocol() {
                                if d.0[0] == i as u8 {
                                    m.deliver();
                                    n += 1;
                                }
                            }
                        }
                    }
                });
                assert_eq!(n, 1);
                sim.step().unwrap();
                want.push(i as u8);
                assert_eq!(ids(&got, "b"), want, "perm {perm:?} take {take}");
            }
            sim.release("b", "a");
            sim.step().unwrap();
            let mut rest: Vec<u8> = (0..k as u8).filter(|i| !want.contains(i)).collect();
            want.append(&mut rest);
            assert_eq!(ids(&got, "b"), want, "perm {perm:?} take {take}: after release");
            for _ in 0..5 {
                sim.step().unwrap();
            }
            assert_eq!(ids(&got, "b").len(), k);
        }
    }
}
