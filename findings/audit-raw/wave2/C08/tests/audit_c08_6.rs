//! Audit C08: held SYNs (up to the backlog capacity), permutations of manual
//! SYN delivery, SYN in flight at the hold instant, connect + immediate close.

use std::cell::RefCell;
use std::net::SocketAddr;
use std::rc::Rc;
use std::time::Duration;

use tokio::io::{AsyncReadExt, AsyncWriteExt};
use turmoil::net::{TcpListener, TcpStream};
use turmoil::{Builder, Protocol, Segment, Sim};

const PORT: u16 = 7000;

fn syns(sim: &Sim<'_>) -> Vec<SocketAddr> {
    let mut out = vec![];
    sim.links(|links| {
        for l in links {
            for m in l {
                if let Protocol::Tcp(Segment::Syn(_)) = m.protocol() {
                    out.push(m.pair().0);
                }
            }
        }
    });
    out
}

fn all_msgs(sim: &Sim<'_>) -> usize {
    let mut n = 0;
    sim.links(|links| {
        for l in links {
            n += l.count();
        }
    });
    n
}

fn build(cap: usize, n: usize, accepted: Rc<RefCell<Vec<(SocketAddr, Vec<u8>)>>>, connected: Rc<RefCell<Vec<usize>>>) -> Sim<'static> {
    let mut sim = Builder::new()
        .tcp_capacity(cap)
        .min_message_latency(Duration::from_millis(5))
        .max_message_latency(Duration::from_millis(5))
        .build();
    sim.host("s", move || {
        let accepted = accepted.clone();
        async move {
            let l = TcpListener::bind(("0.0.0.0", PORT)).await?;
            loop {
                let (mut s, peer) = l.accept().await?;
                let accepted = accepted.clone();
                tokio::task::spawn_local(async move {
                    let mut v = vec![];
                    s.read_to_end(&mut v).await.unwrap();
                    accepted.borrow_mut().push((peer, v));
                });
            }
        }
    });
    sim.host("z", || async { std::future::pending().await });
    sim.client("c", async move {
        tokio::time::sleep(Duration::from_millis(3)).await;
        let mut hs = vec![];
        for i in 0..n {
            let connected = connected.clone();
            hs.push(tokio::task::spawn_local(async move {
                let mut s = TcpStream::connect(("s", PORT)).await.unwrap();
                connected.borrow_mut().push(i);
                s.write_all(&[i as u8; 2]).await.unwrap();
                // drop: FIN
            }));
        }
        for h in hs {
            h.await?;
        }
        std::future::pending::<()>().await;
        Ok(())
    });
    sim
}

#[test]
fn capacity_many_held_syns_released_together() {
    for cap in [1usize, 2, 5, 16] {
        let accepted = Rc::new(RefCell::new(vec![]));
        let connected = Rc::new(RefCell::new(vec![]));
        let mut sim = build(cap, cap, accepted.clone(), connected.clone());
        sim.step().unwrap();
        sim.step().unwrap();
        sim.hold("c", "s");
        for _ in 0..50 {
            sim.step().unwrap();
        }
        let held = syns(&sim);
        assert_eq!(held.len(), cap);
        assert!(connected.borrow().is_empty());
        assert!(accepted.borrow().is_empty());
        sim.release("c", "s");
        for _ in 0..50 {
            sim.step().unwrap();
        }
        assert_eq!(*connected.borrow(), (0..cap).collect::<Vec<_>>(), "cap {cap}");
        let acc = accepted.borrow();
        // accepted in the order the SYNs were sent
        assert_eq!(acc.iter().map(|a| a.0).collect::<Vec<_>>(), held, "cap {cap}");
        for (i, a) in acc.iter().enumerate() {
            assert_eq!(a.1, vec![i as u8; 2]);
        }
        assert_eq!(all_msgs(&sim), 0);
    }
}

#[test]
fn syn_in_flight_when_held_from_sim() {
    // the SYNs are sent at 3 ms with 5 ms latency; hold at every instant around that
    for hold_at in 0..12 {
        let accepted = Rc::new(RefCell::new(vec![]));
        let connected = Rc::new(RefCell::new(vec![]));
        let mut sim = build(4, 3, accepted.clone(), connected.clone());
        for _ in 0..hold_at {
            sim.step().unwrap();
        }
        sim.hold("s", "c");
        let in_flight = syns(&sim).len();
        let acc0 = accepted.borrow().len();
        for _ in 0..40 {
            sim.step().unwrap();
        }
        if in_flight > 0 {
            assert!(connected.borrow().is_empty(), "hold_at {hold_at}");
        }
        assert_eq!(accepted.borrow().len(), acc0, "hold_at {hold_at}: data / FIN crossed a held link");
        sim.release("s", "c");
        for _ in 0..40 {
            sim.step().unwrap();
        }
        assert_eq!(connected.borrow().len(), 3, "hold_at {hold_at}");
        let acc = accepted.borrow();
        assert_eq!(acc.len(), 3, "hold_at {hold_at}");
        for a in acc.iter() {
            assert_eq!(a.1.len(), 2, "hold_at {hold_at}");
        }
        assert_eq!(all_msgs(&sim), 0);
    }
}

#[test]
fn manual_syn_permutations() {
    let perms: [[usize; 3]; 6] = [[0, 1, 2], [0, 2, 1], [1, 0, 2], [1, 2, 0], [2, 0, 1], [2, 1, 0]];
    for perm in perms {
        let accepted = Rc::new(RefCell::new(vec![]));
        let connected = Rc::new(RefCell::new(vec![]));
        let mut sim = build(4, 3, accepted.clone(), connected.clone());
        sim.hold("c", "s");
        for _ in 0..20 {
            sim.step().unwrap();
        }
        let held = syns(&sim);
        assert_eq!(held.len(), 3);
        for (k, &i) in perm.iter().enumerate() {
            sim.links(|links| {
                for l in links {
                    for m in l {
                        if matches!(m.protocol(), Protocol::Tcp(Segment::Syn(_))) && m.pair().0 == held[i] {
                            m.deliver();
                        }
                    }
                }
            });
            sim.step().unwrap();
            sim.step().unwrap();
            assert_eq!(connected.borrow().len(), k + 1, "perm {perm:?}");
            assert_eq!(*connected.borrow().last().unwrap(), i, "perm {perm:?}");
            assert_eq!(syns(&sim).len(), 3 - k - 1);
            // the link is still held: the data + FIN of the new connection wait
            assert!(accepted.borrow().is_empty());
        }
        sim.release("c", "s");
        for _ in 0..10 {
            sim.step().unwrap();
        }
        let acc = accepted.borrow();
        assert_eq!(acc.len(), 3, "perm {perm:?}");
        for a in acc.iter() {
            let i = held.iter().position(|h| *h == a.0).unwrap();
            assert_eq!(a.1, vec![i as u8; 2], "perm {perm:?}");
        }
        assert_eq!(all_msgs(&sim), 0);
    }
}
