//! Audit C15 / H1: random bind / connect / accept / drop histories on a host
//! with a tiny ephemeral range, checked against a model.
//!
//! Model: in_use = UDP ports + TCP listener ports + local ports of live
//! streams (outgoing and accepted). Ephemeral assignment must avoid in_use,
//! explicit binds conflict per protocol only.

use std::collections::BTreeSet;
use std::io::ErrorKind;
use std::net::{IpAddr, Ipv4Addr, Ipv6Addr};
use std::time::Duration;

use tokio::io::AsyncReadExt;
use turmoil::net::{TcpListener, TcpStream, UdpSocket};
use turmoil::{Builder, IpVersion, Result};


struct Lcg(u64);
impl Lcg {
    fn next(&mut self) -> u64 {
        self.0 = self
            .0
            .wrapping_mul(6364136223846793005)
            .wrapping_add(1442695040888963407);
        self.0 >> 33
    }
    fn below(&mut self, n: u64) -> u64 {
        self.next() % n
    }
}

struct St {
    lo_p: u16,
    hi_p: u16,
    udp: Vec<UdpSocket>,
    lst: Vec<TcpListener>,
    streams: Vec<TcpStream>,
    rd: Vec<turmoil::net::tcp::OwnedReadHalf>,
    wr: Vec<turmoil::net::tcp::OwnedWriteHalf>,
}

impl St {
    fn udp_ports(&self) -> BTreeSet<u16> {
        self.udp
            .iter()
            .map(|s| s.local_addr().unwrap().port())
            .collect()
    }
    fn lst_ports(&self) -> BTreeSet<u16> {
        self.lst
            .iter()
            .map(|s| s.local_addr().unwrap().port())
            .collect()
    }
    fn stream_ports(&self) -> BTreeSet<u16> {
        self.streams
            .iter()
            .map(|s| s.local_addr().unwrap().port())
            .chain(self.rd.iter().map(|s| s.local_addr().unwrap().port()))
            .chain(self.wr.iter().map(|s| s.local_addr().unwrap().port()))
            .collect()
    }
    fn in_use(&self) -> BTreeSet<u16> {
        let mut s = self.udp_ports();
        s.extend(self.lst_ports());
        s.extend(self.stream_ports());
        s
    }
    fn range_full(&self) -> bool {
        let u = self.in_use();
        (self.lo_p..=self.hi_p).all(|p| u.contains(&p))
    }
}

fn pick_port(r: &mut Lcg, lo_p: u16, hi_p: u16) -> u16 {
    // mostly inside the ephemeral range, sometimes just outside
    let p = (lo_p as u64 - 1) + r.below((hi_p - lo_p + 3) as u64);
    if p > 65535 {
        lo_p - 2
    } else {
        p as u16
    }
}

fn run(seed: u64, v6: bool, steps: usize, lo_p: u16, hi_p: u16) -> Result {
    let mut b = Builder::new();
    b.simulation_duration(Duration::from_secs(3600))
        .min_message_latency(Duration::from_millis(1))
        .max_message_latency(Duration::from_millis(1))
        .ephemeral_ports(lo_p..=hi_p)
        .tcp_capacity(64);
    if v6 {
        b.ip_version(IpVersion::V6);
    }
    let mut sim = b.build();

    let unspec: IpAddr = if v6 {
        Ipv6Addr::UNSPECIFIED.into()
    } else {
        Ipv4Addr::UNSPECIFIED.into()
    };
    let lo: IpAddr = if v6 {
        Ipv6Addr::LOCALHOST.into()
    } else {
        Ipv4Addr::LOCALHOST.into()
    };

    sim.host("peer", move || async move {
        let l = TcpListener::bind((unspec, 80)).await?;
        loop {
            let (mut s, _) = l.accept().await?;
            tokio::task::spawn_local(async move {
                // hold until the other side closes, then drop
                let mut buf = [0u8; 8];
                while let Ok(n) = s.read(&mut buf).await {
                    if n == 0 {
                        break;
                    }
                }
            });
        }
    });

    sim.client("h", async move {
        let mut r = Lcg(seed);
        let mut st = St {
            lo_p,
            hi_p,
            udp: vec![],
            lst: vec![],
            streams: vec![],
            rd: vec![],
            wr: vec![],
        };
        let mut refused = 0usize;
        let mut eph = 0usize;

        for step in 0..steps {
            let op = r.below(12);
            let before = st.in_use();
            match op {
                0 => {
                    if st.range_full() {
                        continue;
                    }
                    let s = UdpSocket::bind((unspec, 0)).await?;
                    let p = s.local_addr()?.port();
                    assert!((lo_p..=hi_p).contains(&p), "step {step}: udp eph {p} out of range");
                    assert!(
                        !before.contains(&p),
                        "step {step}: udp bind(0) handed out {p}, in use: {before:?}"
                    );
                    eph += 1;
                    st.udp.push(s);
                }
                1 => {
                    let p = pick_port(&mut r, lo_p, hi_p);
                    let res = UdpSocket::bind((unspec, p)).await;
                    if st.udp_ports().contains(&p) {
                        let e = res.err().unwrap_or_else(|| {
                            panic!("step {step}: udp bind({p}) succeeded although bound")
                        });
                        assert_eq!(e.kind(), ErrorKind::AddrInUse);
                    } else {
                        let s = res.unwrap_or_else(|e| {
                            panic!(
                                "step {step}: udp bind({p}) failed {e:?}, udp ports {:?}",
                                st.udp_ports()
                            )
                        });
                        st.udp.push(s);
                    }
                }
                2 => {
                    if st.range_full() {
                        continue;
                    }
                    let s = TcpListener::bind((unspec, 0)).await?;
                    let p = s.local_addr()?.port();
                    assert!((lo_p..=hi_p).contains(&p));
                    assert!(
                        !before.contains(&p),
                        "step {step}: tcp bind(0) handed out {p}, in use: {before:?}"
                    );
                    eph += 1;
                    st.lst.push(s);
                }
                3 => {
                    let p = pick_port(&mut r, lo_p, hi_p);
                    let res = TcpListener::bind((unspec, p)).await;
                    if st.lst_ports().contains(&p) {
                        let e = res.err().unwrap_or_else(|| {
                            panic!("step {step}: tcp bind({p}) succeeded although bound")
                        });
                        assert_eq!(e.kind(), ErrorKind::AddrInUse);
                    } else {
                        let s = res.unwrap_or_else(|e| {
                            panic!(
                                "step {step}: tcp bind({p}) failed {e:?}, listeners {:?}",
                                st.lst_ports()
                            )
                        });
                        st.lst.push(s);
                    }
                }
                4 => {
                    if st.range_full() {
                        continue;
                    }
                    let res = tokio::time::timeout(
                        Duration::from_secs(5),
                        TcpStream::connect(("peer", 80)),
                    )
                    .await
                    .unwrap_or_else(|_| panic!("step {step}: connect to peer hangs, in use {before:?}"));
                    match res {
                        Ok(s) => {
                            let p = s.local_addr()?.port();
                            assert!((lo_p..=hi_p).contains(&p));
                            assert!(
                                !before.contains(&p),
                                "step {step}: connect used local port {p}, in use: {before:?}"
                            );
                            eph += 1;
                            st.streams.push(s);
                        }
                        Err(e) => {
                            assert_eq!(e.kind(), ErrorKind::ConnectionRefused);
                            refused += 1;
                        }
                    }
                }
                5 => {
                    if st.range_full() || st.lst.is_empty() {
                        continue;
                    }
                    let i = r.below(st.lst.len() as u64) as usize;
                    let lp = st.lst[i].local_addr()?.port();
                    let (c, a) = tokio::join!(
                        TcpStream::connect((lo, lp)),
                        tokio::time::timeout(Duration::from_millis(100), st.lst[i].accept())
                    );
                    match c {
                        Ok(c) => {
                            let (a, from) = a.expect("accept timed out although connect succeeded")?;
                            let p = c.local_addr()?.port();
                            assert_eq!(from.port(), p);
                            assert_eq!(a.local_addr()?.port(), lp);
                            assert!((lo_p..=hi_p).contains(&p));
                            assert!(
                                !before.contains(&p),
                                "step {step}: loopback connect used local port {p}, in use: {before:?}"
                            );
                            eph += 1;
                            st.streams.push(c);
                            st.streams.push(a);
                        }
                        Err(e) => {
                            // the pair (lo:lp, lo:eph) of an earlier connection
                            // whose accepted end we still hold: refused
                            assert_eq!(e.kind(), ErrorKind::ConnectionRefused);
                            assert!(a.is_err());
                            refused += 1;
                        }
                    }
                }
                8 => {
                    // refused connect: nothing listens on peer:81
                    if st.range_full() {
                        continue;
                    }
                    let e = TcpStream::connect(("peer", 81)).await.err().expect("refused");
                    assert_eq!(e.kind(), ErrorKind::ConnectionRefused);
                }
                9 => {
                    // cancelled connect
                    if st.range_full() {
                        continue;
                    }
                    turmoil::hold("h", "peer");
                    let t = tokio::time::timeout(
                        Duration::from_millis(3),
                        TcpStream::connect(("peer", 80)),
                    )
                    .await;
                    assert!(t.is_err());
                    turmoil::release("h", "peer");
                    tokio::time::sleep(Duration::from_millis(5)).await;
                }
                10 => {
                    // split a stream, drop one half only
                    if st.streams.is_empty() {
                        continue;
                    }
                    let i = r.below(st.streams.len() as u64) as usize;
                    let (rd, wr) = st.streams.swap_remove(i).into_split();
                    if r.below(2) == 0 {
                        st.rd.push(rd);
                        drop(wr);
                    } else {
                        st.wr.push(wr);
                        drop(rd);
                    }
                    tokio::time::sleep(Duration::from_millis(10)).await;
                }
                11 => {
                    // probe: the free part of the range is exactly what the
                    // model says, nothing leaked, nothing handed out twice
                    let free: BTreeSet<u16> =
                        (lo_p..=hi_p).filter(|p| !before.contains(p)).collect();
                    let mut got = BTreeSet::new();
                    let mut keep = vec![];
                    for _ in 0..free.len() {
                        let s = UdpSocket::bind((unspec, 0)).await?;
                        got.insert(s.local_addr()?.port());
                        keep.push(s);
                    }
                    assert_eq!(got, free, "step {step}: free ports differ from the model, in use {before:?}");
                }
                _ => {
                    // drop something
                    let which = r.below(5);
                    match which {
                        0 if !st.udp.is_empty() => {
                            let i = r.below(st.udp.len() as u64) as usize;
                            st.udp.swap_remove(i);
                        }
                        1 if !st.lst.is_empty() => {
                            let i = r.below(st.lst.len() as u64) as usize;
                            st.lst.swap_remove(i);
                        }
                        2 if !st.streams.is_empty() => {
                            let i = r.below(st.streams.len() as u64) as usize;
                            st.streams.swap_remove(i);
                        }
                        3 if !st.rd.is_empty() => {
                            let i = r.below(st.rd.len() as u64) as usize;
                            st.rd.swap_remove(i);
                        }
                        4 if !st.wr.is_empty() => {
                            let i = r.below(st.wr.len() as u64) as usize;
                            st.wr.swap_remove(i);
                        }
                        _ => {}
                    }
                    // let FINs land so a reused pair is not refused / hit by
                    // a stale FIN (known, out of scope here)
                    tokio::time::sleep(Duration::from_millis(10)).await;
                }
            }
        }
        eprintln!("seed {seed} v6 {v6}: ephemeral assignments {eph}, refused {refused}");
        assert!(eph > 0);
        Ok(())
    });

    sim.run()
}

#[test]
fn model_v4() -> Result {
    for seed in 0..20 {
        run(seed, false, 1500, 50000, 50005)?;
    }
    Ok(())
}

#[test]
fn model_v6() -> Result {
    for seed in 100..120 {
        run(seed, true, 1500, 50000, 50005)?;
    }
    Ok(())
}

#[test]
fn model_top_of_port_space() -> Result {
    for seed in 200..210 {
        run(seed, false, 1500, 65533, 65535)?;
    }
    Ok(())
}

#[test]
fn model_single_port() -> Result {
    for seed in 300..310 {
        run(seed, seed % 2 == 0, 1500, 50000, 50000)?;
    }
    Ok(())
}

#[test]
fn model_wide() -> Result {
    for seed in 400..405 {
        run(seed, false, 3000, 50000, 50019)?;
    }
    Ok(())
}
