//! Audit C15 / DNS: names resolve to distinct, stable addresses; reverse
//! lookup inverts; literal-registered hosts never share an address with a
//! name; regex lookup. IPv4 and IPv6.

use std::collections::{BTreeMap, BTreeSet};
use std::net::IpAddr;
use std::time::Duration;

use regex::Regex;
use turmoil::net::{TcpListener, TcpStream};
use turmoil::{Builder, IpVersion, Result};

struct Lcg(u64);
impl Lcg {
    fn next(&mut self) -> u64 {
        self.0 = self
            .0
            .wrapping_mul(6364136223846793005)
            .wrapping_add(1442695040888963407);
        self.0 >> 33
    }
    fn below(&mut self, n: u64) -> u64 {
        self.next() % n
    }
}

fn subnet_addr(v6: bool, n: u32) -> IpAddr {
    if v6 {
        format!("fe80::{:x}:{:x}", n >> 16, n & 0xffff).parse().unwrap()
    } else {
        format!("192.168.{}.{}", n >> 8, n & 0xff).parse().unwrap()
    }
}

fn run(seed: u64, v6: bool) -> Result {
    let mut b = Builder::new();
    b.simulation_duration(Duration::from_secs(60));
    if v6 {
        b.ip_version(IpVersion::V6);
    }
    let mut sim = b.build();
    let mut r = Lcg(seed);

    const N: usize = 600;
    let names: Vec<String> = (0..N).map(|i| format!("node-{i}")).collect();
    // literal hosts inside the subnet, ahead of and around byte boundaries
    let literal_ns: Vec<u32> = vec![3, 10, 11, 254, 255, 256, 257, 300, 511, 512, 640];
    let mut literal_pending: Vec<IpAddr> = literal_ns.iter().map(|n| subnet_addr(v6, *n)).collect();
    let literals: BTreeSet<IpAddr> = literal_pending.iter().copied().collect();

    let mut model: BTreeMap<String, IpAddr> = BTreeMap::new();
    let mut registered: BTreeSet<IpAddr> = BTreeSet::new();
    let mut registered_names: BTreeSet<String> = BTreeSet::new();
    let mut literal_registered: BTreeSet<IpAddr> = BTreeSet::new();

    for step in 0..4000 {
        match r.below(10) {
            0 => {
                // register a literal host; only literal addresses no name owns yet
                if let Some(a) = literal_pending.pop() {
                    if model.values().any(|x| *x == a) {
                        continue;
                    }
                    match r.below(2) {
                        0 => sim.host(a, || async { Ok(()) }),
                        _ => sim.host(a.to_string(), || async { Ok(()) }),
                    }
                    registered.insert(a);
                    literal_registered.insert(a);
                }
            }
            1 => {
                // register a named host
                let n = &names[r.below(N as u64) as usize];
                if registered_names.contains(n) {
                    continue;
                }
                sim.host(n.as_str(), || async { Ok(()) });
                let a = sim.lookup(n.as_str());
                if let Some(prev) = model.get(n) {
                    assert_eq!(*prev, a, "step {step}: {n} moved");
                }
                assert!(
                    !registered.contains(&a),
                    "step {step}: {n} got {a}, which already belongs to another host"
                );
                model.insert(n.clone(), a);
                registered.insert(a);
                registered_names.insert(n.clone());
            }
            2 => {
                // regex
                let d = r.below(10);
                let re = Regex::new(&format!("^node-[0-9]*{d}$")).unwrap();
                let got: BTreeSet<IpAddr> = sim.lookup_many(re.clone()).into_iter().collect();
                let want: BTreeSet<IpAddr> = model
                    .iter()
                    .filter(|(n, _)| re.is_match(n))
                    .map(|(_, a)| *a)
                    .collect();
                assert_eq!(got, want, "step {step}: regex");
            }
            3 => {
                // literal lookups are identity
                let a = subnet_addr(v6, r.below(700) as u32 + 1);
                assert_eq!(sim.lookup(a), a);
                assert_eq!(sim.lookup(a.to_string()), a);
            }
            _ => {
                let n = &names[r.below(N as u64) as usize];
                let a = match r.below(3) {
                    0 => sim.lookup(n.as_str()),
                    1 => sim.lookup(n.clone()),
                    _ => sim.lookup_many(n.as_str())[0],
                };
                match model.get(n) {
                    Some(prev) => assert_eq!(*prev, a, "step {step}: {n} is not stable"),
                    None => {
                        assert!(
                            !model.values().any(|x| *x == a),
                            "step {step}: {n} got {a}, owned by another name"
                        );
                        assert!(
                            !literal_registered.contains(&a),
                            "step {step}: {n} got {a}, owned by a literal host"
                        );
                        assert_eq!(a.is_ipv6(), v6);
                        model.insert(n.clone(), a);
                    }
                }
                assert_eq!(sim.reverse_lookup(a).as_deref(), Some(n.as_str()));
            }
        }
    }

    // final sweep
    let mut seen = BTreeSet::new();
    for (n, a) in &model {
        assert_eq!(sim.lookup(n.as_str()), *a);
        assert_eq!(sim.reverse_lookup(*a).as_deref(), Some(n.as_str()));
        assert!(seen.insert(*a), "{a} handed out twice");
    }
    assert!(literal_registered.len() >= 5);
    for a in &literals {
        if literal_registered.contains(a) {
            assert!(
                !model.values().any(|x| x == a),
                "literal host {a} shares its address with a name {:?}",
                model.iter().find(|(_, x)| *x == a)
            );
            assert_eq!(sim.reverse_lookup(*a), None);
        }
    }
    assert!(model.len() > 300);
    Ok(())
}

#[test]
fn dns_model_v4() -> Result {
    for seed in 0..10 {
        run(seed, false)?;
    }
    Ok(())
}

#[test]
fn dns_model_v6() -> Result {
    for seed in 50..60 {
        run(seed, true)?;
    }
    Ok(())
}

/// Resolution inside the simulation (lookup, ToSocketAddrs by name, by
/// literal) agrees with the Sim's view.
#[test]
fn dns_in_sim() -> Result {
    for v6 in [false, true] {
        let mut b = Builder::new();
        if v6 {
            b.ip_version(IpVersion::V6);
        }
        let mut sim = b.build();
        let lit = subnet_addr(v6, 2);
        sim.host(lit, move || async move {
            let unspec: IpAddr = if v6 {
                std::net::Ipv6Addr::UNSPECIFIED.into()
            } else {
                std::net::Ipv4Addr::UNSPECIFIED.into()
            };
            let l = TcpListener::bind((unspec, 80)).await?;
            loop {
                let _ = l.accept().await?;
            }
        });
        sim.host("b", move || async move {
            let unspec: IpAddr = if v6 {
                std::net::Ipv6Addr::UNSPECIFIED.into()
            } else {
                std::net::Ipv4Addr::UNSPECIFIED.into()
            };
            let l = TcpListener::bind((unspec, 80)).await?;
            loop {
                let _ = l.accept().await?;
            }
        });
        sim.client("a", async move {
            let a = turmoil::lookup("a");
            let b = turmoil::lookup("b");
            assert_eq!(b, subnet_addr(v6, 1));
            assert_eq!(a, subnet_addr(v6, 3), "a must skip the literal host");
            let s = TcpStream::connect(("b", 80)).await?;
            assert_eq!(s.peer_addr()?.ip(), b);
            assert_eq!(s.local_addr()?.ip(), a);
            let s2 = TcpStream::connect((lit, 80)).await?;
            assert_eq!(s2.peer_addr()?.ip(), lit);
            let s3 = TcpStream::connect(format!("b:80")).await?;
            assert_eq!(s3.peer_addr()?.ip(), b);
            assert_eq!(turmoil::reverse_lookup(b).as_deref(), Some("b"));
            assert_eq!(turmoil::reverse_lookup(lit), None);
            Ok(())
        });
        sim.run()?;
    }
    Ok(())
}
