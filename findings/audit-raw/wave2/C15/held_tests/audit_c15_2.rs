//! Audit C15 / H2..: crash paths release ports.

use std::io::ErrorKind;
use std::net::{IpAddr, Ipv4Addr};
use std::time::Duration;

use tokio::io::AsyncReadExt;
use turmoil::net::{TcpListener, TcpStream, UdpSocket};
use turmoil::{Builder, Result};

const LO: u16 = 50000;
const HI: u16 = 50003;
const UNSPEC: IpAddr = IpAddr::V4(Ipv4Addr::UNSPECIFIED);

fn builder() -> Builder {
    let mut b = Builder::new();
    b.simulation_duration(Duration::from_secs(600))
        .min_message_latency(Duration::from_millis(1))
        .max_message_latency(Duration::from_millis(1))
        .ephemeral_ports(LO..=HI);
    b
}

/// A host that holds every kind of socket (in the main future, in spawned
/// tasks), is crashed and bounced: the new incarnation must be able to take
/// every port again, fixed and ephemeral.
#[test]
fn crash_releases_everything() -> Result {
    let mut sim = builder().build();

    sim.host("peer", || async {
        let l = TcpListener::bind((UNSPEC, 80)).await?;
        loop {
            let (mut s, _) = l.accept().await?;
            tokio::task::spawn_local(async move {
                let mut buf = [0u8; 8];
                while let Ok(n) = s.read(&mut buf).await {
                    if n == 0 {
                        break;
                    }
                }
            });
        }
    });

    let round = std::rc::Rc::new(std::cell::Cell::new(0u32));
    let r2 = round.clone();
    sim.host("h", move || {
        let round = r2.clone();
        async move {
            let n = round.get();
            round.set(n + 1);
            // whole range must be free in every incarnation
            let u = UdpSocket::bind((UNSPEC, 0)).await?;
            let l = TcpListener::bind((UNSPEC, 0)).await?;
            let s = TcpStream::connect(("peer", 80)).await?;
            let c = TcpStream::connect((Ipv4Addr::LOCALHOST, l.local_addr()?.port()));
            let (c, a) = tokio::join!(c, l.accept());
            let c = c?;
            let (a, _) = a?;
            let mut ports = vec![
                u.local_addr()?.port(),
                l.local_addr()?.port(),
                s.local_addr()?.port(),
                c.local_addr()?.port(),
            ];
            ports.sort();
            assert_eq!(ports, vec![50000, 50001, 50002, 50003], "incarnation {n}");
            // fixed ports
            let fu = UdpSocket::bind((UNSPEC, 7)).await?;
            let fl = TcpListener::bind((UNSPEC, 7)).await?;
            // park some of them in spawned tasks
            tokio::task::spawn_local(async move {
                let _keep = (u, fl);
                std::future::pending::<()>().await;
            });
            tokio::spawn(async move {
                let _keep = (s, a);
                std::future::pending::<()>().await;
            });
            let _keep = (l, c, fu);
            std::future::pending::<()>().await;
            Ok(())
        }
    });

    for i in 0..5 {
        for _ in 0..50 {
            sim.step()?;
        }
        assert_eq!(round.get(), i + 1);
        if i % 2 == 0 {
            sim.crash("h");
            for _ in 0..20 {
                sim.step()?;
            }
            sim.bounce("h");
        } else {
            sim.bounce("h");
        }
    }
    Ok(())
}

/// "a port becomes available again once ... its host crashes": the software
/// of a host has returned Ok while a task it spawned still owns a listener.
/// After Sim::crash nothing runs on the host and its ports are released, so a
/// connect is refused.
#[test]
fn crash_after_software_returned_releases_ports() -> Result {
    let mut sim = builder().build();

    sim.host("h", || async {
        let l = TcpListener::bind((UNSPEC, 9000)).await?;
        tokio::task::spawn_local(async move {
            loop {
                let _ = l.accept().await;
            }
        });
        Ok(())
    });

    // let the software return
    for _ in 0..10 {
        sim.step()?;
    }
    assert!(!sim.is_host_running("h"));
    sim.crash("h");

    sim.client("c", async {
        let r = tokio::time::timeout(
            Duration::from_secs(5),
            TcpStream::connect(("h", 9000)),
        )
        .await;
        match r {
            Ok(Err(e)) => assert_eq!(e.kind(), ErrorKind::ConnectionRefused),
            Ok(Ok(_)) => panic!("connected to a crashed host"),
            Err(_) => panic!("connect to a crashed host hangs: port 9000 is still bound"),
        }
        Ok(())
    });
    sim.run()
}

/// Crash while a connect is in flight (SYN held on the link): the port comes
/// back and the next incarnation can use the whole range.
#[test]
fn crash_mid_connect() -> Result {
    let mut sim = builder().build();
    sim.host("peer", || async {
        let l = TcpListener::bind((UNSPEC, 80)).await?;
        let mut keep = vec![];
        loop {
            let (s, _) = l.accept().await?;
            keep.push(s);
        }
    });
    let round = std::rc::Rc::new(std::cell::Cell::new(0u32));
    let r2 = round.clone();
    sim.host("h", move || {
        let round = r2.clone();
        async move {
            let n = round.get();
            round.set(n + 1);
            if n == 0 {
                turmoil::hold("h", "peer");
                let _ = tokio::join!(
                    TcpStream::connect(("peer", 80)),
                    TcpStream::connect(("peer", 80)),
                    TcpStream::connect(("peer", 80)),
                    TcpStream::connect(("peer", 80)),
                );
                unreachable!();
            }
            let mut v = vec![];
            for _ in LO..=HI {
                v.push(UdpSocket::bind((UNSPEC, 0)).await?);
            }
            std::future::pending::<()>().await;
            Ok(())
        }
    });
    for _ in 0..20 {
        sim.step()?;
    }
    sim.crash("h");
    sim.release("h", "peer");
    for _ in 0..20 {
        sim.step()?;
    }
    sim.bounce("h");
    for _ in 0..20 {
        sim.step()?;
    }
    assert_eq!(round.get(), 2);
    Ok(())
}
