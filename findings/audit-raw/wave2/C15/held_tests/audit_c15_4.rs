//! Audit C15 / turmoil-net: name allocation vs literal hosts; ephemeral
//! wrap-around.

use std::collections::BTreeSet;
use std::net::{IpAddr, Ipv4Addr};

use turmoil_net::fixture;
use turmoil_net::shim::tokio::net::{TcpListener, TcpStream, UdpSocket};
use turmoil_net::Net;

/// A host registered by a literal address inside 192.168.0.0/16 must not have
/// its address handed to a name: different hosts, different addresses.
#[test]
fn name_does_not_get_the_address_of_a_literal_host() {
    let mut net = Net::new();
    let lit: IpAddr = Ipv4Addr::new(192, 168, 0, 1).into();
    net.add_host(lit);
    let server = net.lookup("server");
    assert_ne!(
        server, lit,
        "the name `server` resolves to the address of the host registered as {lit}"
    );
    // and registering it works
    net.add_host("server");
}

#[test]
fn name_does_not_get_the_address_of_a_later_literal_host() {
    let mut net = Net::new();
    net.add_host("a"); // .1
    net.add_host("192.168.0.3");
    net.add_host("b"); // .2
    net.add_host("c"); // must skip .3
    assert_eq!(net.lookup("c"), IpAddr::from(Ipv4Addr::new(192, 168, 0, 4)));
}

/// Wrap the 16384-port ephemeral range more than once, with a few ports held:
/// never a collision with a held port of the same protocol, never a spurious
/// AddrInUse, ports return after close.
#[test]
fn ephemeral_wraparound_lo() {
    fixture::lo(async {
        // hold: a listener inside the range, a UDP socket inside the range,
        // a connected pair (client port ephemeral, accepted child on 49200).
        let l = TcpListener::bind("127.0.0.1:49200").await.unwrap();
        let u = UdpSocket::bind("127.0.0.1:49300").await.unwrap();
        let c = TcpStream::connect("127.0.0.1:49200").await.unwrap();
        let (a, _) = l.accept().await.unwrap();
        let held_tcp: BTreeSet<u16> = [49200, c.local_addr().unwrap().port()].into();
        let held_udp: BTreeSet<u16> = [49300].into();
        drop(l); // child `a` keeps 49200 busy

        let mut seen_tcp = BTreeSet::new();
        for i in 0..40000u32 {
            let t = TcpListener::bind("0.0.0.0:0").await.unwrap();
            let p = t.local_addr().unwrap().port();
            assert!(!held_tcp.contains(&p), "iteration {i}: tcp bind(0) -> {p} is held");
            seen_tcp.insert(p);
        }
        for i in 0..40000u32 {
            let s = UdpSocket::bind("0.0.0.0:0").await.unwrap();
            let q = s.local_addr().unwrap().port();
            assert!(!held_udp.contains(&q), "iteration {i}: udp bind(0) -> {q} is held");
        }
        assert_eq!(seen_tcp.len(), 16384 - 2);
        let _ = (a, c, u);
    });
}

/// Ports return after close: UDP immediately, listener immediately, a
/// connection's client port once both ends have closed.
#[test]
fn ports_return_after_close_lo() {
    fixture::lo(async {
        for _ in 0..3 {
            let u = UdpSocket::bind("127.0.0.1:6000").await.unwrap();
            assert_eq!(
                UdpSocket::bind("127.0.0.1:6000").await.unwrap_err().kind(),
                std::io::ErrorKind::AddrInUse
            );
            // wildcard vs specific conflicts as well
            assert_eq!(
                UdpSocket::bind("0.0.0.0:6000").await.unwrap_err().kind(),
                std::io::ErrorKind::AddrInUse
            );
            drop(u);

            let l = TcpListener::bind("127.0.0.1:6000").await.unwrap();
            assert_eq!(
                TcpListener::bind("127.0.0.1:6000").await.unwrap_err().kind(),
                std::io::ErrorKind::AddrInUse
            );
            let c = TcpStream::connect("127.0.0.1:6000").await.unwrap();
            let cp = c.local_addr().unwrap().port();
            let (a, _) = l.accept().await.unwrap();
            // client's ephemeral port is a TCP binding
            assert_eq!(
                TcpListener::bind(("127.0.0.1", cp)).await.unwrap_err().kind(),
                std::io::ErrorKind::AddrInUse
            );
            drop(c);
            drop(a);
            drop(l);
            tokio::time::sleep(std::time::Duration::from_millis(50)).await;
            let again = TcpListener::bind(("127.0.0.1", cp)).await.unwrap();
            drop(again);
            let again = TcpListener::bind("127.0.0.1:6000").await.unwrap();
            drop(again);
        }
    });
}
