//! Audit C15 / F2: turmoil-net's Dns hands a name the address of a host that
//! was registered by a literal address inside 192.168.0.0/16 (the variant, in
//! turmoil-net, of the defect repaired in turmoil::Dns by d830861).
//!
//! Destination: crates/turmoil-net/tests/audit_c15_f2.rs
//! Command:     cd /tmp/wt6/C15 && CARGO_TARGET_DIR=/tmp/wt6/C15/target \
//!              cargo test -p turmoil-net --offline --test audit_c15_f2

use std::net::{IpAddr, Ipv4Addr};

use turmoil_net::Net;

/// A host registered by a literal address inside the subnet must not have
/// its address handed to a name: different hosts, different addresses.
#[test]
fn name_does_not_get_the_address_of_a_literal_host() {
    let mut net = Net::new();
    let lit: IpAddr = Ipv4Addr::new(192, 168, 0, 1).into();
    net.add_host(lit);
    let server = net.lookup("server");
    assert_ne!(
        server, lit,
        "the name `server` resolves to the address of the host registered as {lit}"
    );
    // and registering the name works
    net.add_host("server");
}

/// Same with the literal host in the path of the counter: the third name
/// must skip 192.168.0.3 instead of making add_host panic with AddrInUse.
#[test]
fn name_does_not_get_the_address_of_a_later_literal_host() {
    let mut net = Net::new();
    net.add_host("a"); // .1
    net.add_host("192.168.0.3");
    net.add_host("b"); // .2
    net.add_host("c"); // must skip .3
    assert_eq!(net.lookup("c"), IpAddr::from(Ipv4Addr::new(192, 168, 0, 4)));
}
