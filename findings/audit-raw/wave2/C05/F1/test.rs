//! Audit C05, hypothesis 1: a destructor of host state that runs because of
//! `Sim::crash` / `Sim::bounce` reads the host's tokio clock
//! (`tokio::time::Instant`) and must see the virtual time of the host (the end
//! of the last step), consistent with `turmoil::elapsed()`.

use std::cell::RefCell;
use std::rc::Rc;
use std::time::Duration;

use tokio::time::Instant;
use turmoil::Builder;

#[derive(Debug, Clone)]
struct Seen {
    /// `Instant::elapsed()` of an Instant taken at host time 0.
    tokio_elapsed: Duration,
    /// `turmoil::elapsed()` at the same moment.
    turmoil_elapsed: Duration,
    /// Whether a tokio runtime (and with it the paused clock) was entered.
    in_runtime: bool,
}

struct Guard {
    start: Instant,
    out: Rc<RefCell<Vec<Seen>>>,
}

impl Drop for Guard {
    fn drop(&mut self) {
        self.out.borrow_mut().push(Seen {
            tokio_elapsed: self.start.elapsed(),
            turmoil_elapsed: turmoil::elapsed(),
            in_runtime: tokio::runtime::Handle::try_current().is_ok(),
        });
    }
}

#[derive(Clone, Copy, PartialEq)]
enum Task {
    /// the host's software future itself (lives in the LocalSet)
    Main,
    /// a `tokio::task::spawn_local` child (lives in the LocalSet)
    Local,
    /// a `tokio::spawn` child (lives in the runtime)
    Runtime,
}

fn scenario(bounce: bool) -> Seen {
    scenario_in(bounce, Task::Main)
}

fn scenario_in(bounce: bool, task: Task) -> Seen {
    let tick = Duration::from_millis(5);
    let mut sim = Builder::new().tick_duration(tick).build();

    let out: Rc<RefCell<Vec<Seen>>> = Rc::new(RefCell::new(Vec::new()));
    let o = out.clone();
    sim.host("h", move || {
        let out = o.clone();
        async move {
            // a metrics style guard: measures how long the request was in
            // flight, on the host's (virtual) clock
            let guard = Guard {
                start: Instant::now(),
                out,
            };
            let work = async move {
                let _guard = guard;
                tokio::time::sleep(Duration::from_secs(3600)).await;
            };
            match task {
                Task::Main => work.await,
                Task::Local => tokio::task::spawn_local(work).await.unwrap(),
                Task::Runtime => {
                    // (the guard is !Send because of the Rc; the test is single
                    // threaded, so wrap it)
                    struct SendIt<F>(F);
                    unsafe impl<F> Send for SendIt<F> {}
                    impl<F: std::future::Future> std::future::Future for SendIt<F> {
                        type Output = F::Output;
                        fn poll(
                            self: std::pin::Pin<&mut Self>,
                            cx: &mut std::task::Context<'_>,
                        ) -> std::task::Poll<F::Output> {
                            unsafe { self.map_unchecked_mut(|s| &mut s.0) }.poll(cx)
                        }
                    }
                    tokio::spawn(SendIt(work)).await.unwrap()
                }
            }
            Ok(())
        }
    });

    // 400 steps of 5 ms: the host has lived for exactly 2 s of virtual time.
    for _ in 0..400 {
        sim.step().unwrap();
    }
    assert_eq!(sim.elapsed(), Duration::from_secs(2));

    if bounce {
        sim.bounce("h");
    } else {
        sim.crash("h");
    }

    let seen = out.borrow().first().cloned().expect("guard was dropped");
    seen
}

#[test]
fn crash_destructor_reads_virtual_tokio_clock() {
    let seen = scenario(false);
    println!("{seen:?}");
    assert_eq!(seen.turmoil_elapsed, Duration::from_secs(2));
    assert_eq!(
        seen.tokio_elapsed,
        Duration::from_secs(2),
        "the tokio clock seen by a destructor at crash is not the host's virtual time ({seen:?})"
    );
    assert!(seen.in_runtime);
}

#[test]
fn bounce_destructor_reads_virtual_tokio_clock() {
    let seen = scenario(true);
    println!("{seen:?}");
    assert_eq!(seen.turmoil_elapsed, Duration::from_secs(2));
    assert_eq!(
        seen.tokio_elapsed,
        Duration::from_secs(2),
        "the tokio clock seen by a destructor at bounce is not the host's virtual time ({seen:?})"
    );
    assert!(seen.in_runtime);
}

#[test]
fn spawn_local_destructor_reads_virtual_tokio_clock() {
    let seen = scenario_in(false, Task::Local);
    println!("{seen:?}");
    assert_eq!(seen.turmoil_elapsed, Duration::from_secs(2));
    assert_eq!(seen.tokio_elapsed, Duration::from_secs(2), "{seen:?}");
}

/// Contrast (passes on the unmodified tree): a task spawned with
/// `tokio::spawn` is owned by the runtime, whose Drop enters its own context,
/// so its destructors do read the virtual clock.
#[test]
fn runtime_task_destructor_reads_virtual_tokio_clock() {
    let seen = scenario_in(false, Task::Runtime);
    println!("{seen:?}");
    assert_eq!(seen.turmoil_elapsed, Duration::from_secs(2));
    assert_eq!(seen.tokio_elapsed, Duration::from_secs(2), "{seen:?}");
}
