//! Audit C05, targeted hypotheses.

use std::cell::{Cell, RefCell};
use std::rc::Rc;
use std::time::Duration;

use tokio::time::{sleep, Instant};
use turmoil::Builder;

fn ms(n: u64) -> Duration {
    Duration::from_millis(n)
}

/// H3a: the synchronous part of the host factory (run by `Sim::bounce`, between
/// steps) reads clocks that agree with `Sim::elapsed`.
#[test]
fn factory_at_bounce_reads_consistent_clocks() {
    let mut sim = Builder::new().tick_duration(ms(7)).build();
    for _ in 0..3 {
        sim.step().unwrap();
    }
    let reg = sim.elapsed();
    let seen: Rc<RefCell<Vec<(Option<Duration>, Option<Duration>)>>> = Rc::default();
    let first = Rc::new(Cell::new(true));
    let (s, f) = (seen.clone(), first.clone());
    sim.host("h", move || {
        if !f.replace(false) {
            // only at bounce: at registration no host is current
            s.borrow_mut()
                .push((Some(turmoil::elapsed()), turmoil::sim_elapsed()));
        }
        async {
            sleep(ms(3)).await;
            Ok(())
        }
    });
    for _ in 0..5 {
        sim.step().unwrap();
    }
    sim.crash("h");
    for _ in 0..4 {
        sim.step().unwrap();
    }
    sim.bounce("h");
    let now = sim.elapsed();
    assert_eq!(
        seen.borrow()[0],
        (Some(now - reg), Some(now)),
        "factory at bounce"
    );
}

/// H3b: a destructor that runs at crash reads turmoil's clocks: all agree with
/// Sim::elapsed / Sim::since_epoch (the in-step progress is not counted twice).
#[test]
fn destructor_turmoil_clocks_at_crash() {
    struct G(Rc<RefCell<Vec<(Duration, Duration, Duration)>>>);
    impl Drop for G {
        fn drop(&mut self) {
            if !turmoil::in_simulation() {
                return; // the Sim itself is being dropped at the end of the test
            }
            self.0.borrow_mut().push((
                turmoil::elapsed(),
                turmoil::sim_elapsed().unwrap(),
                turmoil::since_epoch().unwrap(),
            ));
        }
    }
    for tick in [1u64, 4, 9, 100] {
        let mut sim = Builder::new().tick_duration(ms(tick)).build();
        let epoch = sim.since_epoch();
        sim.step().unwrap();
        sim.step().unwrap();
        let reg = sim.elapsed();
        let seen: Rc<RefCell<Vec<_>>> = Rc::default();
        let s = seen.clone();
        sim.host("h", move || {
            let g = G(s.clone());
            async move {
                let _g = g;
                loop {
                    sleep(ms(3)).await;
                }
            }
        });
        for _ in 0..11 {
            sim.step().unwrap();
        }
        sim.crash("h");
        let now = sim.elapsed();
        assert_eq!(seen.borrow()[0], (now - reg, now, epoch + now), "tick {tick}");
        for _ in 0..5 {
            sim.step().unwrap();
        }
        sim.bounce("h");
        sim.step().unwrap();
        sim.bounce("h");
        let now = sim.elapsed();
        assert_eq!(seen.borrow()[1], (now - reg, now, epoch + now), "tick {tick}");
    }
}

/// H3d: a host that finished on its own keeps ticking and restarts at the
/// right time; a bounce of a running host does not lose or add time.
#[test]
fn finished_host_and_running_bounce() {
    let tick = ms(6);
    let mut sim = Builder::new().tick_duration(tick).build();
    let seen: Rc<RefCell<Vec<Duration>>> = Rc::default();
    let s = seen.clone();
    sim.host("h", move || {
        let s = s.clone();
        async move {
            s.borrow_mut().push(turmoil::elapsed());
            sleep(ms(4)).await;
            s.borrow_mut().push(turmoil::elapsed());
            Ok(())
        }
    });
    sim.step().unwrap(); // finishes at 4 ms inside step 0
    assert!(!sim.is_host_running("h"));
    for _ in 0..9 {
        sim.step().unwrap();
    }
    sim.bounce("h"); // at 60 ms
    sim.bounce("h"); // bounce of a running (not yet polled) host
    sim.step().unwrap();
    assert_eq!(*seen.borrow(), vec![ms(0), ms(4), ms(60), ms(64)]);
}

/// H3e: tokio::spawn (runtime) tasks as well as spawn_local tasks observe the
/// same clock, and a timer armed before a step boundary for exactly the
/// boundary fires at the boundary.
#[test]
fn boundary_timers_and_spawn_kinds() {
    for tick in [1u64, 5, 10] {
        let mut sim = Builder::new().tick_duration(ms(tick)).build();
        sim.client("c", async move {
            let a = tokio::spawn(async move {
                let mut v = vec![];
                for k in 1..=20u64 {
                    sleep(ms(tick)).await;
                    v.push(turmoil::elapsed());
                    assert_eq!(turmoil::elapsed(), ms(tick * k));
                }
                v
            });
            let b = tokio::task::spawn_local(async move {
                let t0 = Instant::now();
                for k in 1..=20u64 {
                    tokio::time::sleep_until(t0 + ms(tick * k)).await;
                    assert_eq!(turmoil::elapsed(), ms(tick * k));
                    assert_eq!(turmoil::sim_elapsed().unwrap(), ms(tick * k));
                }
            });
            a.await.unwrap();
            b.await.unwrap();
            Ok(())
        });
        sim.run().unwrap();
        // both finish at 20 * tick, observed at the start of step 20
        assert_eq!(sim.elapsed(), ms(tick * 21));
    }
}

/// H3f: clients and hosts registered between two `run()`s.
#[test]
fn registration_between_runs() {
    for tick in [3u64, 10, 40] {
        let mut sim = Builder::new().tick_duration(ms(tick)).build();
        let epoch = sim.since_epoch();
        sim.client("c1", async move {
            sleep(ms(25)).await;
            assert_eq!(turmoil::elapsed(), ms(25));
            Ok(())
        });
        sim.run().unwrap();
        let t1 = sim.elapsed();
        // the client is seen finished in the step that contains 25 ms
        assert_eq!(t1, ms((25 / tick + 1) * tick));

        sim.host("h", move || async move {
            loop {
                let e0 = turmoil::elapsed();
                sleep(ms(7)).await;
                assert_eq!(turmoil::elapsed(), e0 + ms(7));
                assert_eq!(turmoil::sim_elapsed().unwrap(), turmoil::elapsed() + t1);
            }
        });
        sim.client("c2", async move {
            assert_eq!(turmoil::elapsed(), Duration::ZERO);
            assert_eq!(turmoil::sim_elapsed().unwrap(), t1);
            assert_eq!(turmoil::since_epoch().unwrap(), epoch + t1);
            sleep(ms(33)).await;
            assert_eq!(turmoil::elapsed(), ms(33));
            assert_eq!(turmoil::sim_elapsed().unwrap(), t1 + ms(33));
            Ok(())
        });
        sim.run().unwrap();
        assert_eq!(sim.elapsed(), t1 + ms((33 / tick + 1) * tick));
        assert_eq!(sim.since_epoch(), epoch + sim.elapsed());
    }
}
