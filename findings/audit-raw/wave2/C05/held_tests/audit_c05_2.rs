//! Audit C05, hypothesis family 2: randomized schedules. Whole-millisecond
//! ticks (dividing the sleeps or not, longer than the sleeps or not), hosts
//! and clients registered before the first step and between steps, several
//! tasks per host using sleep / timeout / interval / sleep_until / Instant,
//! crash and bounce at random steps, finished hosts, random order on / off,
//! random epoch. Every observation made by host code is checked against the
//! window of the step the driver is currently executing.

use std::cell::{Cell, RefCell};
use std::future::pending;
use std::rc::Rc;
use std::time::{Duration, SystemTime, UNIX_EPOCH};

use tokio::time::{interval, sleep, sleep_until, timeout, Instant};
use turmoil::{Builder, Sim};

#[derive(Clone)]
struct Rng(u64);
impl Rng {
    fn next(&mut self) -> u64 {
        // xorshift64*
        let mut x = self.0;
        x ^= x >> 12;
        x ^= x << 25;
        x ^= x >> 27;
        self.0 = x;
        x.wrapping_mul(0x2545F4914F6CDD1D)
    }
    fn below(&mut self, n: u64) -> u64 {
        self.next() % n
    }
}

struct Shared {
    tick: Duration,
    epoch: Duration,
    /// sim time at the start of the step being executed
    step_start: Cell<Duration>,
    in_step: Cell<bool>,
    violations: RefCell<Vec<String>>,
    observations: Cell<u64>,
    restarts: Cell<u64>,
}

impl Shared {
    fn fail(&self, msg: String) {
        let mut v = self.violations.borrow_mut();
        if v.len() < 20 {
            v.push(msg);
        }
    }
}

struct HostCtx {
    name: String,
    reg_offset: Duration,
    last_sim: Cell<Duration>,
    incarnations: Cell<u64>,
    sh: Rc<Shared>,
}

impl HostCtx {
    /// Read all the clocks, check they agree, are monotone and inside the
    /// window of the current step. Returns the host time.
    fn observe(&self, what: &str) -> Duration {
        let sh = &self.sh;
        sh.observations.set(sh.observations.get() + 1);
        let e = turmoil::elapsed();
        let s = turmoil::sim_elapsed().expect("sim_elapsed");
        let ep = turmoil::since_epoch().expect("since_epoch");
        if !sh.in_step.get() {
            sh.fail(format!("{} {what}: host code ran outside of a step", self.name));
        }
        if s != e + self.reg_offset {
            sh.fail(format!(
                "{} {what}: sim_elapsed {s:?} != elapsed {e:?} + registration {:?}",
                self.name, self.reg_offset
            ));
        }
        if ep != sh.epoch + s {
            sh.fail(format!(
                "{} {what}: since_epoch {ep:?} != epoch {:?} + sim {s:?}",
                self.name, sh.epoch
            ));
        }
        let lo = sh.step_start.get();
        let hi = lo + sh.tick;
        if s < lo || s > hi {
            sh.fail(format!(
                "{} {what}: sim time {s:?} outside of the step window [{lo:?}, {hi:?}]",
                self.name
            ));
        }
        if s < self.last_sim.get() {
            sh.fail(format!(
                "{} {what}: time went backwards {:?} -> {s:?}",
                self.name,
                self.last_sim.get()
            ));
        }
        self.last_sim.set(s);
        e
    }

    fn expect_after(&self, what: &str, e0: Duration, i0: Instant, d: Duration) {
        let e1 = self.observe(what);
        if e1 != e0 + d {
            self.sh.fail(format!(
                "{} {what}: started at {e0:?}, waited {d:?}, woke at {e1:?}",
                self.name
            ));
        }
        let ie = i0.elapsed();
        if ie != d {
            self.sh.fail(format!(
                "{} {what}: Instant::elapsed {ie:?} != {d:?}",
                self.name
            ));
        }
    }
}

fn ms(n: u64) -> Duration {
    Duration::from_millis(n)
}

async fn worker(ctx: Rc<HostCtx>, mut rng: Rng, budget_ms: Option<u64>) {
    let begin = ctx.observe("worker start");
    loop {
        if let Some(b) = budget_ms {
            if turmoil::elapsed() - begin >= ms(b) {
                return;
            }
        }
        let e0 = ctx.observe("op");
        let i0 = Instant::now();
        let d = match rng.below(6) {
            0 => rng.below(4),
            1 => 1 + rng.below(10),
            2 => 1 + rng.below(40),
            3 => 1 + rng.below(200),
            4 => 5 * (1 + rng.below(10)),
            _ => 1 + rng.below(3),
        };
        match rng.below(6) {
            0 | 1 => {
                sleep(ms(d)).await;
                ctx.expect_after("sleep", e0, i0, ms(d));
            }
            2 => {
                let r = timeout(ms(d), pending::<()>()).await;
                assert!(r.is_err());
                ctx.expect_after("timeout(pending)", e0, i0, ms(d));
            }
            3 => {
                let inner = rng.below(d + 1);
                let r = timeout(ms(d + 1), sleep(ms(inner))).await;
                if r.is_err() {
                    ctx.sh.fail(format!(
                        "{}: timeout {} fired before sleep {}",
                        ctx.name,
                        d + 1,
                        inner
                    ));
                }
                ctx.expect_after("timeout(sleep)", e0, i0, ms(inner));
            }
            4 => {
                sleep_until(i0 + ms(d)).await;
                ctx.expect_after("sleep_until", e0, i0, ms(d));
            }
            _ => {
                let period = d.max(1);
                let mut iv = interval(ms(period));
                let n = 1 + rng.below(4);
                for k in 0..n {
                    iv.tick().await;
                    ctx.expect_after("interval", e0, i0, ms(period * k));
                }
            }
        }
    }
}

/// Software of a host / client: checks that its first poll happens exactly at
/// the start of a step, then runs `tasks` concurrent workers.
async fn software(ctx: Rc<HostCtx>, seed: u64, tasks: u64, budget_ms: Option<u64>) -> turmoil::Result {
    let inc = ctx.incarnations.get();
    ctx.incarnations.set(inc + 1);
    if inc > 0 {
        ctx.sh.restarts.set(ctx.sh.restarts.get() + 1);
    }
    let e = ctx.observe("first poll");
    let s = e + ctx.reg_offset;
    if s != ctx.sh.step_start.get() {
        ctx.sh.fail(format!(
            "{} incarnation {inc}: first poll at sim {s:?}, step starts at {:?}",
            ctx.name,
            ctx.sh.step_start.get()
        ));
    }
    let mut rng = Rng(seed ^ (inc + 1).wrapping_mul(0x9E3779B97F4A7C15) | 1);
    let mut handles = Vec::new();
    for _ in 0..tasks {
        let r = Rng(rng.next() | 1);
        handles.push(tokio::task::spawn_local(worker(ctx.clone(), r, budget_ms)));
    }
    for h in handles {
        h.await.unwrap();
    }
    ctx.observe("software end");
    Ok(())
}

fn new_ctx(sim: &Sim<'_>, sh: &Rc<Shared>, name: &str) -> Rc<HostCtx> {
    Rc::new(HostCtx {
        name: name.to_string(),
        reg_offset: sim.elapsed(),
        last_sim: Cell::new(Duration::ZERO),
        incarnations: Cell::new(0),
        sh: sh.clone(),
    })
}

fn add_host(sim: &mut Sim<'_>, sh: &Rc<Shared>, name: &str, rng: &mut Rng) {
    let ctx = new_ctx(sim, sh, name);
    let seed = rng.next();
    let tasks = 1 + rng.below(3);
    // some hosts finish on their own (and are later bounced), most run forever
    let budget = if rng.below(3) == 0 {
        Some(10 + rng.below(300))
    } else {
        None
    };
    sim.host(name, move || software(ctx.clone(), seed, tasks, budget));
}

fn add_client(sim: &mut Sim<'_>, sh: &Rc<Shared>, name: &str, rng: &mut Rng) {
    let ctx = new_ctx(sim, sh, name);
    let seed = rng.next();
    let tasks = 1 + rng.below(3);
    let budget = Some(20 + rng.below(2000));
    sim.client(name, software(ctx, seed, tasks, budget));
}

fn run_schedule(seed: u64, tick_ms: u64, steps: u64) -> (u64, u64) {
    let mut rng = Rng(seed.wrapping_mul(0x9E3779B97F4A7C15) | 1);
    let tick = ms(tick_ms);
    let epoch_d = Duration::new(rng.below(4_000_000_000), rng.below(1_000_000_000) as u32);
    let epoch: SystemTime = UNIX_EPOCH + epoch_d;
    let random_order = rng.below(2) == 0;

    let mut b = Builder::new();
    b.tick_duration(tick)
        .epoch(epoch)
        .simulation_duration(Duration::from_secs(1_000_000))
        .rng_seed(seed);
    if random_order {
        b.enable_random_order();
    }
    if seed % 3 == 0 {
        b.enable_tokio_io();
    }
    let mut sim = b.build();

    let sh = Rc::new(Shared {
        tick,
        epoch: epoch_d,
        step_start: Cell::new(Duration::ZERO),
        in_step: Cell::new(false),
        violations: RefCell::new(Vec::new()),
        observations: Cell::new(0),
        restarts: Cell::new(0),
    });

    let mut hosts: Vec<String> = Vec::new();
    for i in 0..(1 + rng.below(3)) {
        let name = format!("h{i}");
        add_host(&mut sim, &sh, &name, &mut rng);
        hosts.push(name);
    }
    let mut clients = 0;
    for _ in 0..(1 + rng.below(2)) {
        add_client(&mut sim, &sh, &format!("c{clients}"), &mut rng);
        clients += 1;
    }

    assert_eq!(sim.since_epoch(), epoch_d);

    for k in 0..steps {
        // faults and registrations between steps
        match rng.below(12) {
            0 => {
                let h = &hosts[rng.below(hosts.len() as u64) as usize];
                sim.crash(h.as_str());
            }
            1 | 2 => {
                let h = &hosts[rng.below(hosts.len() as u64) as usize];
                sim.bounce(h.as_str());
            }
            3 if hosts.len() < 6 => {
                let name = format!("h{}", hosts.len());
                add_host(&mut sim, &sh, &name, &mut rng);
                hosts.push(name);
            }
            4 if clients < 5 => {
                add_client(&mut sim, &sh, &format!("c{clients}"), &mut rng);
                clients += 1;
            }
            _ => {}
        }

        assert_eq!(sim.elapsed(), tick * k as u32, "seed {seed} tick {tick_ms}");
        assert_eq!(sim.since_epoch(), epoch_d + tick * k as u32);
        sh.step_start.set(sim.elapsed());
        sh.in_step.set(true);
        sim.step().unwrap();
        sh.in_step.set(false);
        assert_eq!(sim.elapsed(), tick * (k as u32 + 1));
    }

    let v = sh.violations.borrow();
    assert!(
        v.is_empty(),
        "seed {seed} tick {tick_ms} ms random_order {random_order}: {} violations, first:\n{}",
        v.len(),
        v.join("\n")
    );
    assert!(sh.observations.get() > 10);
    (sh.observations.get(), sh.restarts.get())
}

#[test]
fn randomized_schedules() {
    let mut total = 0;
    let (mut obs, mut restarts) = (0, 0);
    for seed in 1..=60u64 {
        for &tick_ms in &[1u64, 2, 3, 5, 7, 10, 16, 50, 100, 250, 1000] {
            let steps = if tick_ms >= 100 { 40 } else { 250 };
            let (o, r) = run_schedule(seed, tick_ms, steps);
            obs += o;
            restarts += r;
            total += 1;
        }
    }
    println!("{total} schedules, {obs} checked observations, {restarts} restarted incarnations");
}
