//! Audit C05, observation (NOT counted as a finding): ticks / sleeps longer than
//! the horizon of tokio's timer wheel (2^36 ms, about 795 days). The simulation
//! clock and the host clocks still advance by exactly one tick per step, but a
//! host sleep beyond the horizon wakes late when the per-step sleep of
//! `Rt::tick` is beyond the horizon too. The same misfire reproduces with
//! tokio 1.53.1 alone (second test), so the root cause is in the dependency.
//!
//! Destination: crates/turmoil/tests/audit_c05_obs.rs
//! cargo test --offline -p turmoil --test audit_c05_obs

use std::cell::RefCell;
use std::rc::Rc;
use std::time::Duration;

use tokio::time::{sleep, Instant};
use turmoil::Builder;

fn ms(n: u64) -> Duration {
    Duration::from_millis(n)
}

/// H3c: ticks far longer than the tokio timer wheel horizon (~2.2 years).
#[test]
fn giant_ticks() {
    let day = Duration::from_secs(86_400);
    let tick = day * 1000;
    let mut sim = Builder::new()
        .tick_duration(tick)
        .simulation_duration(Duration::MAX)
        .build();
    let wakes: Rc<RefCell<Vec<Duration>>> = Rc::default();
    let w = wakes.clone();
    sim.client("c", async move {
        let t0 = Instant::now();
        sleep(day * 1500).await;
        w.borrow_mut().push(turmoil::elapsed());
        assert_eq!(t0.elapsed(), day * 1500);
        sleep(day * 1500 + ms(1)).await;
        w.borrow_mut().push(turmoil::elapsed());
        Ok(())
    });
    let mut steps = 0;
    while !sim.step().unwrap() {
        steps += 1;
        assert!(steps < 10);
    }
    assert_eq!(*wakes.borrow(), vec![day * 1500, day * 3000 + ms(1)]);
    assert_eq!(sim.elapsed(), tick * 4);
}


/// tokio alone: a 1500 day sleep stepped over by 1000 day sleeps in separate
/// `block_on`s wakes after 3082 days.
#[test]
fn pure_tokio_long_sleep() {
    let day = Duration::from_secs(86_400);
    let rt = tokio::runtime::Builder::new_current_thread()
        .enable_time()
        .start_paused(true)
        .build()
        .unwrap();
    let t0 = {
        let _g = rt.enter();
        Instant::now()
    };
    let h = rt.spawn(async move {
        sleep(day * 1500).await;
        t0.elapsed()
    });
    while !h.is_finished() {
        rt.block_on(async {
            sleep(day * 1000).await;
        });
    }
    assert_eq!(rt.block_on(h).unwrap(), day * 1500);
}
