//! Exhaustive delivery orders: hold the link, let both sides write their
//! segments + FIN, then deliver the held messages one per step in every
//! possible order (Lehmer-coded), with readers running concurrently.

use std::{cell::Cell, rc::Rc, time::Duration};

use tokio::io::{AsyncReadExt, AsyncWriteExt};
use turmoil::{
    net::{TcpListener, TcpStream},
    Builder, Result,
};

const PORT: u16 = 1738;

fn payload(dir: u8, n: usize) -> Vec<Vec<u8>> {
    (0..n)
        .map(|i| vec![dir * 16 + i as u8; 1 + (i % 3)])
        .collect()
}

/// `code[i]` picks which of the remaining in-flight messages is delivered at
/// round i (modulo the number remaining).
fn run_order(
    code: &[usize],
    c2s: usize,
    s2c: usize,
    cap: usize,
    drop_instead_of_shutdown: bool,
    read_buf: usize,
) -> std::result::Result<(), String> {
    let mut sim = Builder::new()
        .tcp_capacity(cap)
        .min_message_latency(Duration::from_millis(1))
        .max_message_latency(Duration::from_millis(1))
        .build();

    let connected = Rc::new(Cell::new(0u32));
    let go = Rc::new(Cell::new(false));
    let done = Rc::new(Cell::new(0u32));

    let side = |is_server: bool| {
        let connected = connected.clone();
        let go = go.clone();
        let done = done.clone();
        async move {
            let s = if is_server {
                let l = TcpListener::bind(("0.0.0.0", PORT)).await?;
                l.accept().await?.0
            } else {
                TcpStream::connect(("server", PORT)).await?
            };
            connected.set(connected.get() + 1);
            while !go.get() {
                tokio::time::sleep(Duration::from_millis(1)).await;
            }
            let (mine, theirs, nm, nt) = if is_server {
                (2u8, 1u8, s2c, c2s)
            } else {
                (1u8, 2u8, c2s, s2c)
            };
            let (mut r, mut w) = s.into_split();
            let wt = tokio::spawn(async move {
                for chunk in payload(mine, nm) {
                    w.write_all(&chunk).await.unwrap();
                }
                if drop_instead_of_shutdown {
                    drop(w);
                } else {
                    w.shutdown().await.unwrap();
                    // keep the half alive until the end
                    tokio::time::sleep(Duration::from_secs(5)).await;
                }
            });
            let expect: Vec<u8> = payload(theirs, nt).concat();
            let mut got = Vec::new();
            loop {
                let mut buf = vec![0u8; read_buf];
                let n = r.read(&mut buf).await.map_err(|e| {
                    format!("server={is_server} read error {e} after {:?}", got)
                })?;
                if n == 0 {
                    break;
                }
                got.extend_from_slice(&buf[..n]);
                assert!(expect.starts_with(&got), "prefix: {got:?} vs {expect:?}");
            }
            if got != expect {
                return Err(format!("server={is_server} EOF early {got:?} vs {expect:?}").into());
            }
            done.set(done.get() + 1);
            drop(r);
            wt.await.unwrap();
            Ok(())
        }
    };

    sim.client("server", side(true));
    sim.client("client", side(false));

    let mut steps = 0;
    while connected.get() < 2 {
        sim.step().map_err(|e| e.to_string())?;
        steps += 1;
        assert!(steps < 1000);
    }
    sim.hold("client", "server");
    go.set(true);
    // let both sides write what they can
    for _ in 0..5 {
        sim.step().map_err(|e| e.to_string())?;
    }

    let mut round = 0;
    let mut idle = 0;
    loop {
        let mut remaining = 0;
        sim.links(|links| {
            for link in links {
                remaining += link.count();
            }
        });
        if remaining == 0 {
            idle += 1;
            if idle > 5 {
                break;
            }
        } else {
            idle = 0;
            let pick = code.get(round).copied().unwrap_or(0) % remaining;
            round += 1;
            sim.links(|links| {
                let mut k = 0;
                for link in links {
                    for sent in link {
                        if k == pick {
                            sent.deliver();
                        }
                        k += 1;
                    }
                }
            });
        }
        sim.step().map_err(|e| e.to_string())?;
        sim.step().map_err(|e| e.to_string())?;
    }
    sim.release("client", "server");
    for _ in 0..200 {
        if done.get() == 2 {
            return Ok(());
        }
        sim.step().map_err(|e| e.to_string())?;
    }
    Err(format!("stalled: done = {}", done.get()))
}

fn all_codes(n: usize, f: &mut dyn FnMut(&[usize])) {
    fn rec(i: usize, n: usize, cur: &mut Vec<usize>, f: &mut dyn FnMut(&[usize])) {
        if i == n {
            f(cur);
            return;
        }
        for c in 0..(n - i) {
            cur.push(c);
            rec(i + 1, n, cur, f);
            cur.pop();
        }
    }
    rec(0, n, &mut Vec::new(), f);
}

#[test]
fn exhaustive_orders_one_direction() -> Result {
    for &(cap, dropw, rb) in &[(8usize, false, 2usize), (8, true, 1), (8, false, 64)] {
        let n = 4; // data segments; + FIN = 5 messages
        let mut failures = Vec::new();
        all_codes(n + 1, &mut |code| {
            if let Err(e) = run_order(code, n, 0, cap, dropw, rb) {
                failures.push(format!("cap {cap} drop {dropw} rb {rb} code {code:?}: {e}"));
            }
        });
        assert!(failures.is_empty(), "{} failures, first: {}", failures.len(), failures[0]);
    }
    Ok(())
}

#[test]
fn exhaustive_orders_both_directions() -> Result {
    for &(dropw, rb) in &[(false, 2usize), (true, 64)] {
        let mut failures = Vec::new();
        // 3 data + FIN one way, 2 data + FIN the other: 7 messages, 5040 orders
        all_codes(7, &mut |code| {
            if let Err(e) = run_order(code, 3, 2, 8, dropw, rb) {
                failures.push(format!("drop {dropw} rb {rb} code {code:?}: {e}"));
            }
        });
        assert!(failures.is_empty(), "{} failures, first: {}", failures.len(), failures[0]);
    }
    Ok(())
}

#[test]
fn small_capacity_sampled_orders() -> Result {
    // capacity below the segment count: new segments appear as credits return
    let mut x = 0x1234_5678_9abc_def1u64;
    let mut failures = Vec::new();
    for _ in 0..600 {
        let code: Vec<usize> = (0..40)
            .map(|_| {
                x ^= x << 13;
                x ^= x >> 7;
                x ^= x << 17;
                (x % 7) as usize
            })
            .collect();
        let cap = 1 + (x % 3) as usize;
        if let Err(e) = run_order(&code, 6, 5, cap, x % 2 == 0, 1 + (x % 5) as usize) {
            failures.push(format!("cap {cap} code {code:?}: {e}"));
        }
    }
    assert!(failures.is_empty(), "{} failures, first: {}", failures.len(), failures[0]);
    Ok(())
}
