//! Early closes: side A writes some bytes and drops the whole stream at a
//! random moment (sometimes with unread inbound data -> RST, sometimes
//! without -> FIN). Side B must read a prefix; if B sees a *clean* EOF it
//! must have read every byte A's writes accepted.
//!
//! `graceful_in_flight` is the strict reading of "a drop while no inbound
//! data is unread": B's data is still in flight when A drops.

use std::{cell::Cell, rc::Rc, time::Duration};

use tokio::io::{AsyncReadExt, AsyncWriteExt};
use turmoil::{
    net::{TcpListener, TcpStream},
    Builder, Result,
};

const PORT: u16 = 1738;

struct Rng(u64);
impl Rng {
    fn next(&mut self) -> u64 {
        let mut x = self.0;
        x ^= x << 13;
        x ^= x >> 7;
        x ^= x << 17;
        self.0 = x;
        x
    }
    fn below(&mut self, n: u64) -> u64 {
        self.next() % n
    }
}

fn one(seed: u64, a_is_client: bool) -> std::result::Result<(), String> {
    let mut rng = Rng(seed.wrapping_mul(0x9E3779B97F4A7C15) | 1);
    let cap = 1 + rng.below(4) as usize;
    let hi = 1 + rng.below(30);
    let mut sim = Builder::new()
        .rng_seed(seed)
        .tcp_capacity(cap)
        .min_message_latency(Duration::from_millis(1))
        .max_message_latency(Duration::from_millis(hi))
        .build();

    let accepted = Rc::new(Cell::new(0usize));
    let a_done = Rc::new(Cell::new(false));
    let outcome = Rc::new(Cell::new(None::<(usize, bool)>)); // (bytes read, clean eof)

    let nwrites = rng.below(12) as usize;
    let a_reads = rng.below(3); // 0: never reads, 1: reads one chunk, 2: reads all available before drop
    let b_writes = rng.below(6) as usize;
    let pre_sleep = rng.below(10);
    let a_seed = rng.next() | 1;

    let a_side = {
        let accepted = accepted.clone();
        let a_done = a_done.clone();
        move |mut s: TcpStream| async move {
            let mut rng = Rng(a_seed);
            tokio::time::sleep(Duration::from_millis(pre_sleep)).await;
            let mut pos = 0usize;
            for _ in 0..nwrites {
                let n = 1 + rng.below(9) as usize;
                let chunk: Vec<u8> = (pos..pos + n).map(|i| i as u8).collect();
                // bounded wait so that a blocked writer does not hang the test
                match tokio::time::timeout(Duration::from_millis(200), s.write_all(&chunk)).await {
                    Ok(Ok(())) => {
                        pos += n;
                        accepted.set(pos);
                    }
                    _ => break,
                }
                if rng.below(3) == 0 {
                    tokio::time::sleep(Duration::from_millis(rng.below(4))).await;
                }
            }
            let mut buf = [0u8; 64];
            match a_reads {
                1 => {
                    let _ = tokio::time::timeout(Duration::from_millis(40), s.read(&mut buf)).await;
                }
                2 => {
                    while let Ok(Ok(n)) =
                        tokio::time::timeout(Duration::from_millis(40), s.read(&mut buf)).await
                    {
                        if n == 0 {
                            break;
                        }
                    }
                }
                _ => {}
            }
            drop(s);
            a_done.set(true);
            // stay alive so that late segments are answered
            tokio::time::sleep(Duration::from_millis(300)).await;
        }
    };

    let b_side = {
        let outcome = outcome.clone();
        move |s: TcpStream| async move {
            let (mut r, mut w) = s.into_split();
            let wt = tokio::spawn(async move {
                for i in 0..b_writes {
                    if w.write_all(&[i as u8; 3]).await.is_err() {
                        break;
                    }
                    tokio::time::sleep(Duration::from_millis(2)).await;
                }
                // keep the write half open: B's FIN must not matter
                tokio::time::sleep(Duration::from_secs(2)).await;
            });
            let mut got = 0usize;
            let clean;
            loop {
                let mut buf = [0u8; 7];
                match r.read(&mut buf).await {
                    Ok(0) => {
                        clean = true;
                        break;
                    }
                    Ok(n) => {
                        for (k, b) in buf[..n].iter().enumerate() {
                            assert_eq!(*b, (got + k) as u8, "altered / reordered byte");
                        }
                        got += n;
                    }
                    Err(_) => {
                        clean = false;
                        break;
                    }
                }
            }
            outcome.set(Some((got, clean)));
            wt.abort();
        }
    };

    if a_is_client {
        sim.client("server", async move {
            let l = TcpListener::bind(("0.0.0.0", PORT)).await?;
            let (s, _) = l.accept().await?;
            b_side(s).await;
            Ok(())
        });
        sim.client("client", async move {
            let s = TcpStream::connect(("server", PORT)).await?;
            a_side(s).await;
            Ok(())
        });
    } else {
        sim.client("server", async move {
            let l = TcpListener::bind(("0.0.0.0", PORT)).await?;
            let (s, _) = l.accept().await?;
            a_side(s).await;
            Ok(())
        });
        sim.client("client", async move {
            let s = TcpStream::connect(("server", PORT)).await?;
            b_side(s).await;
            Ok(())
        });
    }

    sim.run().map_err(|e| e.to_string())?;
    let (got, clean) = outcome.get().expect("B finished");
    let acc = accepted.get();
    if got > acc {
        return Err(format!("read {got} > accepted {acc}"));
    }
    if clean && got != acc {
        return Err(format!(
            "clean EOF after {got} bytes but {acc} were accepted (a_reads {a_reads}, b_writes {b_writes})"
        ));
    }
    if b_writes == 0 && !(clean && got == acc) {
        return Err(format!(
            "B never wrote, so A's drop was graceful, yet B saw clean={clean} got={got} acc={acc}"
        ));
    }
    Ok(())
}

#[test]
fn early_close_prefix_and_honest_eof() -> Result {
    let mut failures = vec![];
    for seed in 1..=1500u64 {
        if let Err(e) = one(seed, seed % 2 == 0) {
            failures.push(format!("seed {seed}: {e}"));
        }
    }
    assert!(failures.is_empty(), "{} failures; first: {}", failures.len(), failures[0]);
    Ok(())
}

/// A writes and drops right away; B's bytes are still on the wire at that
/// moment (so nothing is "unread" at A). Strict reading of the statement.
#[test]
fn graceful_in_flight() -> Result {
    let mut bad = vec![];
    for seed in 1..=2000u64 {
        let mut sim = Builder::new()
            .rng_seed(seed)
            .min_message_latency(Duration::from_millis(1))
            .max_message_latency(Duration::from_millis(20))
            .build();
        let res = Rc::new(Cell::new(None));
        let res2 = res.clone();
        sim.client("server", async move {
            let l = TcpListener::bind(("0.0.0.0", PORT)).await?;
            let (mut s, _) = l.accept().await?;
            s.write_all(b"x").await?;
            let mut got = Vec::new();
            let r = s.read_to_end(&mut got).await;
            res2.set(Some((got.len(), r.is_ok())));
            Ok(())
        });
        sim.client("client", async move {
            let mut s = TcpStream::connect(("server", PORT)).await?;
            for i in 0..5u8 {
                s.write_all(&[i]).await?;
            }
            drop(s);
            tokio::time::sleep(Duration::from_millis(200)).await;
            Ok(())
        });
        sim.run()?;
        let (n, ok) = res.get().unwrap();
        if !(ok && n == 5) {
            bad.push(format!("seed {seed}: read {n}/5 ok={ok}"));
        }
    }
    assert!(bad.is_empty(), "{} of 2000: {:?}", bad.len(), &bad[..bad.len().min(3)]);
    Ok(())
}
