//! Randomised stream-integrity harness: both directions, random chunking,
//! random read buffer sizes (0, 1, ...), peeks interleaved, jittered latency,
//! small capacities, remote / same-host / loopback peers, v4 and v6,
//! graceful closes (shutdown or drop of the write half after reading EOF).

use std::{
    net::{IpAddr, Ipv4Addr, Ipv6Addr},
    time::Duration,
};

use tokio::io::{AsyncReadExt, AsyncWriteExt};
use turmoil::{
    net::{
        tcp::{OwnedReadHalf, OwnedWriteHalf},
        TcpListener, TcpStream,
    },
    Builder, IpVersion, Result,
};

const PORT: u16 = 1738;

thread_local! { static TICK_MS: std::cell::Cell<u64> = const { std::cell::Cell::new(1) }; }

#[derive(Clone)]
struct Rng(u64);
impl Rng {
    fn next(&mut self) -> u64 {
        let mut x = self.0;
        x ^= x << 13;
        x ^= x >> 7;
        x ^= x << 17;
        self.0 = x;
        x
    }
    fn below(&mut self, n: u64) -> u64 {
        self.next() % n
    }
}

fn byte_at(dir: u8, i: usize) -> u8 {
    ((i as u64).wrapping_mul(2654435761) >> 7) as u8 ^ dir
}

async fn writer(mut w: OwnedWriteHalf, dir: u8, total: usize, mut rng: Rng, shutdown: bool) {
    let mut pos = 0;
    while pos < total {
        let n = match rng.below(6) {
            0 => 0,
            1 => 1,
            _ => 1 + rng.below(40) as usize,
        }
        .min(total - pos);
        let chunk: Vec<u8> = (pos..pos + n).map(|i| byte_at(dir, i)).collect();
        if rng.below(3) == 0 {
            // plain write, may be partial
            let k = w.write(&chunk).await.expect("write");
            pos += k;
        } else {
            w.write_all(&chunk).await.expect("write_all");
            pos += n;
        }
        if rng.below(4) == 0 {
            tokio::time::sleep(Duration::from_millis(rng.below(5))).await;
        }
    }
    if shutdown {
        w.shutdown().await.expect("shutdown");
        if rng.below(2) == 0 {
            // keep the half alive for a while after shutdown
            tokio::time::sleep(Duration::from_millis(50)).await;
        }
    }
    drop(w);
}

async fn reader(mut r: OwnedReadHalf, dir: u8, total: usize, mut rng: Rng) {
    let mut pos = 0;
    loop {
        let cap = match rng.below(6) {
            0 => 0,
            1 => 1,
            _ => 1 + rng.below(64) as usize,
        };
        let mut buf = vec![0u8; cap];
        if rng.below(3) == 0 {
            let n = r.peek(&mut buf).await.expect("peek");
            for (k, b) in buf[..n].iter().enumerate() {
                assert_eq!(*b, byte_at(dir, pos + k), "peek mismatch at {}", pos + k);
            }
            if n == 0 && cap > 0 {
                // peek saw EOF; the read must agree
                let mut b2 = [0u8; 4];
                assert_eq!(r.read(&mut b2).await.expect("read"), 0);
                break;
            }
            continue;
        }
        let n = r.read(&mut buf).await.expect("read");
        for (k, b) in buf[..n].iter().enumerate() {
            assert_eq!(*b, byte_at(dir, pos + k), "read mismatch at {}", pos + k);
        }
        pos += n;
        if n == 0 && cap > 0 {
            break;
        }
        if rng.below(5) == 0 {
            tokio::time::sleep(Duration::from_millis(rng.below(7))).await;
        }
    }
    assert_eq!(pos, total, "dir {dir}: EOF after {pos} of {total} bytes");
    // EOF is sticky
    let mut b = [0u8; 3];
    assert_eq!(r.read(&mut b).await.expect("read"), 0);
}

#[derive(Clone, Copy, Debug, PartialEq)]
enum Topo {
    Remote,
    SameHostByName,
    Loopback,
}

fn one(seed: u64, topo: Topo, v6: bool, cap: usize, min_ms: u64, max_ms: u64) -> Result {
    one_f(seed, topo, v6, cap, min_ms, max_ms, 0)
}

/// faults: 0 none, 1 hold/release + manual single deliveries, 2 also partitions (safety only)
fn one_f(seed: u64, topo: Topo, v6: bool, cap: usize, min_ms: u64, max_ms: u64, faults: u8) -> Result {
    let mut b = Builder::new();
    b.rng_seed(seed)
        .tcp_capacity(cap)
        .min_message_latency(Duration::from_millis(min_ms))
        .max_message_latency(Duration::from_millis(max_ms))
        .tick_duration(Duration::from_millis(TICK_MS.with(|t| t.get())))
        .simulation_duration(Duration::from_secs(6000));
    if v6 {
        b.ip_version(IpVersion::V6);
    }
    if seed % 2 == 0 {
        b.enable_random_order();
    }
    let mut sim = b.build();

    let mut rng = Rng(seed.wrapping_mul(0x9E3779B97F4A7C15) | 1);
    let total_c2s = rng.below(600) as usize;
    let total_s2c = rng.below(600) as usize;
    let (r1, r2, r3, r4) = (
        Rng(rng.next() | 1),
        Rng(rng.next() | 1),
        Rng(rng.next() | 1),
        Rng(rng.next() | 1),
    );
    let sd_c = rng.below(2) == 0;
    let sd_s = rng.below(2) == 0;

    let bind_ip: IpAddr = if v6 {
        Ipv6Addr::UNSPECIFIED.into()
    } else {
        Ipv4Addr::UNSPECIFIED.into()
    };

    let server = async move {
        let l = TcpListener::bind((bind_ip, PORT)).await?;
        let (s, _) = l.accept().await?;
        let (r, w) = s.into_split();
        let a = tokio::spawn(writer(w, 2, total_s2c, r3, sd_s));
        let b = tokio::spawn(reader(r, 1, total_c2s, r4));
        a.await.unwrap();
        b.await.unwrap();
        Ok(())
    };

    let client = move |target: String| async move {
        tokio::time::sleep(Duration::from_millis(5 + 3 * TICK_MS.with(|t| t.get()))).await;
        let s = TcpStream::connect((target.as_str(), PORT)).await?;
        let (r, w) = s.into_split();
        let a = tokio::spawn(writer(w, 1, total_c2s, r1, sd_c));
        let b = tokio::spawn(reader(r, 2, total_s2c, r2));
        a.await.unwrap();
        b.await.unwrap();
        Ok::<_, Box<dyn std::error::Error>>(())
    };

    match topo {
        Topo::Remote => {
            sim.client("server", server);
            sim.client("client", client("server".into()));
        }
        Topo::SameHostByName | Topo::Loopback => {
            let target = if topo == Topo::Loopback {
                if v6 {
                    "::1".to_string()
                } else {
                    "127.0.0.1".to_string()
                }
            } else {
                "node".to_string()
            };
            sim.client("node", async move {
                let h = tokio::spawn(async move { server.await.map_err(|e: Box<dyn std::error::Error>| e.to_string()) });
                // let the listener bind
                tokio::task::yield_now().await;
                client(target).await?;
                h.await.unwrap()?;
                Ok(())
            });
        }
    }

    if faults == 0 {
        return sim.run();
    }
    let mut frng = Rng(seed.wrapping_mul(77) | 1);
    let mut held = false;
    let mut parted = false;
    for step in 0..60_000u32 {
        if sim.step()? {
            return Ok(());
        }
        if step < 20 {
            continue; // let the connection come up
        }
        match frng.below(40) {
            0 if !parted => {
                sim.hold("client", "server");
                held = true;
            }
            1 | 2 if held => {
                sim.release("client", "server");
                held = false;
            }
            3 | 4 | 5 if held => {
                // hand-deliver one random in-flight message
                let mut n = 0;
                sim.links(|links| {
                    for l in links {
                        n += l.count();
                    }
                });
                if n > 0 {
                    let pick = frng.below(n as u64) as usize;
                    sim.links(|links| {
                        let mut k = 0;
                        for l in links {
                            for m in l {
                                if k == pick {
                                    m.deliver();
                                }
                                k += 1;
                            }
                        }
                    });
                }
            }
            6 if faults >= 2 && !held && frng.below(4) == 0 => {
                if frng.below(2) == 0 {
                    sim.partition("client", "server");
                } else if frng.below(2) == 0 {
                    sim.partition_oneway("client", "server");
                } else {
                    sim.partition_oneway("server", "client");
                }
                parted = true;
            }
            7 | 8 if parted => {
                sim.repair("client", "server");
                parted = false;
            }
            _ => {}
        }
        if step > 50_000 && held {
            sim.release("client", "server");
            held = false;
        }
    }
    if faults >= 2 {
        // safety only: the readers assert the prefix property on every read
        return Ok(());
    }
    Err("did not complete".into())
}

#[test]
fn remote_hold_release() -> Result {
    for seed in 1..=200u64 {
        let cap = [1, 2, 3, 8, 64][(seed % 5) as usize];
        let (lo, hi) = [(0, 1), (1, 5), (1, 30), (0, 50), (3, 4)][((seed / 5) % 5) as usize];
        one_f(seed, Topo::Remote, seed % 3 == 0, cap, lo, hi, 1)
            .map_err(|e| format!("seed {seed}: {e}"))?;
    }
    Ok(())
}

#[test]
fn remote_partitions_safety() -> Result {
    for seed in 1..=200u64 {
        let cap = [1, 2, 3, 8, 64][(seed % 5) as usize];
        let (lo, hi) = [(0, 1), (1, 5), (1, 30), (0, 50), (3, 4)][((seed / 5) % 5) as usize];
        one_f(seed, Topo::Remote, seed % 3 == 0, cap, lo, hi, 2)
            .map_err(|e| format!("seed {seed}: {e}"))?;
    }
    Ok(())
}

#[test]
fn remote_jitter() -> Result {
    for seed in 1..=300u64 {
        let cap = [1, 2, 3, 8, 64][(seed % 5) as usize];
        let (lo, hi) = [(0, 1), (1, 5), (1, 30), (0, 50), (3, 4)][((seed / 5) % 5) as usize];
        one(seed, Topo::Remote, seed % 3 == 0, cap, lo, hi)
            .map_err(|e| format!("seed {seed}: {e}"))?;
    }
    Ok(())
}

#[test]
fn same_host() -> Result {
    for seed in 1..=150u64 {
        let cap = [1, 2, 3, 8, 64][(seed % 5) as usize];
        one(seed, Topo::SameHostByName, seed % 3 == 0, cap, 1, 10)
            .map_err(|e| format!("seed {seed}: {e}"))?;
    }
    Ok(())
}

#[test]
fn loopback() -> Result {
    for seed in 1..=150u64 {
        let cap = [1, 2, 3, 8, 64][(seed % 5) as usize];
        one(seed, Topo::Loopback, seed % 3 == 0, cap, 1, 10)
            .map_err(|e| format!("seed {seed}: {e}"))?;
    }
    Ok(())
}

#[test]
fn big_ticks() -> Result {
    for &tick in &[2u64, 7, 25] {
        TICK_MS.with(|t| t.set(tick));
        for seed in 1..=60u64 {
            let cap = [1, 2, 3, 8, 64][(seed % 5) as usize];
            let (lo, hi) = [(0, 1), (1, 5), (1, 30), (0, 50), (3, 4)][((seed / 5) % 5) as usize];
            let topo = [Topo::Remote, Topo::SameHostByName, Topo::Loopback][(seed % 3) as usize];
            one(seed, topo, seed % 4 == 0, cap, lo, hi)
                .map_err(|e| format!("tick {tick} seed {seed}: {e}"))?;
        }
    }
    TICK_MS.with(|t| t.set(1));
    Ok(())
}

/// Several connections share one link (and one same-host table) at once.
#[test]
fn parallel_connections() -> Result {
    for seed in 1..=40u64 {
        let mut sim = Builder::new()
            .rng_seed(seed)
            .tcp_capacity(2 + (seed % 4) as usize)
            .min_message_latency(Duration::from_millis(1))
            .max_message_latency(Duration::from_millis(25))
            .simulation_duration(Duration::from_secs(600))
            .build();
        const K: usize = 6;
        let mut rng = Rng(seed | 1);
        let seeds: Vec<u64> = (0..4 * K).map(|_| rng.next() | 1).collect();
        let s1 = seeds.clone();
        sim.client("server", async move {
            let l = TcpListener::bind(("0.0.0.0", PORT)).await?;
            let mut hs = vec![];
            for _ in 0..2 * K {
                let (mut s, _) = l.accept().await?;
                // first byte tells which connection this is
                let id = s.read_u8().await? as usize;
                let (r, w) = s.into_split();
                hs.push(tokio::spawn(writer(w, (2 * id) as u8, 300 + id, Rng(s1[2 * id]), id % 2 == 0)));
                hs.push(tokio::spawn(reader(r, (2 * id + 1) as u8, 200 + id, Rng(s1[2 * id + 1]))));
            }
            for h in hs {
                h.await.unwrap();
            }
            Ok(())
        });
        let s2 = seeds.clone();
        // K connections from each of two remote clients
        for (name, base) in [("client", 0usize), ("server2", K)] {
            let s2 = s2.clone();
            let f = async move {
                tokio::time::sleep(Duration::from_millis(10)).await;
                let mut hs = vec![];
                for id in base..base + K {
                    let mut s = TcpStream::connect(("server", PORT)).await?;
                    s.write_u8(id as u8).await?;
                    let (r, w) = s.into_split();
                    hs.push(tokio::spawn(writer(w, (2 * id + 1) as u8, 200 + id, Rng(s2[2 * id] ^ 5), id % 3 == 0)));
                    hs.push(tokio::spawn(reader(r, (2 * id) as u8, 300 + id, Rng(s2[2 * id + 1] ^ 9))));
                }
                for h in hs {
                    h.await.unwrap();
                }
                Ok(())
            };
            sim.client(name, f);
        }
        sim.run().map_err(|e| format!("seed {seed}: {e}"))?;
    }
    Ok(())
}

/// try_write / writable on an unsplit stream, reader on the other host uses an
/// unsplit stream with peek + read. Everything try_write accepted arrives.
#[test]
fn try_write_accounting() -> Result {
    for seed in 1..=150u64 {
        let cap = 1 + (seed % 3) as usize;
        let mut sim = Builder::new()
            .rng_seed(seed)
            .tcp_capacity(cap)
            .min_message_latency(Duration::from_millis(1))
            .max_message_latency(Duration::from_millis(1 + seed % 20))
            .build();
        let total = 400usize;
        sim.client("server", async move {
            let l = TcpListener::bind(("0.0.0.0", PORT)).await?;
            let (mut s, _) = l.accept().await?;
            let mut rng = Rng(seed ^ 0xabcdef | 1);
            let mut pos = 0;
            loop {
                let mut buf = vec![0u8; rng.below(20) as usize];
                let n = if rng.below(2) == 0 {
                    let n = s.peek(&mut buf).await?;
                    for (k, b) in buf[..n].iter().enumerate() {
                        assert_eq!(*b, byte_at(9, pos + k));
                    }
                    if n == 0 && !buf.is_empty() {
                        break;
                    }
                    continue;
                } else {
                    s.read(&mut buf).await?
                };
                for (k, b) in buf[..n].iter().enumerate() {
                    assert_eq!(*b, byte_at(9, pos + k));
                }
                pos += n;
                if n == 0 && !buf.is_empty() {
                    break;
                }
                if rng.below(4) == 0 {
                    tokio::time::sleep(Duration::from_millis(rng.below(9))).await;
                }
            }
            assert_eq!(pos, total, "seed {seed}");
            Ok(())
        });
        sim.client("client", async move {
            tokio::time::sleep(Duration::from_millis(5)).await;
            let mut s = TcpStream::connect(("server", PORT)).await?;
            let mut rng = Rng(seed | 1);
            let mut pos = 0;
            let mut blocked = 0;
            while pos < total {
                let n = (1 + rng.below(15) as usize).min(total - pos);
                let chunk: Vec<u8> = (pos..pos + n).map(|i| byte_at(9, i)).collect();
                match s.try_write(&chunk) {
                    Ok(k) => pos += k,
                    Err(e) if e.kind() == std::io::ErrorKind::WouldBlock => {
                        blocked += 1;
                        s.writable().await?;
                    }
                    Err(e) => return Err(e.into()),
                }
            }
            assert!(blocked > 0, "capacity {cap} never pushed back");
            s.shutdown().await?;
            let mut b = [0u8; 1];
            assert_eq!(s.read(&mut b).await?, 0);
            Ok(())
        });
        sim.run().map_err(|e| format!("seed {seed}: {e}"))?;
    }
    Ok(())
}
