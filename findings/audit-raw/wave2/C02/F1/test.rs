//! F1: one side drops its OwnedReadHalf gracefully (nothing has arrived, so
//! nothing is unread) and keeps writing through the OwnedWriteHalf. The peer
//! writes a few bytes of its own (both directions concurrently) and keeps
//! reading. Every byte the write half was told was accepted must reach the
//! peer's reader, followed by EOF after the shutdown.
//!
//! Destination: crates/turmoil/tests/audit_c02_1.rs
//! Command: CARGO_TARGET_DIR=/tmp/wt6/C02/target cargo test --offline -p turmoil --test audit_c02_1

use std::{cell::RefCell, rc::Rc, time::Duration};

use tokio::io::{AsyncReadExt, AsyncWriteExt};
use turmoil::{
    net::{TcpListener, TcpStream},
    Builder,
};

const PORT: u16 = 1738;
const N: usize = 40;

#[derive(Default, Debug)]
struct Outcome {
    /// bytes the client's writes reported as accepted (Ok)
    accepted: usize,
    /// first error a client write returned, if any
    write_err: Option<std::io::ErrorKind>,
    /// bytes the server read before EOF / error
    read: Vec<u8>,
    /// how the server's read loop ended: None = clean EOF
    read_err: Option<std::io::ErrorKind>,
}

fn run(min_ms: u64, max_ms: u64, seed: u64) -> Outcome {
    let mut sim = Builder::new()
        .min_message_latency(Duration::from_millis(min_ms))
        .max_message_latency(Duration::from_millis(max_ms))
        .rng_seed(seed)
        .tcp_capacity(64)
        .build();

    let out = Rc::new(RefCell::new(Outcome::default()));

    let o = out.clone();
    sim.client("server", async move {
        let listener = TcpListener::bind(("0.0.0.0", PORT)).await?;
        let (s, _) = listener.accept().await?;
        let (mut r, mut w) = s.into_split();

        // Both directions concurrently: greet the client. The client never
        // reads it (it dropped its read half before anything arrived).
        w.write_all(b"hello").await?;

        let mut buf = [0u8; 16];
        loop {
            match r.read(&mut buf).await {
                Ok(0) => break,
                Ok(n) => o.borrow_mut().read.extend_from_slice(&buf[..n]),
                Err(e) => {
                    o.borrow_mut().read_err = Some(e.kind());
                    break;
                }
            }
        }
        // stay around (a finished client host no longer receives anything)
        tokio::time::sleep(Duration::from_millis(300)).await;
        drop(w);
        Ok(())
    });

    let o = out.clone();
    sim.client("client", async move {
        let s = TcpStream::connect(("server", PORT)).await?;
        let (r, mut w) = s.into_split();
        // Graceful: nothing has been received yet, so nothing is unread.
        drop(r);

        for i in 0..N {
            tokio::time::sleep(Duration::from_millis(3)).await;
            match w.write_all(&[i as u8]).await {
                Ok(()) => o.borrow_mut().accepted += 1,
                Err(e) => {
                    o.borrow_mut().write_err = Some(e.kind());
                    break;
                }
            }
        }
        let _ = w.shutdown().await;
        // stay around so that nothing depends on this host going away
        tokio::time::sleep(Duration::from_millis(200)).await;
        Ok(())
    });

    sim.run().unwrap();
    Rc::try_unwrap(out).unwrap().into_inner()
}

fn check(o: &Outcome) {
    let expect: Vec<u8> = (0..N).map(|i| i as u8).collect();
    // safety half
    assert!(expect.starts_with(&o.read), "prefix violated: {o:?}");
    // delivery half: healthy link, graceful close, reader keeps reading
    assert!(
        o.read_err.is_none() && o.read.len() == o.accepted,
        "accepted bytes were lost: the writer had {} bytes accepted (first write error: {:?}), \
         the reader got {} bytes and then {:?}",
        o.accepted,
        o.write_err,
        o.read.len(),
        o.read_err,
    );
    assert_eq!(o.accepted, N, "the writer was cut off: {o:?}");
}

#[test]
fn read_half_dropped_writer_keeps_streaming_fixed_latency() {
    check(&run(1, 1, 1));
}

#[test]
fn read_half_dropped_writer_keeps_streaming_jitter() {
    for seed in 0..20 {
        check(&run(1, 20, seed));
    }
}
