//! F2 (borderline): the client writes 5 bytes and drops its stream at a moment
//! when nothing inbound is unread (the server's single byte is still on the
//! wire). By the letter of the statement that is a graceful close, so the
//! server, which keeps reading, should get the 5 bytes and then EOF. The
//! late byte is answered with a RST, and the RST overtakes the client's own
//! data / FIN on the jittered link: the server's reorder buffer and whatever
//! is still in flight are thrown away and its reader ends with
//! ConnectionReset.
//!
//! Destination: crates/turmoil/tests/audit_c02_5.rs
//! Command: CARGO_TARGET_DIR=/tmp/wt6/C02/target cargo test --offline -p turmoil --test audit_c02_5

use std::{cell::Cell, rc::Rc, time::Duration};

use tokio::io::{AsyncReadExt, AsyncWriteExt};
use turmoil::{
    net::{TcpListener, TcpStream},
    Builder, Result,
};

const PORT: u16 = 1738;

#[test]
fn drop_with_inbound_still_in_flight() -> Result {
    let mut bad = vec![];
    const SEEDS: u64 = 200;
    for seed in 1..=SEEDS {
        let mut sim = Builder::new()
            .rng_seed(seed)
            .min_message_latency(Duration::from_millis(1))
            .max_message_latency(Duration::from_millis(20))
            .build();
        let res = Rc::new(Cell::new(None));
        let res2 = res.clone();
        sim.client("server", async move {
            let l = TcpListener::bind(("0.0.0.0", PORT)).await?;
            let (mut s, _) = l.accept().await?;
            s.write_all(b"x").await?;
            let mut got = Vec::new();
            let r = s.read_to_end(&mut got).await;
            assert!([0u8, 1, 2, 3, 4].starts_with(&got), "prefix violated: {got:?}");
            res2.set(Some((got.len(), r.is_ok())));
            Ok(())
        });
        sim.client("client", async move {
            let mut s = TcpStream::connect(("server", PORT)).await?;
            for i in 0..5u8 {
                s.write_all(&[i]).await?;
            }
            // nothing has arrived yet: no inbound data is unread
            drop(s);
            // a finished client host is no longer delivered to; stay alive
            tokio::time::sleep(Duration::from_millis(200)).await;
            Ok(())
        });
        sim.run()?;
        let (n, ok) = res.get().unwrap();
        if !(ok && n == 5) {
            bad.push(format!("seed {seed}: read {n}/5 clean_eof={ok}"));
        }
    }
    assert!(
        bad.is_empty(),
        "{} of {SEEDS} runs lost accepted bytes: {:?}",
        bad.len(),
        &bad[..bad.len().min(4)]
    );
    Ok(())
}
