//! Randomised reclamation fuzz (audit C13). Not a deliverable by itself --
//! used to find schedules that leak.

use std::cell::{Cell, RefCell};
use std::collections::HashSet;
use std::net::SocketAddr;
use std::rc::Rc;
use std::time::Duration;

use tokio::io::{AsyncReadExt, AsyncWriteExt};
use tokio::time::{sleep, timeout};
use turmoil_net::fixture::ClientServer;
use turmoil_net::shim::tokio::net::{TcpListener, TcpStream};
use turmoil_net::{netstat, rule, KernelConfig, Packet, Transport, Verdict};

#[derive(Clone)]
struct Rng(u64);
impl Rng {
    fn new(seed: u64) -> Self {
        Rng(seed.wrapping_mul(0x9E37_79B9_7F4A_7C15) ^ 0xD1B5_4A32_D192_ED03)
    }
    fn next(&mut self) -> u64 {
        let mut x = self.0;
        x ^= x << 13;
        x ^= x >> 7;
        x ^= x << 17;
        self.0 = x;
        x
    }
    fn below(&mut self, n: u64) -> u64 {
        self.next() % n
    }
}

#[derive(Clone, Debug)]
enum Op {
    Write(usize),
    Read,
    ReadEof,
    Shutdown,
    Sleep(u64),
}

fn gen_ops(rng: &mut Rng) -> Vec<Op> {
    let n = rng.below(5);
    (0..n)
        .map(|_| match rng.below(6) {
            0 => Op::Write(1 + rng.below(3000) as usize),
            1 => Op::Read,
            2 => Op::ReadEof,
            3 => Op::Shutdown,
            _ => Op::Sleep(rng.below(8)),
        })
        .collect()
}

const OP_TIMEOUT: Duration = Duration::from_millis(40);

async fn run_ops(s: &mut TcpStream, ops: &[Op]) {
    for op in ops {
        match op {
            Op::Write(n) => {
                let buf = vec![7u8; *n];
                let _ = timeout(OP_TIMEOUT, s.write_all(&buf)).await;
            }
            Op::Read => {
                let mut buf = [0u8; 4096];
                let _ = timeout(OP_TIMEOUT, s.read(&mut buf)).await;
            }
            Op::ReadEof => {
                let _ = timeout(OP_TIMEOUT, async {
                    let mut buf = [0u8; 4096];
                    loop {
                        match s.read(&mut buf).await {
                            Ok(0) | Err(_) => break,
                            Ok(_) => {}
                        }
                    }
                })
                .await;
            }
            Op::Shutdown => {
                let _ = s.shutdown().await;
            }
            Op::Sleep(k) => sleep(Duration::from_millis(*k)).await,
        }
    }
}

#[derive(Clone, Copy)]
struct Faults {
    drop_pct: u64,
    max_delay: u64,
    drop_rst: bool,
}

#[derive(Clone, Copy)]
struct Setup {
    backlog: usize,
    chaos: bool,
    retx_threshold: u32,
    retx_max: u32,
    max_drops_per_seg: u8,
    expect_connect_ok: bool,
    recv_cap: usize,
    mtu: u32,
}

impl Setup {
    fn new(backlog: usize) -> Self {
        Setup {
            backlog,
            chaos: false,
            retx_threshold: 3,
            retx_max: 5,
            max_drops_per_seg: 1,
            expect_connect_ok: false,
            recv_cap: 64 * 1024,
            mtu: 1500,
        }
    }
}

fn fault_rule(mut rng: Rng, f: Faults, max_drops: u8) -> impl FnMut(&Packet) -> Verdict {
    // never drop the same segment twice: stays well inside the retx budget
    let mut dropped: std::collections::HashMap<
        (u16, u16, u32, u32, bool, bool, bool, bool, usize),
        u8,
    > = std::collections::HashMap::new();
    move |pkt: &Packet| {
        let Transport::Tcp(s) = &pkt.payload else {
            return Verdict::Pass;
        };
        let key = (
            s.src_port,
            s.dst_port,
            s.seq,
            s.ack,
            s.flags.syn,
            s.flags.ack,
            s.flags.fin,
            s.flags.rst,
            s.payload.len(),
        );
        let may_drop = f.drop_rst || !s.flags.rst;
        if may_drop && rng.below(100) < f.drop_pct {
            let c = dropped.entry(key).or_insert(0);
            if *c < max_drops {
                *c += 1;
                if s.flags.rst {
                    DROPPED_RST.with(|d| d.borrow_mut().push((pkt.dst, s.dst_port, s.src_port)));
                }
                return Verdict::Drop;
            }
        }
        let d = if f.max_delay == 0 {
            0
        } else {
            rng.below(f.max_delay + 1)
        };
        Verdict::Deliver(Duration::from_millis(d))
    }
}

thread_local! {
    static CLIENT_OK: RefCell<Vec<SocketAddr>> = RefCell::new(Vec::new());
    static DROPPED_RST: RefCell<Vec<(std::net::IpAddr, u16, u16)>> = RefCell::new(Vec::new());
    static COVER: RefCell<std::collections::BTreeMap<String, usize>> = RefCell::new(Default::default());
}

struct Outcome {
    never_accepted: Vec<SocketAddr>,
    server_left: String,
    client_left: String,
    rebind: Result<(), std::io::ErrorKind>,
    port_fail: Vec<(u16, std::io::ErrorKind)>,
    dup_accept: bool,
    addr_mismatch: Vec<String>,
    connect_errs: Vec<String>,
}

fn run_seed(seed: u64, su: Setup, f: Faults, conns_per_worker: usize) -> Outcome {
    DROPPED_RST.with(|d| d.borrow_mut().clear());
    CLIENT_OK.with(|d| d.borrow_mut().clear());
    let backlog = su.backlog;
    let connect_errs: Rc<RefCell<Vec<String>>> = Rc::new(RefCell::new(Vec::new()));
    let c_connect_errs = connect_errs.clone();
    let done = Rc::new(Cell::new(false));
    let rebind: Rc<RefCell<Option<Result<(), std::io::ErrorKind>>>> = Rc::new(RefCell::new(None));
    let accepted: Rc<RefCell<Vec<SocketAddr>>> = Rc::new(RefCell::new(Vec::new()));
    let mismatch: Rc<RefCell<Vec<String>>> = Rc::new(RefCell::new(Vec::new()));

    let cfg = KernelConfig::default()
        .default_backlog(backlog)
        .retx_threshold(su.retx_threshold)
        .retx_max(su.retx_max)
        .recv_buf_cap(su.recv_cap)
        .mtu(su.mtu);
    let s_done = done.clone();
    let s_rebind = rebind.clone();
    let s_accepted = accepted.clone();
    let s_mismatch = mismatch.clone();
    let mut srng = Rng::new(seed ^ 0xABCD);
    let mut crng = Rng::new(seed ^ 0x1234);
    let frng = Rng::new(seed ^ 0x7777);

    ClientServer::with_config(cfg)
        .server("server", async move {
            let slot: Rc<RefCell<Option<Rc<TcpListener>>>> = Rc::new(RefCell::new(Some(Rc::new(
                TcpListener::bind("0.0.0.0:9000").await.unwrap(),
            ))));
            let worker = |mut rng: Rng| {
                let slot = slot.clone();
                let done = s_done.clone();
                let accepted = s_accepted.clone();
                let mismatch = s_mismatch.clone();
                async move {
                    loop {
                        if done.get() {
                            break;
                        }
                        // sometimes be slow to accept
                        sleep(Duration::from_millis(rng.below(6))).await;
                        let Some(listener) = slot.borrow().clone() else {
                            sleep(Duration::from_millis(1)).await;
                            continue;
                        };
                        let r = timeout(Duration::from_millis(10), listener.accept()).await;
                        drop(listener);
                        let Ok(r) = r else {
                            continue;
                        };
                        let (mut s, peer) = r.unwrap();
                        accepted.borrow_mut().push(peer);
                        match (s.peer_addr(), s.local_addr()) {
                            (Ok(p), Ok(l)) => {
                                if p != peer || l.port() != 9000 {
                                    mismatch
                                        .borrow_mut()
                                        .push(format!("accept peer {peer} stream {l}->{p}"));
                                }
                            }
                            other => mismatch.borrow_mut().push(format!("{other:?}")),
                        }
                        let ops = gen_ops(&mut rng);
                        run_ops(&mut s, &ops).await;
                        drop(s);
                    }
                }
            };
            let chaos = |mut rng: Rng| {
                let slot = slot.clone();
                let done = s_done.clone();
                async move {
                    if !su.chaos {
                        return;
                    }
                    while !done.get() {
                        sleep(Duration::from_millis(5 + rng.below(40))).await;
                        let l = slot.borrow_mut().take();
                        drop(l);
                        sleep(Duration::from_millis(rng.below(30))).await;
                        loop {
                            // the listener is really gone once the last
                            // worker leaves accept(); retry until then
                            match TcpListener::bind("0.0.0.0:9000").await {
                                Ok(l) => {
                                    *slot.borrow_mut() = Some(Rc::new(l));
                                    break;
                                }
                                Err(_) => sleep(Duration::from_millis(1)).await,
                            }
                            if done.get() {
                                return;
                            }
                        }
                    }
                }
            };
            let r1 = Rng::new(srng.next());
            let r2 = Rng::new(srng.next());
            let r3 = Rng::new(srng.next());
            let r4 = Rng::new(srng.next());
            tokio::join!(worker(r1), worker(r2), worker(r3), chaos(r4));
            // drain whatever is still queued
            let listener = slot.borrow_mut().take();
            if let Some(listener) = listener {
                while let Ok(Ok((s, peer))) =
                    timeout(Duration::from_millis(5), listener.accept()).await
                {
                    s_accepted.borrow_mut().push(peer);
                    drop(s);
                }
                drop(listener);
            }
            sleep(Duration::from_millis(150)).await;
            let r = TcpListener::bind("0.0.0.0:9000").await;
            *s_rebind.borrow_mut() = Some(r.map(|_| ()).map_err(|e| e.kind()));
            std::future::pending::<()>().await;
        })
        .run("client", async move {
            rule(fault_rule(frng, f, su.max_drops_per_seg)).forget();
            let total = Rc::new(Cell::new(0usize));
            let worker = |mut rng: Rng| {
                let total = total.clone();
                let connect_errs = c_connect_errs.clone();
                async move {
                    for _ in 0..conns_per_worker {
                        total.set(total.get() + 1);
                        let cancel = rng.below(3) == 0;
                        let c = if cancel {
                            let k = rng.below(6);
                            match timeout(
                                Duration::from_millis(k),
                                TcpStream::connect("server:9000"),
                            )
                            .await
                            {
                                Ok(r) => r,
                                Err(_) => continue,
                            }
                        } else {
                            let r = TcpStream::connect("server:9000").await;
                            if let Err(e) = &r {
                                connect_errs.borrow_mut().push(format!("{:?}", e.kind()));
                            }
                            r
                        };
                        let Ok(mut c) = c else { continue };
                        CLIENT_OK.with(|v| v.borrow_mut().push(c.local_addr().unwrap()));
                        let ops = gen_ops(&mut rng);
                        run_ops(&mut c, &ops).await;
                        drop(c);
                        sleep(Duration::from_millis(rng.below(4))).await;
                    }
                }
            };
            let r1 = Rng::new(crng.next());
            let r2 = Rng::new(crng.next());
            let workers_done = Rc::new(Cell::new(false));
            let wd = workers_done.clone();
            let monitor = async move {
                while !wd.get() {
                    let c = netstat("client");
                    let s = netstat("server");
                    COVER.with(|cov| {
                        let mut cov = cov.borrow_mut();
                        for ce in &c.entries {
                            let ss = s
                                .entries
                                .iter()
                                .find(|se| se.peer == Some(ce.local))
                                .and_then(|se| se.state);
                            *cov.entry(format!("{:?}/{:?}", ce.state, ss)).or_insert(0) += 1;
                        }
                        for se in &s.entries {
                            if se.peer.is_some()
                                && !c.entries.iter().any(|ce| Some(ce.local) == se.peer)
                            {
                                *cov.entry(format!("None/{:?}", se.state)).or_insert(0) += 1;
                            }
                        }
                    });
                    sleep(Duration::from_millis(1)).await;
                }
            };
            tokio::join!(
                async {
                    tokio::join!(worker(r1), worker(r2));
                    workers_done.set(true);
                },
                monitor
            );
            sleep(Duration::from_millis(100)).await;
            done.set(true);
            sleep(Duration::from_millis(600)).await;

            let server_left = format!("{}", netstat("server"));
            let explained = |e: &turmoil_net::NetstatEntry| {
                std::env::var("C13_EXPLAIN").is_ok()
                    && DROPPED_RST.with(|d| {
                        d.borrow().iter().any(|(ip, dp, sp)| {
                            *ip == e.local.ip()
                                && *dp == e.local.port()
                                && Some(*sp) == e.peer.map(|p| p.port())
                        })
                    })
            };
            let server_n = netstat("server")
                .entries
                .iter()
                .filter(|e| e.peer.is_some() && !explained(e))
                .count();
            let client_left = format!("{}", netstat("client"));
            let client_n = netstat("client")
                .entries
                .iter()
                .filter(|e| !explained(e))
                .count();

            let mut port_fail = Vec::new();
            for p in 49152..(49152 + total.get() as u16 + 8) {
                match TcpListener::bind(("0.0.0.0", p)).await {
                    Ok(l) => drop(l),
                    Err(e) => port_fail.push((p, e.kind())),
                }
            }
            let acc = accepted.borrow();
            let uniq: HashSet<_> = acc.iter().collect();
            let never_accepted: Vec<SocketAddr> = CLIENT_OK.with(|v| {
                v.borrow()
                    .iter()
                    .filter(|a| !uniq.contains(a))
                    .copied()
                    .collect()
            });
            Outcome {
                never_accepted,
                server_left: if server_n == 0 {
                    String::new()
                } else {
                    server_left
                },
                client_left: if client_n == 0 {
                    String::new()
                } else {
                    client_left
                },
                rebind: rebind.borrow().clone().expect("server finished rebind"),
                port_fail,
                dup_accept: uniq.len() != acc.len(),
                addr_mismatch: mismatch.borrow().clone(),
                connect_errs: connect_errs.borrow().clone(),
            }
        })
}

fn check(seed: u64, su: Setup, o: &Outcome) -> Vec<String> {
    let mut v = Vec::new();
    if su.expect_connect_ok && !o.connect_errs.is_empty() {
        v.push(format!("seed {seed}: connect errors {:?}", o.connect_errs));
    }
    if !o.server_left.is_empty() {
        v.push(format!("seed {seed}: server leftovers:\n{}", o.server_left));
    }
    if !o.client_left.is_empty() {
        v.push(format!("seed {seed}: client leftovers:\n{}", o.client_left));
    }
    if o.rebind.is_err() {
        v.push(format!("seed {seed}: rebind 9000 -> {:?}", o.rebind));
    }
    if !o.port_fail.is_empty() {
        v.push(format!("seed {seed}: client ports stuck {:?}", o.port_fail));
    }
    if !su.chaos && !o.never_accepted.is_empty() {
        v.push(format!(
            "seed {seed}: connected but never accepted {:?}",
            o.never_accepted
        ));
    }
    if o.dup_accept {
        v.push(format!("seed {seed}: duplicate accept"));
    }
    if !o.addr_mismatch.is_empty() {
        v.push(format!("seed {seed}: mismatch {:?}", o.addr_mismatch));
    }
    v
}

fn seeds() -> u64 {
    std::env::var("C13_SEEDS")
        .ok()
        .and_then(|s| s.parse().ok())
        .unwrap_or(150)
}

fn campaign(name: &str, seeds: std::ops::Range<u64>, su: Setup, f: Faults) {
    let mut fails = Vec::new();
    for seed in seeds {
        let o = run_seed(seed, su, f, 6);
        fails.extend(check(seed, su, &o));
    }
    for f in &fails {
        eprintln!("[{name}] {f}");
    }
    if std::env::var("C13_COVER").is_ok() {
        COVER.with(|c| eprintln!("[{name}] coverage {:#?}", c.borrow()));
    }
    assert!(fails.is_empty(), "{name}: {} failures", fails.len());
}

#[test]
fn fuzz_no_faults() {
    campaign(
        "nofault",
        0..seeds(),
        Setup::new(4),
        Faults {
            drop_pct: 0,
            max_delay: 0,
            drop_rst: false,
        },
    );
}

#[test]
fn fuzz_delay_only() {
    campaign(
        "delay",
        0..seeds(),
        Setup::new(4),
        Faults {
            drop_pct: 0,
            max_delay: 2,
            drop_rst: false,
        },
    );
}

#[test]
fn fuzz_drop_no_rst() {
    campaign(
        "drop",
        0..seeds(),
        Setup::new(4),
        Faults {
            drop_pct: 15,
            max_delay: 2,
            drop_rst: false,
        },
    );
}

#[test]
fn fuzz_drop_with_rst() {
    campaign(
        "droprst",
        0..seeds(),
        Setup::new(4),
        Faults {
            drop_pct: 15,
            max_delay: 2,
            drop_rst: true,
        },
    );
}

#[test]
fn fuzz_backlog1() {
    campaign(
        "backlog1",
        0..seeds(),
        Setup::new(1),
        Faults {
            drop_pct: 10,
            max_delay: 1,
            drop_rst: false,
        },
    );
}

#[test]
fn fuzz_connect_ok_oracle() {
    let mut su = Setup::new(1024);
    su.expect_connect_ok = true;
    campaign(
        "connect_ok",
        0..seeds(),
        su,
        Faults {
            drop_pct: 0,
            max_delay: 2,
            drop_rst: false,
        },
    );
}

#[test]
fn fuzz_connect_ok_with_drops() {
    let mut su = Setup::new(1024);
    su.expect_connect_ok = true;
    campaign(
        "connect_ok_drops",
        0..seeds(),
        su,
        Faults {
            drop_pct: 15,
            max_delay: 2,
            drop_rst: false,
        },
    );
}

#[test]
fn fuzz_chaos_listener() {
    let mut su = Setup::new(4);
    su.chaos = true;
    campaign(
        "chaos",
        0..seeds(),
        su,
        Faults {
            drop_pct: 10,
            max_delay: 2,
            drop_rst: false,
        },
    );
}

#[test]
fn fuzz_chaos_listener_nofault() {
    let mut su = Setup::new(2);
    su.chaos = true;
    campaign(
        "chaos_nofault",
        0..seeds(),
        su,
        Faults {
            drop_pct: 0,
            max_delay: 0,
            drop_rst: false,
        },
    );
}

#[test]
fn fuzz_fast_retx() {
    let mut su = Setup::new(4);
    su.retx_threshold = 1;
    su.retx_max = 8;
    su.max_drops_per_seg = 2;
    campaign(
        "fast_retx",
        0..seeds(),
        su,
        Faults {
            drop_pct: 20,
            max_delay: 3,
            drop_rst: false,
        },
    );
}

#[test]
fn fuzz_two_drops() {
    let mut su = Setup::new(4);
    su.max_drops_per_seg = 2;
    campaign(
        "two_drops",
        0..seeds(),
        su,
        Faults {
            drop_pct: 25,
            max_delay: 2,
            drop_rst: false,
        },
    );
}

#[test]
fn fuzz_small_window() {
    let mut su = Setup::new(4);
    su.recv_cap = 2048;
    su.mtu = 300;
    campaign(
        "small_window",
        0..seeds(),
        su,
        Faults {
            drop_pct: 10,
            max_delay: 2,
            drop_rst: false,
        },
    );
}

#[test]
fn fuzz_small_mtu() {
    let mut su = Setup::new(4);
    su.mtu = 100;
    campaign(
        "small_mtu",
        0..seeds(),
        su,
        Faults {
            drop_pct: 5,
            max_delay: 2,
            drop_rst: false,
        },
    );
}

#[test]
fn fuzz_long_delay() {
    let su = Setup::new(4);
    campaign(
        "long_delay",
        0..seeds(),
        su,
        Faults {
            drop_pct: 0,
            max_delay: 8,
            drop_rst: false,
        },
    );
}

#[test]
fn fuzz_long_delay_drops() {
    let mut su = Setup::new(3);
    su.retx_max = 8;
    campaign(
        "long_delay_drops",
        0..seeds(),
        su,
        Faults {
            drop_pct: 8,
            max_delay: 7,
            drop_rst: false,
        },
    );
}
