//! Audit C13: ISN wrap-around (tcp_isn steps by 0x1_0000 from 0x0100_0000).
use std::cell::Cell;
use std::rc::Rc;
use std::time::Duration;
use tokio::io::{AsyncReadExt, AsyncWriteExt};
use tokio::time::{sleep, timeout};
use turmoil_net::fixture::ClientServer;
use turmoil_net::shim::tokio::net::{TcpListener, TcpStream};
use turmoil_net::{netstat, rule, Packet, Transport, Verdict};

#[test]
fn isn_wraps() {
    let last_syn = Rc::new(Cell::new(0u32));
    let ls = last_syn.clone();
    ClientServer::new()
        .server("server", async move {
            let l = TcpListener::bind("0.0.0.0:9000").await.unwrap();
            loop {
                let (mut s, _) = l.accept().await.unwrap();
                let mut total = 0u64;
                let mut b = vec![0u8; 65536];
                loop {
                    match s.read(&mut b).await {
                        Ok(0) | Err(_) => break,
                        Ok(n) => total += n as u64,
                    }
                }
                let _ = s.write_all(&total.to_be_bytes()).await;
            }
        })
        .run("client", async move {
            rule(move |p: &Packet| {
                if let Transport::Tcp(s) = &p.payload {
                    if s.flags.syn && !s.flags.ack {
                        ls.set(s.seq);
                    }
                }
                Verdict::Pass
            })
            .forget();
            let payload = vec![3u8; 150_000];
            let mut big = 0;
            for i in 0..66_000u32 {
                let mut c = timeout(Duration::from_millis(200), TcpStream::connect("server:9000"))
                    .await
                    .unwrap_or_else(|_| panic!("connect {i} hung"))
                    .unwrap();
                let near = last_syn.get() >= 0xFFF0_0000 || last_syn.get() < 0x0010_0000;
                let n = if near { big += 1; payload.len() } else { 2 };
                timeout(Duration::from_millis(2000), async {
                    c.write_all(&payload[..n]).await.unwrap();
                    c.shutdown().await.unwrap();
                    let mut r = [0u8; 8];
                    c.read_exact(&mut r).await.unwrap();
                    assert_eq!(u64::from_be_bytes(r), n as u64, "conn {i}");
                })
                .await
                .unwrap_or_else(|_| {
                    panic!(
                        "conn {i} (isn {:#x}) stalled\nserver:\n{}client:\n{}",
                        last_syn.get(),
                        netstat("server"),
                        netstat("client")
                    )
                });
                drop(c);
            }
            assert!(big > 10, "never got near the wrap: {big}");
            sleep(Duration::from_millis(100)).await;
            let s = netstat("server");
            assert!(s.entries.iter().all(|e| e.peer.is_none()), "{s}");
            assert!(netstat("client").entries.is_empty());
        });
}
