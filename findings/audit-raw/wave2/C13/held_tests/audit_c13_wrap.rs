//! Audit C13: ephemeral-port / 4-tuple reuse after the allocator wraps.
use std::time::Duration;
use tokio::io::{AsyncReadExt, AsyncWriteExt};
use tokio::time::{sleep, timeout};
use turmoil_net::fixture::ClientServer;
use turmoil_net::netstat;
use turmoil_net::shim::tokio::net::{TcpListener, TcpStream};

#[test]
fn many_sequential_connections_reuse_ports() {
    ClientServer::new()
        .server("server", async move {
            let l = TcpListener::bind("0.0.0.0:9000").await.unwrap();
            let mut i = 0u32;
            loop {
                let (mut s, _) = l.accept().await.unwrap();
                let m = i % 3;
                i += 1;
                match m {
                    0 => {
                        // server closes first
                        drop(s);
                    }
                    1 => {
                        // read to EOF then close
                        let mut b = [0u8; 8];
                        while let Ok(n) = s.read(&mut b).await {
                            if n == 0 {
                                break;
                            }
                        }
                    }
                    _ => {
                        // write then close; client drops with unread data -> RST
                        let _ = s.write_all(b"x").await;
                        let mut b = [0u8; 8];
                        let _ = s.read(&mut b).await;
                    }
                }
            }
        })
        .run("client", async move {
            let mut seen_wrap = false;
            let mut first_port = None;
            let n: u32 = std::env::var("C13_N")
                .ok()
                .and_then(|s| s.parse().ok())
                .unwrap_or(40_000);
            for i in 0..n {
                if i % 2000 == 0 {
                    eprintln!("conn {i}");
                }
                let mut c = timeout(
                    Duration::from_millis(200),
                    TcpStream::connect("server:9000"),
                )
                .await
                .unwrap_or_else(|_| panic!("connect {i} hung"))
                .unwrap_or_else(|e| panic!("connect {i} failed: {e}"));
                let p = c.local_addr().unwrap().port();
                if first_port.is_none() {
                    first_port = Some(p);
                } else if Some(p) == first_port {
                    seen_wrap = true;
                }
                match i % 3 {
                    0 => {
                        let mut b = [0u8; 8];
                        let r = timeout(Duration::from_millis(200), c.read(&mut b))
                            .await
                            .unwrap_or_else(|_| {
                                panic!(
                                    "read {i} hung (port {p})\nserver:\n{}client:\n{}",
                                    netstat("server"),
                                    netstat("client")
                                )
                            });
                        assert!(matches!(r, Ok(0)), "conn {i}: {r:?}");
                    }
                    1 => {
                        c.write_all(b"hi").await.unwrap();
                        c.shutdown().await.unwrap();
                    }
                    _ => {
                        // wait for the byte to be queued, then drop with it unread
                        sleep(Duration::from_millis(4)).await;
                    }
                }
                drop(c);
            }
            if n >= 17000 {
                assert!(seen_wrap, "allocator never wrapped");
            }
            sleep(Duration::from_millis(100)).await;
            let s = netstat("server");
            assert!(s.entries.iter().all(|e| e.peer.is_none()), "{s}");
            let c = netstat("client");
            assert!(c.entries.is_empty(), "{c}");
        });
}
