#![allow(dead_code, unused_imports)]
//! Randomised reclamation fuzz (audit C13). Not a deliverable by itself --
//! used to find schedules that leak.

use std::cell::{Cell, RefCell};
use std::collections::HashSet;
use std::net::SocketAddr;
use std::rc::Rc;
use std::time::Duration;

use tokio::io::{AsyncReadExt, AsyncWriteExt};
use tokio::time::{sleep, timeout};
use turmoil_net::fixture::ClientServer;
use turmoil_net::shim::tokio::net::{TcpListener, TcpStream};
use turmoil_net::{netstat, rule, KernelConfig, Packet, Transport, Verdict};

#[derive(Clone)]
struct Rng(u64);
impl Rng {
    fn new(seed: u64) -> Self {
        Rng(seed.wrapping_mul(0x9E37_79B9_7F4A_7C15) ^ 0xD1B5_4A32_D192_ED03)
    }
    fn next(&mut self) -> u64 {
        let mut x = self.0;
        x ^= x << 13;
        x ^= x >> 7;
        x ^= x << 17;
        self.0 = x;
        x
    }
    fn below(&mut self, n: u64) -> u64 {
        self.next() % n
    }
}

#[derive(Clone, Debug)]
enum Op {
    Write(usize),
    Read,
    ReadEof,
    Shutdown,
    Sleep(u64),
}

fn gen_ops(rng: &mut Rng) -> Vec<Op> {
    let n = rng.below(5);
    (0..n)
        .map(|_| match rng.below(6) {
            0 => Op::Write(1 + rng.below(3000) as usize),
            1 => Op::Read,
            2 => Op::ReadEof,
            3 => Op::Shutdown,
            _ => Op::Sleep(rng.below(8)),
        })
        .collect()
}

const OP_TIMEOUT: Duration = Duration::from_millis(40);

async fn run_ops(s: &mut TcpStream, ops: &[Op]) {
    for op in ops {
        match op {
            Op::Write(n) => {
                let buf = vec![7u8; *n];
                let _ = timeout(OP_TIMEOUT, s.write_all(&buf)).await;
            }
            Op::Read => {
                let mut buf = [0u8; 4096];
                let _ = timeout(OP_TIMEOUT, s.read(&mut buf)).await;
            }
            Op::ReadEof => {
                let _ = timeout(OP_TIMEOUT, async {
                    let mut buf = [0u8; 4096];
                    loop {
                        match s.read(&mut buf).await {
                            Ok(0) | Err(_) => break,
                            Ok(_) => {}
                        }
                    }
                })
                .await;
            }
            Op::Shutdown => {
                let _ = s.shutdown().await;
            }
            Op::Sleep(k) => sleep(Duration::from_millis(*k)).await,
        }
    }
}

#[derive(Clone, Copy)]
struct Faults {
    drop_pct: u64,
    max_delay: u64,
    drop_rst: bool,
}

#[derive(Clone, Copy)]
struct Setup {
    backlog: usize,
    chaos: bool,
    retx_threshold: u32,
    retx_max: u32,
    max_drops_per_seg: u8,
    expect_connect_ok: bool,
}

impl Setup {
    fn new(backlog: usize) -> Self {
        Setup {
            backlog,
            chaos: false,
            retx_threshold: 3,
            retx_max: 5,
            max_drops_per_seg: 1,
            expect_connect_ok: false,
        }
    }
}

fn fault_rule(mut rng: Rng, f: Faults, max_drops: u8) -> impl FnMut(&Packet) -> Verdict {
    // never drop the same segment twice: stays well inside the retx budget
    let mut dropped: std::collections::HashMap<
        (u16, u16, u32, u32, bool, bool, bool, bool, usize),
        u8,
    > = std::collections::HashMap::new();
    move |pkt: &Packet| {
        let Transport::Tcp(s) = &pkt.payload else {
            return Verdict::Pass;
        };
        let key = (
            s.src_port,
            s.dst_port,
            s.seq,
            s.ack,
            s.flags.syn,
            s.flags.ack,
            s.flags.fin,
            s.flags.rst,
            s.payload.len(),
        );
        let may_drop = f.drop_rst || !s.flags.rst;
        if may_drop && rng.below(100) < f.drop_pct {
            let c = dropped.entry(key).or_insert(0);
            if *c < max_drops {
                *c += 1;
                if s.flags.rst {
                    DROPPED_RST.with(|d| d.borrow_mut().push((pkt.dst, s.dst_port, s.src_port)));
                }
                return Verdict::Drop;
            }
        }
        let d = if f.max_delay == 0 {
            0
        } else {
            rng.below(f.max_delay + 1)
        };
        Verdict::Deliver(Duration::from_millis(d))
    }
}

thread_local! {
    static DROPPED_RST: RefCell<Vec<(std::net::IpAddr, u16, u16)>> = RefCell::new(Vec::new());
    static COVER: RefCell<std::collections::BTreeMap<String, usize>> = RefCell::new(Default::default());
}

fn run_lo(seed: u64, backlog: usize, target: &'static str, v6: bool) -> Vec<String> {
    let cfg = KernelConfig::default().default_backlog(backlog);
    let report: Rc<RefCell<Option<Vec<String>>>> = Rc::new(RefCell::new(None));
    let rep = report.clone();
    let mut srng = Rng::new(seed ^ 0xABCD);
    let mut crng = Rng::new(seed ^ 0x1234);
    let _ = &fault_rule;
    let srv_name: &'static str = if v6 { "fd00::1" } else { "10.1.1.1" };
    let bind_addr: &'static str = if v6 { "[::]:9000" } else { "0.0.0.0:9000" };
    ClientServer::with_config(cfg)
        .server(srv_name, async move {
            let done = Rc::new(Cell::new(false));
            let listener = TcpListener::bind(bind_addr).await.unwrap();
            let accepted: Rc<RefCell<Vec<SocketAddr>>> = Rc::new(RefCell::new(Vec::new()));
            let sworker = |mut rng: Rng| {
                let listener = &listener;
                let done = done.clone();
                let accepted = accepted.clone();
                async move {
                    while !done.get() {
                        sleep(Duration::from_millis(rng.below(6))).await;
                        let Ok(r) = timeout(Duration::from_millis(10), listener.accept()).await
                        else {
                            continue;
                        };
                        let (mut s, peer) = r.unwrap();
                        accepted.borrow_mut().push(peer);
                        assert_eq!(s.peer_addr().unwrap(), peer);
                        assert_eq!(s.local_addr().unwrap().port(), 9000);
                        let ops = gen_ops(&mut rng);
                        run_ops(&mut s, &ops).await;
                        drop(s);
                    }
                }
            };
            let total = Rc::new(Cell::new(0usize));
            let cworker = |mut rng: Rng| {
                let total = total.clone();
                async move {
                    for _ in 0..6 {
                        total.set(total.get() + 1);
                        let cancel = rng.below(3) == 0;
                        let c = if cancel {
                            let k = rng.below(4);
                            match timeout(Duration::from_millis(k), TcpStream::connect(target))
                                .await
                            {
                                Ok(r) => r,
                                Err(_) => continue,
                            }
                        } else {
                            TcpStream::connect(target).await
                        };
                        let Ok(mut c) = c else { continue };
                        let ops = gen_ops(&mut rng);
                        run_ops(&mut c, &ops).await;
                        drop(c);
                        sleep(Duration::from_millis(rng.below(4))).await;
                    }
                }
            };
            let r1 = Rng::new(srng.next());
            let r2 = Rng::new(srng.next());
            let r3 = Rng::new(crng.next());
            let r4 = Rng::new(crng.next());
            let d2 = done.clone();
            tokio::join!(sworker(r1), sworker(r2), async {
                tokio::join!(cworker(r3), cworker(r4));
                sleep(Duration::from_millis(100)).await;
                d2.set(true);
            });
            while let Ok(Ok((s, _))) = timeout(Duration::from_millis(5), listener.accept()).await {
                drop(s);
            }
            drop(listener);
            sleep(Duration::from_millis(300)).await;
            let mut v = Vec::new();
            let ns = netstat(srv_name);
            if !ns.entries.is_empty() {
                v.push(format!("seed {seed}: leftovers\n{ns}"));
            }
            if let Err(e) = TcpListener::bind(bind_addr).await {
                v.push(format!("seed {seed}: rebind {:?}", e.kind()));
            }
            for p in 49152..(49152 + total.get() as u16 + 8) {
                let a = if v6 {
                    format!("[::]:{p}")
                } else {
                    format!("0.0.0.0:{p}")
                };
                match TcpListener::bind(a.as_str()).await {
                    Ok(l) => drop(l),
                    Err(e) => v.push(format!("seed {seed}: port {p} stuck {:?}", e.kind())),
                }
            }
            let acc = accepted.borrow();
            let uniq: HashSet<_> = acc.iter().collect();
            if uniq.len() != acc.len() {
                v.push(format!("seed {seed}: dup accept"));
            }
            *rep.borrow_mut() = Some(v);
            std::future::pending::<()>().await;
        })
        .run("client", async move {
            loop {
                sleep(Duration::from_millis(10)).await;
                if let Some(v) = report.borrow_mut().take() {
                    return v;
                }
            }
        })
}

fn seeds() -> u64 {
    std::env::var("C13_SEEDS")
        .ok()
        .and_then(|s| s.parse().ok())
        .unwrap_or(150)
}

fn lo_campaign(backlog: usize, target: &'static str, v6: bool) {
    let mut fails = Vec::new();
    for seed in 0..seeds() {
        fails.extend(run_lo(seed, backlog, target, v6));
    }
    for f in &fails {
        eprintln!("{f}");
    }
    assert!(fails.is_empty(), "{} failures", fails.len());
}

#[test]
fn lo_v4() {
    lo_campaign(4, "127.0.0.1:9000", false);
}

#[test]
fn lo_v4_backlog1() {
    lo_campaign(1, "127.0.0.1:9000", false);
}

#[test]
fn own_ip_v4() {
    lo_campaign(3, "10.1.1.1:9000", false);
}

#[test]
fn lo_v6() {
    lo_campaign(4, "[::1]:9000", true);
}

#[test]
fn own_ip_v6() {
    lo_campaign(2, "[fd00::1]:9000", true);
}
