//! C19 audit (side check): TCP bulk transfer under per-packet random
//! sub-RTO delays with crossing deadlines; rules see each packet once.

use std::cell::RefCell;
use std::rc::Rc;
use std::time::Duration;

use tokio::io::{AsyncReadExt, AsyncWriteExt};
use turmoil_net::fixture::ClientServer;
use turmoil_net::shim::tokio::net::{TcpListener, TcpStream};
use turmoil_net::{rule, Packet, Verdict};

fn lcg(s: &mut u64) -> u64 {
    *s = s
        .wrapping_mul(6364136223846793005)
        .wrapping_add(1442695040888963407);
    *s >> 33
}

fn run(seed: u64, max_us: u64) {
    let n: usize = 200_000;
    let first_calls = Rc::new(RefCell::new(0usize));
    let second_calls = Rc::new(RefCell::new(0usize));
    let (f2, s2) = (first_calls.clone(), second_calls.clone());
    ClientServer::new()
        .server("server", async move {
            let l = TcpListener::bind("0.0.0.0:80").await.unwrap();
            let (mut s, _) = l.accept().await.unwrap();
            let mut buf = vec![0u8; n];
            s.read_exact(&mut buf).await.unwrap();
            for (i, b) in buf.iter().enumerate() {
                assert_eq!(*b, (i % 251) as u8, "byte {i}");
            }
            s.write_all(b"done").await.unwrap();
            let mut e = [0u8; 1];
            let _ = s.read(&mut e).await;
        })
        .run("client", async move {
            let mut st = seed;
            rule(move |_: &Packet| {
                *f2.borrow_mut() += 1;
                let us = lcg(&mut st) % (max_us + 1);
                if lcg(&mut st) % 3 == 0 { Verdict::Pass } else { Verdict::Deliver(Duration::from_micros(us)) }
            })
            .forget();
            rule(move |_: &Packet| {
                *s2.borrow_mut() += 1;
                Verdict::Drop
            })
            .forget();
            let mut c = TcpStream::connect("server:80").await.unwrap();
            let data: Vec<u8> = (0..n).map(|i| (i % 251) as u8).collect();
            c.write_all(&data).await.unwrap();
            let mut b = [0u8; 4];
            c.read_exact(&mut b).await.unwrap();
            assert_eq!(&b, b"done");
        });
    let f = *first_calls.borrow();
    let s = *second_calls.borrow();
    assert!(f > 100);
    // second rule is consulted exactly for the packets the first passed
    assert!(s > 0 && s < f, "{s} {f}");
}

#[test]
fn tcp_under_random_small_delays() {
    for seed in 1..6u64 {
        run(seed, 900);
    }
}
