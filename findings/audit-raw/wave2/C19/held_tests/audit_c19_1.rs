//! C19 audit: per-packet verdicts, deadlines and ordering under the
//! ClientServer fixture, UDP from several hosts + loopback traffic.

use std::cell::RefCell;
use std::collections::HashMap;
use std::rc::Rc;
use std::time::Duration;

use tokio::time::Instant;
use turmoil_net::fixture::ClientServer;
use turmoil_net::shim::tokio::net::UdpSocket;
use turmoil_net::{rule, Packet, Transport, Verdict};

const TICK: Duration = Duration::from_millis(1);

fn lcg(s: &mut u64) -> u64 {
    *s = s
        .wrapping_mul(6364136223846793005)
        .wrapping_add(1442695040888963407);
    *s >> 33
}

fn verdict_for(id: u32, seed: u64) -> Verdict {
    let mut s = seed ^ (id as u64).wrapping_mul(0x9E3779B97F4A7C15);
    lcg(&mut s);
    match lcg(&mut s) % 12 {
        0 => Verdict::Drop,
        1 => Verdict::Pass,
        2 => Verdict::Deliver(Duration::ZERO),
        3 => Verdict::Deliver(Duration::from_micros(300)),
        4 => Verdict::Deliver(Duration::from_micros(999)),
        5 => Verdict::Deliver(Duration::from_millis(1)),
        6 => Verdict::Deliver(Duration::from_micros(1500)),
        7 => Verdict::Deliver(Duration::from_millis(2)),
        8 => Verdict::Deliver(Duration::from_micros(2001)),
        9 => Verdict::Deliver(Duration::from_millis(3)),
        10 => Verdict::Deliver(Duration::from_millis(7)),
        _ => Verdict::Deliver(Duration::from_nanos(1)),
    }
}

fn id_of(pkt: &Packet) -> Option<u32> {
    match &pkt.payload {
        Transport::Udp(d) if d.payload.len() == 4 => {
            Some(u32::from_be_bytes(d.payload[..4].try_into().unwrap()))
        }
        _ => None,
    }
}

#[derive(Default)]
struct Log {
    // (id, egress instant, verdict) in rule-evaluation order
    seen: Vec<(u32, Instant, Verdict)>,
    // (id, arrival instant) in receive order
    got: Vec<(u32, Instant)>,
    loopback_seen: Vec<String>,
}

async fn sender(name: &'static str, base: u32, n: u32, seed: u64) {
    let s = UdpSocket::bind("0.0.0.0:0").await.unwrap();
    // a loopback echo pair on this host: rules must never see it
    let lo_rx = UdpSocket::bind("0.0.0.0:7000").await.unwrap();
    let my_ip = turmoil_net::lookup_host(name).unwrap();
    let mut st = seed;
    for i in 0..n {
        let id = base + i;
        s.send_to(&id.to_be_bytes(), "client:9000").await.unwrap();
        // loopback traffic, both 127.0.0.1 and own public address
        s.send_to(b"lo", "127.0.0.1:7000").await.unwrap();
        s.send_to(b"me", (my_ip, 7000)).await.unwrap();
        match lcg(&mut st) % 4 {
            0 => {}
            1 => tokio::task::yield_now().await,
            2 => tokio::time::sleep(TICK).await,
            _ => tokio::time::sleep(3 * TICK).await,
        }
        let mut b = [0u8; 8];
        while lo_rx.try_recv(&mut b).is_ok() {}
    }
    std::future::pending::<()>().await;
}

fn run(seed: u64) {
    let log = Rc::new(RefCell::new(Log::default()));
    let n = 60u32;
    let l2 = log.clone();
    ClientServer::new()
        .server("s1", sender("s1", 1000, n, seed ^ 1))
        .server("s2", sender("s2", 2000, n, seed ^ 2))
        .server("s3", sender("s3", 3000, n, seed ^ 3))
        .run("client", async move {
            let l3 = l2.clone();
            rule(move |pkt: &Packet| {
                let mut l = l3.borrow_mut();
                if pkt.dst.is_loopback() || pkt.src == pkt.dst {
                    l.loopback_seen.push(format!("{pkt:?}"));
                }
                match id_of(pkt) {
                    Some(id) => {
                        let v = verdict_for(id, seed);
                        l.seen.push((id, Instant::now(), v));
                        v
                    }
                    None => {
                        l.loopback_seen.push(format!("unexpected {pkt:?}"));
                        Verdict::Pass
                    }
                }
            })
            .forget();
            let rx = UdpSocket::bind("0.0.0.0:9000").await.unwrap();
            let end = Instant::now() + Duration::from_millis(400);
            let mut buf = [0u8; 16];
            loop {
                tokio::select! {
                    r = rx.recv_from(&mut buf) => {
                        let (k, _) = r.unwrap();
                        assert_eq!(k, 4);
                        let id = u32::from_be_bytes(buf[..4].try_into().unwrap());
                        l2.borrow_mut().got.push((id, Instant::now()));
                    }
                    _ = tokio::time::sleep_until(end) => break,
                }
            }
        });

    let log = log.borrow();
    assert!(log.loopback_seen.is_empty(), "{:?}", &log.loopback_seen[..2.min(log.loopback_seen.len())]);
    assert_eq!(log.seen.len(), 3 * n as usize, "every packet evaluated once");
    assert!(log.got.len() > 120, "non-vacuous: {}", log.got.len());

    // expected arrivals
    let mut expect: Vec<(Instant, usize, u32)> = Vec::new(); // (deadline, emission idx, id)
    let mut dl: HashMap<u32, (Instant, Duration)> = HashMap::new();
    for (idx, (id, at, v)) in log.seen.iter().enumerate() {
        let d = match v {
            Verdict::Drop => continue,
            Verdict::Pass => Duration::ZERO,
            Verdict::Deliver(d) => *d,
        };
        expect.push((*at + d, idx, *id));
        dl.insert(*id, (*at, d));
    }
    // every delivered id once, dropped never
    let mut cnt: HashMap<u32, usize> = HashMap::new();
    for (id, _) in &log.got {
        *cnt.entry(*id).or_default() += 1;
    }
    for (id, _, v) in &log.seen {
        let c = cnt.get(id).copied().unwrap_or(0);
        if *v == Verdict::Drop {
            assert_eq!(c, 0, "dropped {id} delivered");
        } else {
            assert_eq!(c, 1, "{id} {v:?} delivered {c} times");
        }
    }
    // timing
    for (id, arr) in &log.got {
        let (at, d) = dl[id];
        assert!(*arr >= at + d, "{id}: early: left {at:?} d {d:?} arrived {arr:?}");
        assert!(
            *arr < at + d + TICK,
            "{id}: late: left {at:?} d {d:?} arrived {arr:?}"
        );
    }
    // order: arrival order must equal (deadline-tick, deadline, emission) order;
    // within one tick the scheduler delivers by (deadline, seq).
    expect.sort();
    // group by arrival tick: compare sequence of ids per arrival instant
    let mut by_tick_expect: Vec<(Instant, u32)> = expect
        .iter()
        .map(|(dlv, _, id)| {
            // arrival tick = ceil to ms relative to any got instant base
            (*dlv, *id)
        })
        .collect();
    // stable: receive order must be non-decreasing in deadline, and equal
    // deadlines keep emission order
    let pos: HashMap<u32, usize> = by_tick_expect
        .drain(..)
        .enumerate()
        .map(|(i, (_, id))| (id, i))
        .collect();
    let got_pos: Vec<usize> = log.got.iter().map(|(id, _)| pos[id]).collect();
    for w in got_pos.windows(2) {
        assert!(w[0] < w[1], "receive order violates (deadline, emission) order");
    }
}

#[test]
fn udp_deadlines_and_order_seed_1() {
    run(1);
}
#[test]
fn udp_deadlines_and_order_seed_2() {
    run(0xDEADBEEF);
}
#[test]
fn udp_deadlines_and_order_seed_3() {
    run(987654321);
}
