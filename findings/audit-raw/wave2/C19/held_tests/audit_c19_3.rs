//! C19 audit: loopback never shown to rules (TCP + UDP, v4 + v6, own
//! public address, multi-homed), TCP packets are all shown, and a
//! delayed SYN to a closed port is answered exactly at its deadline tick.

use std::cell::RefCell;
use std::net::{IpAddr, Ipv4Addr, Ipv6Addr, SocketAddr};
use std::rc::Rc;
use std::time::Duration;

use tokio::io::{AsyncReadExt, AsyncWriteExt};
use tokio::time::Instant;
use turmoil_net::fixture::{lo, ClientServer};
use turmoil_net::shim::tokio::net::{TcpListener, TcpStream, UdpSocket};
use turmoil_net::{rule, Packet, Transport, Verdict};

const TICK: Duration = Duration::from_millis(1);

async fn echo_once(l: &TcpListener) {
    let (mut s, _) = l.accept().await.unwrap();
    let mut b = [0u8; 4];
    s.read_exact(&mut b).await.unwrap();
    s.write_all(&b).await.unwrap();
}

async fn tcp_roundtrip(addr: SocketAddr) {
    let mut c = TcpStream::connect(addr).await.unwrap();
    c.write_all(b"ping").await.unwrap();
    let mut b = [0u8; 4];
    c.read_exact(&mut b).await.unwrap();
    assert_eq!(&b, b"ping");
}

#[test]
fn loopback_never_shown_multi_host() {
    let seen: Rc<RefCell<Vec<String>>> = Rc::new(RefCell::new(Vec::new()));
    let seen2 = seen.clone();
    let a1: IpAddr = Ipv4Addr::new(10, 0, 0, 1).into();
    let a2: IpAddr = Ipv4Addr::new(10, 0, 0, 2).into();
    let a6: IpAddr = "fd00::1".parse::<Ipv6Addr>().unwrap().into();
    let b1: IpAddr = Ipv4Addr::new(10, 0, 1, 1).into();
    ClientServer::new()
        .server([b1], async move {
            // remote peer: plain TCP echo so that real traffic exists too
            let l = TcpListener::bind("0.0.0.0:80").await.unwrap();
            loop {
                echo_once(&l).await;
            }
        })
        .run([a1, a2, a6], async move {
            let s3 = seen2.clone();
            rule(move |p: &Packet| {
                let local = [a1, a2, a6];
                if p.dst.is_loopback() || (local.contains(&p.src) && local.contains(&p.dst)) {
                    s3.borrow_mut().push(format!("{p:?}"));
                }
                Verdict::Pass
            })
            .forget();

            let l4 = TcpListener::bind("0.0.0.0:90").await.unwrap();
            let l6 = TcpListener::bind("[::]:91").await.unwrap();
            let srv = tokio::task::spawn_local(async move {
                loop {
                    tokio::select! {
                        _ = echo_once(&l4) => {}
                        _ = echo_once(&l6) => {}
                    }
                }
            });
            // every flavour of "to myself"
            for dst in [
                SocketAddr::new(Ipv4Addr::LOCALHOST.into(), 90),
                SocketAddr::new(Ipv4Addr::new(127, 0, 0, 9).into(), 90),
                SocketAddr::new(a1, 90),
                SocketAddr::new(a2, 90),
                SocketAddr::new(Ipv6Addr::LOCALHOST.into(), 91),
                SocketAddr::new(a6, 91),
            ] {
                tcp_roundtrip(dst).await;
            }
            let u = UdpSocket::bind("0.0.0.0:5000").await.unwrap();
            let u2 = UdpSocket::bind((a2, 5001)).await.unwrap();
            for dst in [
                SocketAddr::new(Ipv4Addr::LOCALHOST.into(), 5000),
                SocketAddr::new(a1, 5000),
                SocketAddr::new(a2, 5000),
            ] {
                u2.send_to(b"x", dst).await.unwrap();
                let mut b = [0u8; 4];
                let (n, _) = u.recv_from(&mut b).await.unwrap();
                assert_eq!(n, 1);
            }
            // and real traffic still works / is shown
            tcp_roundtrip(SocketAddr::new(b1, 80)).await;
            srv.abort();
        });
    assert!(seen.borrow().is_empty(), "{:?}", seen.borrow().first());
}

#[test]
fn lo_fixture_never_shows_rules_anything() {
    let n = Rc::new(RefCell::new(0usize));
    let n2 = n.clone();
    lo(async move {
        rule(move |_: &Packet| {
            *n2.borrow_mut() += 1;
            Verdict::Drop
        })
        .forget();
        let l = TcpListener::bind("127.0.0.1:90").await.unwrap();
        let srv = tokio::task::spawn_local(async move {
            loop {
                echo_once(&l).await;
            }
        });
        tcp_roundtrip("127.0.0.1:90".parse().unwrap()).await;
        srv.abort();
    });
    assert_eq!(*n.borrow(), 0);
}

/// All TCP packets of a connection pass the chain (both directions), and
/// a SYN delayed by d to a closed port produces its RST exactly in the
/// tick where the deadline falls.
#[test]
fn delayed_syn_answered_at_deadline_tick() {
    for d_us in [1u64, 300, 999, 1000, 1001, 2500, 7000] {
        let d = Duration::from_micros(d_us);
        let log: Rc<RefCell<Vec<(Instant, bool, bool)>>> = Rc::new(RefCell::new(Vec::new()));
        let log2 = log.clone();
        ClientServer::new()
            .server("server", async move {
                std::future::pending::<()>().await;
            })
            .run("client", async move {
                let l3 = log2.clone();
                rule(move |p: &Packet| {
                    let Transport::Tcp(s) = &p.payload else {
                        return Verdict::Pass;
                    };
                    l3.borrow_mut()
                        .push((Instant::now(), s.flags.syn, s.flags.rst));
                    if s.flags.syn {
                        Verdict::Deliver(d)
                    } else {
                        Verdict::Pass
                    }
                })
                .forget();
                let e = TcpStream::connect("server:81").await.unwrap_err();
                assert_eq!(e.kind(), std::io::ErrorKind::ConnectionRefused);
            });
        let log = log.borrow();
        let syn = log.iter().find(|e| e.1).unwrap().0;
        let rst = log.iter().find(|e| e.2).unwrap().0;
        assert!(rst >= syn + d, "d={d:?}: rst {:?} after syn", rst - syn);
        assert!(rst < syn + d + TICK, "d={d:?}: rst {:?} after syn", rst - syn);
    }
}
