//! C19 audit: first-match semantics over arbitrary chains with
//! installs / removals from every install point, checked against a model.

use std::cell::RefCell;
use std::net::SocketAddr;
use std::rc::Rc;
use std::time::Duration;

use turmoil_net::shim::tokio::net::UdpSocket;
use turmoil_net::{rule, Net, Packet, RuleGuard, Transport, Verdict};

fn lcg(s: &mut u64) -> u64 {
    *s = s
        .wrapping_mul(6364136223846793005)
        .wrapping_add(1442695040888963407);
    *s >> 33
}

fn behaviour(rule_no: u32, pkt_id: u32) -> Verdict {
    let mut s = (rule_no as u64) << 32 | pkt_id as u64;
    lcg(&mut s);
    match lcg(&mut s) % 10 {
        0 => Verdict::Drop,
        1 => Verdict::Deliver(Duration::ZERO),
        2 => Verdict::Deliver(Duration::from_millis((rule_no % 5) as u64 + 1)),
        _ => Verdict::Pass,
    }
}

fn id_of(pkt: &Packet) -> u32 {
    match &pkt.payload {
        Transport::Udp(d) => u32::from_be_bytes(d.payload[..4].try_into().unwrap()),
        _ => panic!("udp only"),
    }
}

type Trace = Rc<RefCell<Vec<(u32, u32)>>>;

fn mk_rule(no: u32, trace: Trace) -> impl FnMut(&Packet) -> Verdict + 'static {
    move |p: &Packet| {
        let id = id_of(p);
        trace.borrow_mut().push((no, id));
        behaviour(no, id)
    }
}

fn run(seed: u64) {
    let trace: Trace = Rc::new(RefCell::new(Vec::new()));
    let mut model: Vec<u32> = Vec::new(); // installed rule numbers, install order
    let mut next_no = 0u32;

    let mut net = Net::new();
    let a = net.add_host("a");
    let b = net.add_host("b");
    let c = net.add_host("c");
    let hosts = [a, b, c];
    let mut st = seed;
    // permanent rules
    for _ in 0..(lcg(&mut st) % 3) {
        net.rule(mk_rule(next_no, trace.clone()));
        model.push(next_no);
        next_no += 1;
    }
    let guard = net.enter();
    let rt = tokio::runtime::Builder::new_current_thread()
        .enable_time()
        .start_paused(true)
        .build()
        .unwrap();
    rt.block_on(async {
        let mut socks = Vec::new();
        let mut addrs: Vec<SocketAddr> = Vec::new();
        for (i, h) in hosts.iter().enumerate() {
            guard.set_current(*h);
            let s = UdpSocket::bind("0.0.0.0:9000").await.unwrap();
            let ip = turmoil_net::lookup_host(["a", "b", "c"][i]).unwrap();
            addrs.push(SocketAddr::new(ip, 9000));
            socks.push(s);
        }
        let mut live: Vec<(u32, RuleGuard)> = Vec::new();
        let mut pkt_id = 0u32;
        let mut sent_nonlocal: Vec<u32> = Vec::new();
        let mut out = Vec::new();
        let mut evaluated = 0usize;
        let mut decided_by_rule = 0usize;
        for _step in 0..4000 {
            match lcg(&mut st) % 10 {
                0 => {
                    // scheduler-side guard
                    let g = guard.rule(mk_rule(next_no, trace.clone()));
                    model.push(next_no);
                    live.push((next_no, g));
                    next_no += 1;
                }
                1 => {
                    // task-side free fn
                    let g = rule(mk_rule(next_no, trace.clone()));
                    model.push(next_no);
                    live.push((next_no, g));
                    next_no += 1;
                }
                2 => {
                    // forgotten
                    if model.len() < 12 {
                        rule(mk_rule(next_no, trace.clone())).forget();
                        model.push(next_no);
                        next_no += 1;
                    }
                }
                3 | 4 => {
                    if !live.is_empty() {
                        let i = (lcg(&mut st) as usize) % live.len();
                        let (no, g) = live.remove(i);
                        drop(g);
                        model.retain(|n| *n != no);
                    }
                }
                5..=8 => {
                    let from = (lcg(&mut st) % 3) as usize;
                    let to = (lcg(&mut st) % 4) as usize;
                    guard.set_current(hosts[from]);
                    pkt_id += 1;
                    let dst: SocketAddr = if to == 3 {
                        "127.0.0.1:9000".parse().unwrap()
                    } else {
                        addrs[to]
                    };
                    socks[from]
                        .try_send_to(&pkt_id.to_be_bytes(), dst)
                        .unwrap();
                    if to != 3 && to != from {
                        sent_nonlocal.push(pkt_id);
                    }
                }
                _ => {
                    // tick: everything that left a host is evaluated
                    out.clear();
                    guard.egress_all(&mut out);
                    let ids: Vec<u32> = out.iter().map(id_of).collect();
                    let mut exp = sent_nonlocal.clone();
                    exp.sort();
                    let mut got = ids.clone();
                    got.sort();
                    assert_eq!(got, exp, "exactly the non-loopback packets egress");
                    sent_nonlocal.clear();
                    for pkt in out.drain(..) {
                        // random chain change between packets too
                        if lcg(&mut st) % 5 == 0 && !live.is_empty() {
                            let i = (lcg(&mut st) as usize) % live.len();
                            let (no, g) = live.remove(i);
                            drop(g);
                            model.retain(|n| *n != no);
                        }
                        trace.borrow_mut().clear();
                        let v = guard.evaluate(&pkt);
                        evaluated += 1;
                        let id = id_of(&pkt);
                        let mut exp_trace = Vec::new();
                        let mut exp_v = Verdict::Pass;
                        for no in &model {
                            exp_trace.push((*no, id));
                            let bv = behaviour(*no, id);
                            if bv != Verdict::Pass {
                                exp_v = bv;
                                break;
                            }
                        }
                        assert_eq!(*trace.borrow(), exp_trace, "rules consulted, in order");
                        assert_eq!(v, exp_v);
                        if v != Verdict::Pass {
                            decided_by_rule += 1;
                        }
                        guard.deliver(pkt);
                    }
                }
            }
        }
        assert!(evaluated > 300 && decided_by_rule > 100, "{evaluated} {decided_by_rule}");
        drop(live);
    });
    drop(guard);
}

#[test]
fn chain_model_seed_1() {
    run(1);
}
#[test]
fn chain_model_seed_2() {
    run(0xABCDEF);
}
#[test]
fn chain_model_seed_3() {
    run(424242);
}
