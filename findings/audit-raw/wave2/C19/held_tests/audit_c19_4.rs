//! C19 audit: guard lifetimes interleaved with traffic under the fixture.

use std::cell::{Cell, RefCell};
use std::rc::Rc;
use std::time::Duration;

use turmoil_net::fixture::ClientServer;
use turmoil_net::shim::tokio::net::UdpSocket;
use turmoil_net::{rule, Packet, RuleGuard, Transport, Verdict};

fn tag(p: &Packet) -> u8 {
    match &p.payload {
        Transport::Udp(d) => d.payload[0],
        _ => 0,
    }
}

#[test]
fn guard_lifetimes_interleaved_with_traffic() {
    let got: Rc<RefCell<Vec<u8>>> = Rc::new(RefCell::new(Vec::new()));
    let got2 = got.clone();
    let shared: Rc<RefCell<Option<RuleGuard>>> = Rc::new(RefCell::new(None));
    let shared_srv = shared.clone();
    let calls = Rc::new(Cell::new(0u32));
    let calls2 = calls.clone();
    let leftover = ClientServer::new()
        .server("sink", async move {
            let s = UdpSocket::bind("0.0.0.0:9000").await.unwrap();
            let mut b = [0u8; 4];
            loop {
                let (_, _) = s.recv_from(&mut b).await.unwrap();
                got2.borrow_mut().push(b[0]);
                if b[0] == 4 {
                    // a task on another host drops the client's guard
                    shared_srv.borrow_mut().take();
                }
            }
        })
        .run("client", async move {
            let c = UdpSocket::bind("0.0.0.0:0").await.unwrap();
            let tick = Duration::from_millis(1);
            // R1 drops tags 1 and 2 only
            let c1 = calls2.clone();
            let g1 = rule(move |p: &Packet| {
                c1.set(c1.get() + 1);
                if tag(p) <= 2 { Verdict::Drop } else { Verdict::Pass }
            });
            c.send_to(&[1], "sink:9000").await.unwrap();
            tokio::time::sleep(3 * tick).await;
            assert_eq!(calls2.get(), 1);
            // sent while the guard lives, but it leaves the host after the
            // drop: the rule no longer applies
            c.send_to(&[2], "sink:9000").await.unwrap();
            drop(g1);
            tokio::time::sleep(3 * tick).await;
            assert_eq!(calls2.get(), 1, "dropped guard's rule must not run");
            // R2 installed after the send but before the packet leaves
            c.send_to(&[3], "sink:9000").await.unwrap();
            let g2 = rule(|p: &Packet| if tag(p) == 3 { Verdict::Drop } else { Verdict::Pass });
            tokio::time::sleep(3 * tick).await;
            // earlier-installed Deliver shadows later Drop; drop the earlier one
            // from a task of another host while traffic is in flight
            let g3 = rule(|p: &Packet| if tag(p) >= 4 { Verdict::Deliver(Duration::from_millis(2)) } else { Verdict::Pass });
            let g4 = rule(|p: &Packet| if tag(p) >= 5 { Verdict::Drop } else { Verdict::Pass });
            *shared.borrow_mut() = Some(g3);
            c.send_to(&[4], "sink:9000").await.unwrap(); // delayed 2ms, then sink drops g3
            tokio::time::sleep(tick).await;
            c.send_to(&[5], "sink:9000").await.unwrap(); // still under g3: delivered (2ms)
            tokio::time::sleep(5 * tick).await;
            assert!(shared.borrow().is_none());
            c.send_to(&[6], "sink:9000").await.unwrap(); // g3 gone: g4 drops
            tokio::time::sleep(5 * tick).await;
            drop(g2);
            c.send_to(&[3], "sink:9000").await.unwrap(); // g2 gone: delivered
            g4.forget();
            c.send_to(&[7], "sink:9000").await.unwrap(); // forgotten g4 still drops
            tokio::time::sleep(5 * tick).await;
            // hand a live guard out of the simulation
            rule(|_: &Packet| Verdict::Drop)
        });
    assert_eq!(*got.borrow(), vec![2, 4, 5, 3]);
    drop(leftover); // Net is gone: must be a no-op
}
