//! Audit C11: observation only - panic inside spawn_blocking (a real OS thread,
//! outside tokio's unhandled_panic contract).
use std::panic::{catch_unwind, AssertUnwindSafe};
use std::time::Duration;
use turmoil::Builder;

#[test]
fn spawn_blocking_panic_detached() {
    std::panic::set_hook(Box::new(|_| {}));
    let r = catch_unwind(AssertUnwindSafe(|| {
        let mut sim = Builder::new().build();
        sim.client("c", async {
            let h = tokio::task::spawn_blocking(|| panic!("audit panic"));
            while !h.is_finished() {
                tokio::time::sleep(Duration::from_millis(1)).await;
            }
            Ok(())
        });
        sim.run()
    }));
    let _ = std::panic::take_hook();
    assert!(r.is_err(), "spawn_blocking panic not forwarded: {r:?}");
}
