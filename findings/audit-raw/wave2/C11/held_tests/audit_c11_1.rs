//! Audit C11: model-based sweep of Sim::run outcome.
use std::panic::{catch_unwind, AssertUnwindSafe};
use std::time::Duration;

use turmoil::{Builder, Result};

#[derive(Clone, Copy, Debug, PartialEq)]
enum Out {
    Ok,
    Err,
    Never,
    Panic,
}

#[derive(Clone, Copy, Debug, PartialEq)]
enum Place {
    Main,
    SpawnLocal,
    Spawn,
}

#[derive(Clone, Copy, Debug)]
struct Sw {
    client: bool,
    out: Out,
    /// virtual time (us) at which the outcome happens
    at_us: u64,
    place: Place,
}

#[derive(Debug, PartialEq, Clone, Copy)]
enum Res {
    Ok,
    Err,
    Panic,
}

struct Lcg(u64);
impl Lcg {
    fn next(&mut self) -> u64 {
        self.0 = self
            .0
            .wrapping_mul(6364136223846793005)
            .wrapping_add(1442695040888963407);
        self.0 >> 33
    }
    fn below(&mut self, n: u64) -> u64 {
        self.next() % n
    }
}

async fn behave(sw: Sw) -> Result {
    async fn inner(out: Out, at_us: u64) -> Result {
        if out == Out::Never {
            std::future::pending::<()>().await;
        }
        tokio::time::sleep(Duration::from_micros(at_us)).await;
        match out {
            Out::Ok => Ok(()),
            Out::Err => Err("boom")?,
            Out::Panic => panic!("audit panic"),
            Out::Never => unreachable!(),
        }
    }
    match sw.place {
        Place::Main => inner(sw.out, sw.at_us).await,
        Place::SpawnLocal => {
            let h = tokio::task::spawn_local(async move {
                inner(sw.out, sw.at_us).await.map_err(|e| e.to_string())
            });
            match h.await {
                Ok(r) => r.map_err(|e| e.into()),
                // the panic is supposed to be forwarded by the runtime
                Err(_) => std::future::pending().await,
            }
        }
        Place::Spawn => {
            let (out, at) = (sw.out, sw.at_us);
            let h = tokio::spawn(async move { inner(out, at).await.map_err(|e| e.to_string()) });
            match h.await {
                Ok(r) => r.map_err(|e| e.into()),
                Err(_) => std::future::pending().await,
            }
        }
    }
}

/// step (1-based) in which an event at `at_us` is observed; at_us is never a
/// multiple of the tick here.
fn step_of(at_us: u64, tick_us: u64) -> u64 {
    at_us / tick_us + 1
}

fn expected(sws: &[Sw], tick_us: u64, dur_us: u64) -> Vec<Res> {
    if !sws.iter().any(|s| s.client) {
        return vec![Res::Ok];
    }
    let n_last = dur_us / tick_us + 1;
    let inf = u64::MAX;
    let f = sws
        .iter()
        .filter(|s| s.client)
        .map(|s| match s.out {
            Out::Ok => step_of(s.at_us, tick_us),
            Out::Never => inf,
            // handled through e / p
            _ => 0,
        })
        .max()
        .unwrap();
    let e = sws
        .iter()
        .filter(|s| s.out == Out::Err)
        .map(|s| step_of(s.at_us, tick_us))
        .min()
        .unwrap_or(inf);
    let p = sws
        .iter()
        .filter(|s| s.out == Out::Panic)
        .map(|s| step_of(s.at_us, tick_us))
        .min()
        .unwrap_or(inf);
    let stop = f.min(e).min(p).min(n_last);
    // a client that errs / panics has f contribution 0; the run cannot stop
    // by "finished" before that event happens, so treat stop by e/p first.
    let has_bad_client = sws
        .iter()
        .any(|s| s.client && matches!(s.out, Out::Err | Out::Panic));
    let stop = if has_bad_client {
        e.min(p).min(n_last)
    } else {
        stop
    };
    let mut v = vec![];
    if p == stop {
        v.push(Res::Panic);
    }
    if e == stop {
        v.push(Res::Err);
    }
    if !v.is_empty() {
        return v;
    }
    if !has_bad_client && f <= n_last && f == stop {
        return vec![Res::Ok];
    }
    vec![Res::Err]
}

fn run_case(sws: &[Sw], tick_us: u64, dur_us: u64, random_order: bool, seed: u64) -> Res {
    let r = catch_unwind(AssertUnwindSafe(|| {
        let mut b = Builder::new();
        b.tick_duration(Duration::from_micros(tick_us))
            .simulation_duration(Duration::from_micros(dur_us))
            .rng_seed(seed);
        if random_order {
            b.enable_random_order();
        }
        let mut sim = b.build();
        for (i, sw) in sws.iter().copied().enumerate() {
            if sw.client {
                sim.client(format!("c{i}"), behave(sw));
            } else {
                sim.host(format!("h{i}"), move || behave(sw));
            }
        }
        sim.run()
    }));
    match r {
        Ok(Ok(())) => Res::Ok,
        Ok(Err(_)) => Res::Err,
        Err(_) => Res::Panic,
    }
}

#[test]
fn sweep_single_run() {
    std::panic::set_hook(Box::new(|_| {}));
    let mut rng = Lcg(0xC11);
    let mut failures = vec![];
    let mut counts = [0usize; 3];
    for case in 0..3000u64 {
        // ticks in whole milliseconds
        let tick_ms = [2u64, 3, 7, 10][rng.below(4) as usize];
        let tick_us = tick_ms * 1000;
        // duration in us, sometimes a multiple of the tick, sometimes not
        let dur_us = match rng.below(3) {
            0 => tick_us * rng.below(8),
            1 => tick_us * rng.below(8) + 1 + rng.below(tick_us - 1),
            _ => rng.below(8 * tick_us),
        };
        let n = rng.below(5);
        let mut sws = vec![];
        for _ in 0..n {
            let client = rng.below(2) == 0;
            let out = match rng.below(8) {
                0 => Out::Err,
                1 => Out::Panic,
                2 => Out::Never,
                _ => Out::Ok,
            };
            // whole ms, never a multiple of the tick unless tick is 1ms; to
            // stay off boundaries use a half-ms offset
            let mut at_ms = rng.below(10 * tick_ms);
            if at_ms % tick_ms == 0 {
                at_ms += 1;
            }
            let at_us = at_ms * 1000;
            let place = match rng.below(3) {
                0 => Place::Main,
                1 => Place::SpawnLocal,
                _ => Place::Spawn,
            };
            sws.push(Sw {
                client,
                out,
                at_us,
                place,
            });
        }
        let random_order = rng.below(2) == 0;
        let exp = expected(&sws, tick_us, dur_us);
        let got = run_case(&sws, tick_us, dur_us, random_order, case);
        counts[got as usize] += 1;
        if !exp.contains(&got) {
            failures.push(format!(
                "case {case}: tick {tick_us}us dur {dur_us}us order {random_order} sws {sws:?}: expected {exp:?} got {got:?}"
            ));
        }
    }
    let _ = std::panic::take_hook();
    eprintln!("ok/err/panic = {counts:?}");
    assert!(
        failures.is_empty(),
        "{} failures:\n{}",
        failures.len(),
        failures[..failures.len().min(20)].join("\n")
    );
}
