//! Audit C11: model-based sweep over repeated runs, clients registered after
//! earlier runs, crashed / bounced hosts.
use std::panic::{catch_unwind, AssertUnwindSafe};
use std::time::Duration;

use turmoil::{Builder, Result, Sim};

#[derive(Clone, Copy, Debug, PartialEq)]
enum Out {
    Ok,
    Err,
    Never,
    Panic,
}

#[derive(Clone, Copy, Debug)]
struct Sw {
    out: Out,
    at_ms: u64,
    spawned: u8,
}

#[derive(Debug, PartialEq, Clone, Copy)]
enum Res {
    Ok,
    Err,
    Panic,
}

struct Lcg(u64);
impl Lcg {
    fn next(&mut self) -> u64 {
        self.0 = self
            .0
            .wrapping_mul(6364136223846793005)
            .wrapping_add(1442695040888963407);
        self.0 >> 33
    }
    fn below(&mut self, n: u64) -> u64 {
        self.next() % n
    }
}

async fn inner(out: Out, at_ms: u64) -> std::result::Result<(), String> {
    if out == Out::Never {
        std::future::pending::<()>().await;
    }
    tokio::time::sleep(Duration::from_millis(at_ms)).await;
    match out {
        Out::Ok => Ok(()),
        Out::Err => Err("boom".to_string()),
        Out::Panic => panic!("audit panic"),
        Out::Never => unreachable!(),
    }
}

async fn behave(sw: Sw) -> Result {
    let r = match sw.spawned {
        0 => inner(sw.out, sw.at_ms).await,
        1 => match tokio::task::spawn_local(inner(sw.out, sw.at_ms)).await {
            Ok(r) => r,
            Err(_) => std::future::pending().await,
        },
        _ => match tokio::spawn(inner(sw.out, sw.at_ms)).await {
            Ok(r) => r,
            Err(_) => std::future::pending().await,
        },
    };
    r.map_err(|e| e.into())
}

const INF: u64 = u64::MAX;

#[derive(Debug)]
struct Model {
    tick: u64,
    dur: u64,
    /// steps done
    s: u64,
    /// unfinished clients: event step, outcome
    clients: Vec<(u64, Out)>,
    any_client: bool,
    /// hosts: name index -> (sw, Some(event step)) when running
    hosts: Vec<(Sw, Option<u64>)>,
}

impl Model {
    fn ev(&self, sw: Sw) -> u64 {
        if sw.out == Out::Never {
            INF
        } else {
            (self.s * self.tick + sw.at_ms) / self.tick + 1
        }
    }

    /// expected results of a run() now; updates the state on Ok
    fn run(&mut self) -> Vec<Res> {
        if !self.any_client {
            return vec![Res::Ok];
        }
        let first = self.s + 1;
        let n_last = first.max(self.dur / self.tick + 1);
        let f = self
            .clients
            .iter()
            .map(|&(st, o)| if o == Out::Ok { st } else { INF })
            .max()
            .unwrap_or(first);
        let evs: Vec<(u64, Out)> = self
            .clients
            .iter()
            .copied()
            .chain(
                self.hosts
                    .iter()
                    .filter_map(|(sw, e)| e.map(|e| (e, sw.out))),
            )
            .collect();
        let e = evs
            .iter()
            .filter(|x| x.1 == Out::Err)
            .map(|x| x.0)
            .min()
            .unwrap_or(INF);
        let p = evs
            .iter()
            .filter(|x| x.1 == Out::Panic)
            .map(|x| x.0)
            .min()
            .unwrap_or(INF);
        let stop = f.min(e).min(p).min(n_last);
        let mut v = vec![];
        if p == stop {
            v.push(Res::Panic);
        }
        if e == stop {
            v.push(Res::Err);
        }
        if !v.is_empty() {
            return v;
        }
        if f == stop {
            self.s = stop;
            self.clients.clear();
            for h in &mut self.hosts {
                if let (Out::Ok, Some(e)) = (h.0.out, h.1) {
                    if e <= stop {
                        h.1 = None;
                    }
                }
            }
            return vec![Res::Ok];
        }
        vec![Res::Err]
    }
}

fn one_case(case: u64, rng: &mut Lcg) -> std::result::Result<(), String> {
    let tick = [2u64, 3, 5, 10][rng.below(4) as usize];
    let dur = rng.below(40 * tick);
    let mut m = Model {
        tick,
        dur,
        s: 0,
        clients: vec![],
        any_client: false,
        hosts: vec![],
    };
    let mut log = vec![format!("tick {tick} dur {dur}")];
    let random_order = rng.below(2) == 0;
    let mut b = Builder::new();
    b.tick_duration(Duration::from_millis(tick))
        .simulation_duration(Duration::from_millis(dur))
        .rng_seed(case);
    if random_order {
        b.enable_random_order();
    }
    let mut sim: Sim<'_> = b.build();
    let mut names = 0;

    let gen = |rng: &mut Lcg| {
        let out = match rng.below(10) {
            0 => Out::Err,
            1 => Out::Panic,
            2 | 3 => Out::Never,
            _ => Out::Ok,
        };
        let mut at_ms = rng.below(12 * tick);
        if at_ms % tick == 0 {
            at_ms += 1;
        }
        Sw {
            out,
            at_ms,
            spawned: rng.below(3) as u8,
        }
    };

    for phase in 0..4 {
        // register hosts
        for _ in 0..rng.below(3) {
            let mut sw = gen(rng);
            if phase > 0 && sw.out == Out::Never && rng.below(2) == 0 {
                sw.out = Out::Ok;
            }
            let ev = m.ev(sw);
            m.hosts.push((sw, Some(ev)));
            let name = format!("h{}", m.hosts.len() - 1);
            log.push(format!("phase {phase}: host {name} {sw:?} ev {ev}"));
            sim.host(name, move || behave(sw));
        }
        // register clients
        for _ in 0..rng.below(3) {
            let mut sw = gen(rng);
            if sw.out == Out::Never && rng.below(2) == 0 {
                sw.out = Out::Ok;
            }
            let ev = m.ev(sw);
            m.clients.push((ev, sw.out));
            m.any_client = true;
            names += 1;
            log.push(format!("phase {phase}: client c{names} {sw:?} ev {ev}"));
            sim.client(format!("c{names}"), behave(sw));
        }
        // crash / bounce
        for i in 0..m.hosts.len() {
            match rng.below(6) {
                0 => {
                    sim.crash(format!("h{i}"));
                    m.hosts[i].1 = None;
                    log.push(format!("phase {phase}: crash h{i}"));
                }
                1 => {
                    sim.bounce(format!("h{i}"));
                    let ev = m.ev(m.hosts[i].0);
                    m.hosts[i].1 = Some(ev);
                    log.push(format!("phase {phase}: bounce h{i} ev {ev}"));
                }
                _ => {}
            }
        }
        for (i, h) in m.hosts.iter().enumerate() {
            let running = sim.is_host_running(format!("h{i}"));
            if running != h.1.is_some() {
                return Err(format!(
                    "is_host_running(h{i}) = {running}, model {:?}\n{}",
                    h.1,
                    log.join("\n")
                ));
            }
        }
        let exp = m.run();
        let got = match catch_unwind(AssertUnwindSafe(|| sim.run())) {
            Ok(Ok(())) => Res::Ok,
            Ok(Err(_)) => Res::Err,
            Err(_) => Res::Panic,
        };
        log.push(format!("phase {phase}: run expected {exp:?} got {got:?}"));
        if !exp.contains(&got) {
            return Err(log.join("\n"));
        }
        if got != Res::Ok {
            return Ok(());
        }
        let el = sim.elapsed().as_millis() as u64;
        if el != m.s * tick {
            return Err(format!(
                "elapsed {el} != model {}\n{}",
                m.s * tick,
                log.join("\n")
            ));
        }
    }
    Ok(())
}

#[test]
fn sweep_repeated_runs() {
    std::panic::set_hook(Box::new(|_| {}));
    let mut rng = Lcg(0xC11_3);
    let mut failures = vec![];
    for case in 0..3000u64 {
        if let Err(e) = one_case(case, &mut rng) {
            failures.push(format!("case {case}:\n{e}"));
        }
    }
    let _ = std::panic::take_hook();
    assert!(
        failures.is_empty(),
        "{} failures:\n{}",
        failures.len(),
        failures[..failures.len().min(5)].join("\n\n")
    );
}
