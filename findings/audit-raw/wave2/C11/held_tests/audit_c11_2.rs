//! Audit C11: targeted hypotheses about Sim::run / Sim::step.
use std::cell::Cell;
use std::panic::{catch_unwind, AssertUnwindSafe};
use std::rc::Rc;
use std::time::Duration;

use turmoil::{Builder, Result};

fn ms(n: u64) -> Duration {
    Duration::from_millis(n)
}

/// H2: client registered after an earlier successful run is awaited.
#[test]
fn client_after_earlier_run() {
    let mut sim = Builder::new()
        .simulation_duration(ms(100))
        .tick_duration(ms(10))
        .build();
    sim.client("a", async {
        tokio::time::sleep(ms(15)).await;
        Ok(())
    });
    assert!(sim.run().is_ok());
    assert_eq!(sim.elapsed(), ms(20));
    let done = Rc::new(Cell::new(false));
    let d = done.clone();
    sim.client("b", async move {
        tokio::time::sleep(ms(35)).await;
        d.set(true);
        Ok(())
    });
    assert!(sim.run().is_ok());
    assert!(done.get());
    assert_eq!(sim.elapsed(), ms(60));
    // third client cannot make it: 60 + 45 > 100
    sim.client("c", async move {
        tokio::time::sleep(ms(55)).await;
        Ok(())
    });
    assert!(sim.run().is_err());
    // and an erroring one
    let mut sim = Builder::new().build();
    sim.client("a", async { Ok(()) });
    assert!(sim.run().is_ok());
    sim.client("b", async { Err("late error")? });
    assert!(sim.run().is_err());
}

/// H3: finished software (and its leftover tasks) is never polled again.
#[test]
fn finished_software_not_polled_again() {
    let polls = Rc::new(Cell::new(0u32));
    let mut sim = Builder::new().tick_duration(ms(1)).build();
    let p = polls.clone();
    sim.host("h", move || {
        let p = p.clone();
        async move {
            tokio::task::spawn_local(async move {
                loop {
                    p.set(p.get() + 1);
                    tokio::time::sleep(ms(1)).await;
                }
            });
            tokio::time::sleep(ms(3)).await;
            Ok(())
        }
    });
    let p2 = Rc::new(Cell::new(0u32));
    let p2c = p2.clone();
    sim.client("c", async move {
        tokio::task::spawn_local(async move {
            loop {
                p2c.set(p2c.get() + 1);
                tokio::time::sleep(ms(1)).await;
            }
        });
        tokio::time::sleep(ms(3)).await;
        Ok(())
    });
    sim.client("slow", async {
        tokio::time::sleep(ms(50)).await;
        Ok(())
    });
    for _ in 0..6 {
        assert!(!sim.step().unwrap());
    }
    assert!(!sim.is_host_running("h"));
    let (a, b) = (polls.get(), p2.get());
    assert!(sim.run().is_ok());
    assert_eq!(polls.get(), a, "leftover task of finished host polled again");
    assert_eq!(p2.get(), b, "leftover task of finished client polled again");
}

/// H4: crashed host software is never polled again and does not keep run from
/// succeeding; a crashed host that would have erred / panicked does not.
#[test]
fn crashed_host_not_polled() {
    let polls = Rc::new(Cell::new(0u32));
    let mut sim = Builder::new().tick_duration(ms(1)).build();
    let p = polls.clone();
    sim.host("h", move || {
        let p = p.clone();
        async move {
            tokio::task::spawn_local(async {
                tokio::time::sleep(ms(10)).await;
                panic!("would panic");
            });
            loop {
                p.set(p.get() + 1);
                tokio::time::sleep(ms(1)).await;
                if p.get() > 8 {
                    return Err("would err")?;
                }
            }
        }
    });
    sim.client("c", async {
        tokio::time::sleep(ms(30)).await;
        Ok(())
    });
    for _ in 0..3 {
        assert!(!sim.step().unwrap());
    }
    sim.crash("h");
    let a = polls.get();
    assert!(sim.run().is_ok());
    assert_eq!(polls.get(), a);
}

/// H5: zero clients: run Ok without stepping, step Ok(true).
#[test]
fn zero_clients() {
    let mut sim = Builder::new().build();
    assert!(sim.run().is_ok());
    assert!(sim.step().unwrap());
    sim.host("h", || async {
        std::future::pending::<()>().await;
        Ok(())
    });
    assert!(sim.run().is_ok());
    assert!(sim.step().unwrap());
    assert!(sim.run().is_ok());
}

/// H6: step and run agree, step by step.
#[test]
fn step_consistent_with_run() {
    for dur in [0u64, 5, 10, 14, 20, 25, 31] {
        for fin in [1u64, 9, 11, 19, 21, 29, 31, 39] {
            let build = || {
                let mut sim = Builder::new()
                    .tick_duration(ms(10))
                    .simulation_duration(ms(dur))
                    .build();
                sim.client("c", async move {
                    tokio::time::sleep(ms(fin)).await;
                    Ok(())
                });
                sim.host("h", || async {
                    std::future::pending::<()>().await;
                    Ok(())
                });
                sim
            };
            let by_run = build().run().is_ok();
            let mut sim = build();
            let by_step = loop {
                match sim.step() {
                    Ok(true) => break true,
                    Ok(false) => {}
                    Err(_) => break false,
                }
            };
            // step s = fin/10+1 ; last step = dur/10+1
            let exp = fin / 10 + 1 <= dur / 10 + 1;
            assert_eq!(by_run, exp, "run: dur {dur} fin {fin}");
            assert_eq!(by_step, exp, "step: dur {dur} fin {fin}");
            if by_step {
                assert_eq!(sim.elapsed(), ms((fin / 10 + 1) * 10));
                // stays finished
                assert!(sim.step().unwrap());
            }
        }
    }
}

/// H7: finishes on an exact step boundary are attributed to an adjacent step;
/// with the duration on the same boundary either outcome is allowed, but one
/// tick further away the outcome is fixed.
#[test]
fn boundary_finishes() {
    for (dur, fin, exp) in [
        // finish at 20 is in step 2 or 3; last step for dur 20 is 3 => Ok
        (20u64, 20u64, Some(true)),
        // last step for dur 19 is 2; finish at 20 in step 2 or 3 => either
        (19, 20, None),
        // last step for dur 9 is 1; finish at 20 is step 2 or 3 => Err
        (9, 20, Some(false)),
        (10, 20, None),
        (30, 20, Some(true)),
    ] {
        let mut sim = Builder::new()
            .tick_duration(ms(10))
            .simulation_duration(ms(dur))
            .build();
        sim.client("c", async move {
            tokio::time::sleep(ms(fin)).await;
            Ok(())
        });
        let got = sim.run().is_ok();
        if let Some(exp) = exp {
            assert_eq!(got, exp, "dur {dur} fin {fin}");
        }
    }
}

/// H8: a panic in one of many simultaneously woken tasks is forwarded no
/// matter its position in the run queue (tokio runs 61 tasks per tick).
#[test]
fn panic_position_in_queue() {
    std::panic::set_hook(Box::new(|_| {}));
    let mut swallowed = vec![];
    for local in [true, false] {
        for total in [1usize, 60, 61, 62, 122, 123, 200] {
            for pos in [0usize, 59, 60, 61, 62, 121, 122, 199] {
                if pos >= total {
                    continue;
                }
                for client in [true, false] {
                    let r = catch_unwind(AssertUnwindSafe(|| {
                        let mut sim = Builder::new().tick_duration(ms(2)).build();
                        let sw = move || async move {
                            for i in 0..total {
                                let f = async move {
                                    tokio::time::sleep(ms(3)).await;
                                    if i == pos {
                                        panic!("audit panic");
                                    }
                                };
                                if local {
                                    tokio::task::spawn_local(f);
                                } else {
                                    tokio::spawn(f);
                                }
                            }
                            tokio::time::sleep(ms(7)).await;
                            Ok(())
                        };
                        if client {
                            sim.client("x", sw());
                        } else {
                            sim.host("x", sw);
                            sim.client("c", async {
                                tokio::time::sleep(ms(9)).await;
                                Ok(())
                            });
                        }
                        sim.run()
                    }));
                    if r.is_ok() {
                        swallowed.push((local, total, pos, client));
                    }
                }
            }
        }
    }
    let _ = std::panic::take_hook();
    assert!(swallowed.is_empty(), "swallowed panics: {swallowed:?}");
}

/// H9: a panic in the same tick in which the main future finishes Ok (spawned
/// task polled after the main future) is forwarded.
#[test]
fn panic_after_main_finished_same_tick() {
    std::panic::set_hook(Box::new(|_| {}));
    let mut swallowed = vec![];
    for local in [true, false] {
        for client in [true, false] {
            let r = catch_unwind(AssertUnwindSafe(|| {
                let mut sim = Builder::new().tick_duration(ms(10)).build();
                let sw = move || async move {
                    let f = async {
                        tokio::time::sleep(ms(3)).await;
                        panic!("audit panic");
                    };
                    if local {
                        tokio::task::spawn_local(f);
                    } else {
                        tokio::spawn(f);
                    }
                    tokio::time::sleep(ms(2)).await;
                    Ok(())
                };
                if client {
                    sim.client("x", sw());
                } else {
                    sim.host("x", sw);
                    sim.client("c", async {
                        tokio::time::sleep(ms(5)).await;
                        Ok(())
                    });
                }
                sim.run()
            }));
            if r.is_ok() {
                swallowed.push((local, client));
            }
        }
    }
    let _ = std::panic::take_hook();
    assert!(swallowed.is_empty(), "swallowed panics: {swallowed:?}");
}

/// H10: panic in a bounced host (fresh runtime) is forwarded.
#[test]
fn panic_after_bounce() {
    std::panic::set_hook(Box::new(|_| {}));
    let r = catch_unwind(AssertUnwindSafe(|| {
        let n = Rc::new(Cell::new(0u32));
        let mut sim = Builder::new().build();
        let nn = n.clone();
        sim.host("h", move || {
            let nn = nn.clone();
            async move {
                nn.set(nn.get() + 1);
                if nn.get() == 2 {
                    tokio::spawn(async {
                        tokio::time::sleep(ms(3)).await;
                        panic!("audit panic");
                    });
                }
                std::future::pending::<()>().await;
                Ok(())
            }
        });
        sim.client("c", async {
            tokio::time::sleep(ms(50)).await;
            Ok(())
        });
        for _ in 0..5 {
            sim.step().unwrap();
        }
        sim.crash("h");
        sim.step().unwrap();
        sim.bounce("h");
        sim.run()
    }));
    let _ = std::panic::take_hook();
    assert!(r.is_err(), "panic after bounce swallowed: {r:?}");
}

/// H11: host error in same step as all clients finishing -> Err regardless of
/// registration order; host error one step later -> Ok.
#[test]
fn host_error_vs_client_finish() {
    for host_first in [true, false] {
        for (herr, exp_ok) in [(13u64, false), (17, false), (23, true), (5, false)] {
            let mut sim = Builder::new().tick_duration(ms(10)).build();
            let h = move || async move {
                tokio::time::sleep(ms(herr)).await;
                Err("host err")?
            };
            if host_first {
                sim.host("h", h);
            }
            sim.client("c", async {
                tokio::time::sleep(ms(15)).await;
                Ok(())
            });
            if !host_first {
                sim.host("h", h);
            }
            assert_eq!(sim.run().is_ok(), exp_ok, "host_first {host_first} herr {herr}");
        }
    }
}

#[allow(dead_code)]
fn _t() -> Result {
    Ok(())
}
