//! Audit C11 / F1: after a client finished with Err, a later Sim::run returns
//! Ok and Sim::step reports Ok(true) ("all clients completed").
use std::time::Duration;

use turmoil::Builder;

/// run(): Ok must mean that every client completed with Ok.
#[test]
fn run_after_client_error_is_still_err() {
    let mut sim = Builder::new().build();
    sim.client("bad", async { Err("client failed")? });
    sim.client("good", async {
        tokio::time::sleep(Duration::from_millis(5)).await;
        Ok(())
    });

    assert!(sim.run().is_err(), "first run reports the client error");

    // `bad` completed with Err, so it is not true that every client completed
    // with Ok - and it never can be, a client cannot be restarted.
    let second = sim.run();
    assert!(
        second.is_err(),
        "second run returned {second:?} although client `bad` finished with Err"
    );
}

/// step(): Ok(true) must mean the same thing run()'s Ok means.
#[test]
fn step_after_client_error_is_not_ok_true() {
    let mut sim = Builder::new().build();
    sim.client("bad", async { Err("client failed")? });

    assert!(sim.step().is_err());

    let again = sim.step();
    assert!(
        !matches!(again, Ok(true)),
        "step returned {again:?} although the only client finished with Err"
    );
}

/// Same verdict when the failing client is registered last and another client
/// is still unfinished when the error is reported.
#[test]
fn run_after_late_client_error_is_still_err() {
    let mut sim = Builder::new()
        .tick_duration(Duration::from_millis(10))
        .build();
    sim.client("good", async {
        tokio::time::sleep(Duration::from_millis(55)).await;
        Ok(())
    });
    sim.client("bad", async {
        tokio::time::sleep(Duration::from_millis(25)).await;
        Err("client failed")?
    });

    assert!(sim.run().is_err());
    let second = sim.run();
    assert!(
        second.is_err(),
        "second run returned {second:?} although client `bad` finished with Err"
    );
}
