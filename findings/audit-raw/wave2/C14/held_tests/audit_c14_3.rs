//! Randomised harness: UDP latency window + ordering under equal latency.
use std::cell::RefCell;
use std::collections::HashMap;
use std::net::{IpAddr, Ipv4Addr};
use std::rc::Rc;
use std::time::Duration;

use rand::rngs::SmallRng;
use rand::{Rng, SeedableRng};
use turmoil::net::UdpSocket;
use turmoil::{Builder, Result};

#[derive(Clone, Copy, Debug)]
struct Cfg {
    min: Duration,
    max: Duration,
}

#[derive(Debug, Clone)]
struct Rec {
    src: usize,
    dst: usize,
    seq: u64,
    sent_at: Duration,
    recv_at: Duration,
    min: Duration,
    max: Duration,
}

type Table = Rc<RefCell<HashMap<(usize, usize), Cfg>>>;

fn key(a: usize, b: usize) -> (usize, usize) {
    if a < b {
        (a, b)
    } else {
        (b, a)
    }
}

fn run_case(seed: u64) -> std::result::Result<(), String> {
    let mut rng = SmallRng::seed_from_u64(seed);
    let tick_ms: u64 = *[1u64, 1, 2, 3, 5, 7, 10, 16, 25].get(rng.random_range(0..9)).unwrap();
    let tick = Duration::from_millis(tick_ms);
    let gmin = Duration::from_micros(rng.random_range(0..30_000));
    let gmax = gmin + Duration::from_micros(rng.random_range(0..60_000));
    let late_host = rng.random_bool(0.5);
    let late_step = rng.random_range(1..200usize);
    let nhosts = rng.random_range(2..=4usize);
    let random_order = rng.random_bool(0.5);
    let steps = 400usize;

    let mut b = Builder::new();
    b.tick_duration(tick)
        .min_message_latency(gmin)
        .max_message_latency(gmax)
        .udp_capacity(100_000)
        .simulation_duration(Duration::from_secs(100_000))
        .rng_seed(seed);
    if random_order {
        b.enable_random_order();
    }
    if rng.random_bool(0.5) {
        b.ip_version(turmoil::IpVersion::V6);
    }
    let mut sim = b.build();
    if rng.random_bool(0.5) {
        sim.set_message_latency_curve(*[0.1f64, 1.0, 5.0, 50.0].get(rng.random_range(0..4)).unwrap());
    }

    let table: Table = Rc::new(RefCell::new(HashMap::new()));
    for a in 0..nhosts {
        for b in a + 1..nhosts {
            table.borrow_mut().insert((a, b), Cfg { min: gmin, max: gmax });
        }
    }
    let overridden: Rc<RefCell<HashMap<(usize, usize), bool>>> = Rc::new(RefCell::new(HashMap::new()));
    let recs: Rc<RefCell<Vec<Rec>>> = Rc::new(RefCell::new(Vec::new()));
    let sent_count: Rc<RefCell<u64>> = Rc::new(RefCell::new(0));
    let stop: Rc<RefCell<bool>> = Rc::new(RefCell::new(false));

    let names: Vec<String> = (0..nhosts).map(|i| format!("h{i}")).collect();
    let registered: Rc<RefCell<usize>> = Rc::new(RefCell::new(0));

    let hseeds: Vec<u64> = (0..nhosts).map(|_| rng.random::<u64>()).collect();
    let register = |sim: &mut turmoil::Sim<'_>, me: usize| {
        let table = table.clone();
        let registered = registered.clone();
        let recs = recs.clone();
        let sent_count = sent_count.clone();
        let stop = stop.clone();
        let names2 = names.clone();
        let hseed = hseeds[me];
        sim.client(names[me].clone(), async move {
            let sock = Rc::new(UdpSocket::bind((if turmoil::lookup(names2[me].as_str()).is_ipv4() { IpAddr::V4(Ipv4Addr::UNSPECIFIED) } else { IpAddr::V6(std::net::Ipv6Addr::UNSPECIFIED) }, 9000)).await?);
            // receiver task
            let rsock = sock.clone();
            let recs2 = recs.clone();
            tokio::task::spawn_local(async move {
                let mut buf = [0u8; 64];
                loop {
                    let (n, _from) = rsock.recv_from(&mut buf).await.unwrap();
                    let now = turmoil::sim_elapsed().unwrap();
                    assert_eq!(n, 48);
                    let rd = |i: usize| u64::from_le_bytes(buf[i * 8..i * 8 + 8].try_into().unwrap());
                    recs2.borrow_mut().push(Rec {
                        src: rd(0) as usize,
                        dst: rd(1) as usize,
                        seq: rd(2),
                        sent_at: Duration::from_nanos(rd(3)),
                        recv_at: now,
                        min: Duration::from_nanos(rd(4)),
                        max: Duration::from_nanos(rd(5)),
                    });
                }
            });
            let mut hr = SmallRng::seed_from_u64(hseed);
            // let every host bind before anybody sends
            tokio::time::sleep(Duration::from_millis(tick_ms)).await;
            let mut seqs = vec![0u64; names2.len()];
            loop {
                if *stop.borrow() {
                    std::future::pending::<()>().await;
                }
                // sleep a random number of ms (send instants anywhere in a step)
                let s = hr.random_range(0..(3 * tick_ms + 1));
                if s > 0 {
                    tokio::time::sleep(Duration::from_millis(s)).await;
                }
                if *stop.borrow() {
                    std::future::pending::<()>().await;
                }
                let burst = if hr.random_bool(0.2) { hr.random_range(2..6) } else { 1 };
                for _ in 0..burst {
                    let n = *registered.borrow();
                    let mut dst = hr.random_range(0..n);
                    if dst == me {
                        dst = (dst + 1) % n;
                    }
                    let cfg = table.borrow()[&key(me, dst)];
                    let now = turmoil::sim_elapsed().unwrap();
                    let mut p = [0u8; 48];
                    let vals = [
                        me as u64,
                        dst as u64,
                        seqs[dst],
                        now.as_nanos() as u64,
                        cfg.min.as_nanos() as u64,
                        cfg.max.as_nanos() as u64,
                    ];
                    for (i, v) in vals.iter().enumerate() {
                        p[i * 8..i * 8 + 8].copy_from_slice(&v.to_le_bytes());
                    }
                    seqs[dst] += 1;
                    sock.send_to(&p, (names2[dst].as_str(), 9000)).await?;
                    *sent_count.borrow_mut() += 1;
                }
            }
            #[allow(unreachable_code)]
            Ok(())
        });
    };
    let initial = if late_host && nhosts > 2 { nhosts - 1 } else { nhosts };
    for me in 0..initial {
        register(&mut sim, me);
    }
    *registered.borrow_mut() = initial;


    let mode = rng.random_range(0..3); // 0: by name, 1: by ip, 2: regex
    for step in 0..steps {
        if step == late_step && initial < nhosts {
            register(&mut sim, nhosts - 1);
            // give it one step to bind before anybody targets it
            sim.step().map_err(|e| format!("seed {seed}: step error {e}"))?;
            sim.step().map_err(|e| format!("seed {seed}: step error {e}"))?;
            *registered.borrow_mut() = nhosts;
        }
        let nhosts = *registered.borrow();
        // maybe override a link (before the run at step 0 or mid-run)
        if rng.random_bool(if step == 0 { 0.7 } else { 0.03 }) {
            let a = rng.random_range(0..nhosts);
            let mut bb = rng.random_range(0..nhosts);
            if a == bb {
                bb = (bb + 1) % nhosts;
            }
            let k = key(a, bb);
            let cur = table.borrow()[&k];
            if rng.random_bool(0.6) {
                let v = Duration::from_micros(rng.random_range(0..50_000));
                match mode {
                    0 => sim.set_link_latency(names[a].as_str(), names[bb].as_str(), v),
                    1 => {
                        let ia = sim.lookup(names[a].as_str());
                        let ib = sim.lookup(names[bb].as_str());
                        sim.set_link_latency(ia, ib, v)
                    }
                    _ => sim.set_link_latency(
                        regex::Regex::new(&format!("^{}$", names[a])).unwrap(),
                        regex::Regex::new(&format!("^{}$", names[bb])).unwrap(),
                        v,
                    ),
                }
                table.borrow_mut().insert(k, Cfg { min: v, max: v });
            } else {
                // max override, keep >= current min
                let v = cur.min + Duration::from_micros(rng.random_range(0..50_000));
                match mode {
                    0 => sim.set_link_max_message_latency(names[a].as_str(), names[bb].as_str(), v),
                    1 => {
                        let ia = sim.lookup(names[a].as_str());
                        let ib = sim.lookup(names[bb].as_str());
                        sim.set_link_max_message_latency(ia, ib, v)
                    }
                    _ => sim.set_link_max_message_latency(
                        regex::Regex::new(&format!("^{}$", names[a])).unwrap(),
                        regex::Regex::new(&format!("^{}$", names[bb])).unwrap(),
                        v,
                    ),
                }
                table.borrow_mut().insert(k, Cfg { min: cur.min, max: v });
            }
            overridden.borrow_mut().insert(k, true);
        }
        // maybe change the global max mid-run (only affects non-overridden links)
        if step > 0 && rng.random_bool(0.01) {
            let v = gmin + Duration::from_micros(rng.random_range(0..80_000));
            sim.set_max_message_latency(v);
            let mut t = table.borrow_mut();
            for (k, c) in t.iter_mut() {
                if !overridden.borrow().contains_key(k) {
                    c.max = v;
                }
            }
        }
        sim.step().map_err(|e| format!("seed {seed}: step error {e}"))?;
    }
    *stop.borrow_mut() = true;
    // drain: run long enough for every in-flight message
    for _ in 0..(400 / tick_ms as usize + 10) {
        sim.step().map_err(|e| format!("seed {seed}: step error {e}"))?;
    }

    let recs = recs.borrow();
    let sent = *sent_count.borrow();
    if recs.len() as u64 != sent {
        let mut seen: HashMap<(usize, usize), Vec<u64>> = HashMap::new();
        for r in recs.iter() { seen.entry((r.src, r.dst)).or_default().push(r.seq); }
        for (k, v) in seen.iter_mut() { v.sort(); for (i, s) in v.iter().enumerate() { if i as u64 != *s { eprintln!("seed {seed}: pair {k:?} first gap at {i}; neighbours: {:?}", recs.iter().filter(|r| (r.src,r.dst)==*k && (r.seq+1==i as u64 || r.seq==i as u64+1)).collect::<Vec<_>>()); break; } } }
        eprintln!("seed {seed}: nhosts {nhosts} gmin {gmin:?} gmax {gmax:?} mode {mode}");
        return Err(format!(
            "seed {seed}: sent {sent} received {} (tick {tick_ms}ms)",
            recs.len()
        ));
    }
    // window
    for r in recs.iter() {
        let d = r.recv_at.as_nanos() as i128 - r.sent_at.as_nanos() as i128;
        let lo = r.min.as_nanos() as i128 - tick.as_nanos() as i128;
        let hi = r.max.as_nanos() as i128 + tick.as_nanos() as i128;
        if d < lo || d > hi {
            return Err(format!(
                "seed {seed}: tick {tick_ms}ms random_order {random_order} window violated: delay {d}ns not in [{lo},{hi}] {r:?}"
            ));
        }
    }
    // order under equal fixed latency: recs are pushed in receive order
    let mut last: HashMap<(usize, usize), (u64, Duration)> = HashMap::new();
    for r in recs.iter() {
        if r.min == r.max {
            if let Some((pseq, plat)) = last.get(&(r.src, r.dst)) {
                if *plat == r.min && *pseq > r.seq {
                    return Err(format!(
                        "seed {seed}: order violated: seq {} after {} {r:?}",
                        r.seq, pseq
                    ));
                }
            }
            last.insert((r.src, r.dst), (r.seq, r.min));
        } else {
            last.remove(&(r.src, r.dst));
        }
    }
    Ok(())
}

#[test]
fn udp_window_variants_random() -> Result {
    let mut failures = vec![];
    for seed in 0..600u64 {
        if let Err(e) = run_case(seed) {
            failures.push(e);
        }
    }
    for f in failures.iter().take(20) {
        eprintln!("{f}");
    }
    assert!(failures.is_empty(), "{} failing seeds", failures.len());
    Ok(())
}
