//! Audit C14: deterministic edge cases that held.
use std::cell::RefCell;
use std::net::{IpAddr, Ipv4Addr};
use std::rc::Rc;
use std::time::Duration;

use turmoil::net::UdpSocket;
use turmoil::{Builder, Sim};

type Log = Rc<RefCell<Vec<(String, String, u64, Duration, Duration)>>>;

/// Every host binds :9000, records (src, dst, seq, sent, received) for each
/// datagram, and sends `n` datagrams to each name in `peers` one per
/// `gap` ms (gap 0 = one burst).
fn add_host(sim: &mut Sim<'_>, name: &str, peers: Vec<String>, n: u64, gap: u64, log: Log) {
    let me = name.to_string();
    sim.client(name, async move {
        let sock = Rc::new(UdpSocket::bind((IpAddr::V4(Ipv4Addr::UNSPECIFIED), 9000)).await?);
        let rs = sock.clone();
        let me2 = me.clone();
        tokio::task::spawn_local(async move {
            let mut buf = [0u8; 64];
            loop {
                let (len, _) = rs.recv_from(&mut buf).await.unwrap();
                let now = turmoil::sim_elapsed().unwrap();
                let seq = u64::from_le_bytes(buf[0..8].try_into().unwrap());
                let sent = Duration::from_nanos(u64::from_le_bytes(buf[8..16].try_into().unwrap()));
                let src = String::from_utf8(buf[16..len].to_vec()).unwrap();
                log.borrow_mut().push((src, me2.clone(), seq, sent, now));
            }
        });
        tokio::time::sleep(Duration::from_millis(50)).await;
        for seq in 0..n {
            for p in &peers {
                let now = turmoil::sim_elapsed().unwrap();
                let mut v = Vec::new();
                v.extend_from_slice(&seq.to_le_bytes());
                v.extend_from_slice(&(now.as_nanos() as u64).to_le_bytes());
                v.extend_from_slice(me.as_bytes());
                sock.send_to(&v, (p.as_str(), 9000)).await?;
            }
            if gap > 0 {
                tokio::time::sleep(Duration::from_millis(gap)).await;
            }
        }
        std::future::pending::<()>().await;
        Ok(())
    });
}

fn check(log: &Log, src: &str, dst: &str, n: u64, min: Duration, max: Duration, tick: Duration) {
    let l = log.borrow();
    let v: Vec<_> = l.iter().filter(|r| r.0 == src && r.1 == dst).collect();
    assert_eq!(v.len() as u64, n, "{src}->{dst}: delivered {} of {n}", v.len());
    for r in &v {
        let d = r.4.as_nanos() as i128 - r.3.as_nanos() as i128;
        assert!(
            d >= min.as_nanos() as i128 - tick.as_nanos() as i128
                && d <= max.as_nanos() as i128 + tick.as_nanos() as i128,
            "{src}->{dst} seq {} delay {d}ns outside [{min:?}-{tick:?}, {max:?}+{tick:?}]",
            r.2
        );
    }
    if min == max {
        for w in v.windows(2) {
            assert!(w[0].2 < w[1].2, "{src}->{dst}: {} before {}", w[0].2, w[1].2);
        }
    }
}

/// Extreme parameters of the exponential distribution keep the window.
#[test]
fn curve_extremes() {
    for lambda in [0.0f64, 1e-300, 1e-9, 1e9, 1e300, f64::INFINITY] {
        for (min, max) in [(0u64, 0u64), (0, 100), (7, 7), (3, 40)] {
            let tick = Duration::from_millis(3);
            let (min, max) = (Duration::from_millis(min), Duration::from_millis(max));
            let mut sim = Builder::new()
                .tick_duration(tick)
                .min_message_latency(min)
                .max_message_latency(max)
                .udp_capacity(10_000)
                .rng_seed(7)
                .build();
            sim.set_message_latency_curve(lambda);
            let log: Log = Default::default();
            add_host(&mut sim, "a", vec!["b".into()], 100, 1, log.clone());
            add_host(&mut sim, "b", vec!["a".into()], 100, 1, log.clone());
            for _ in 0..200 {
                sim.step().unwrap();
            }
            check(&log, "a", "b", 100, min, max, tick);
            check(&log, "b", "a", 100, min, max, tick);
        }
    }
}

/// A regex pair overrides exactly the links between the two sets, in both
/// directions, and leaves the links inside a set on the global window.
#[test]
fn regex_sets() {
    let tick = Duration::from_millis(2);
    let g = Duration::from_millis(4);
    let o = Duration::from_millis(9);
    let mut sim = Builder::new()
        .tick_duration(tick)
        .min_message_latency(g)
        .max_message_latency(g)
        .udp_capacity(10_000)
        .enable_random_order()
        .rng_seed(3)
        .build();
    let names = ["web-0", "web-1", "db-0", "db-1"];
    let log: Log = Default::default();
    for n in names {
        let peers = names.iter().filter(|p| **p != n).map(|p| p.to_string()).collect();
        add_host(&mut sim, n, peers, 60, 1, log.clone());
    }
    sim.set_link_latency(
        regex::Regex::new("^web-").unwrap(),
        regex::Regex::new("^db-").unwrap(),
        o,
    );
    for _ in 0..120 {
        sim.step().unwrap();
    }
    for a in names {
        for b in names {
            if a == b {
                continue;
            }
            let cross = a.starts_with("web") != b.starts_with("web");
            let l = if cross { o } else { g };
            check(&log, a, b, 60, l, l, tick);
        }
    }
}

/// A burst of equal-latency datagrams inside one step, with a tick that does
/// not divide the latency, arrives complete and in order; an override made
/// between two bursts applies to the second burst only.
#[test]
fn burst_and_midrun_override() {
    let tick = Duration::from_millis(7);
    let mut sim = Builder::new()
        .tick_duration(tick)
        .min_message_latency(Duration::from_millis(10))
        .max_message_latency(Duration::from_millis(10))
        .udp_capacity(10_000)
        .rng_seed(3)
        .build();
    let log: Log = Default::default();
    add_host(&mut sim, "a", vec!["b".into()], 50, 0, log.clone());
    add_host(&mut sim, "b", vec![], 0, 0, log.clone());
    for _ in 0..20 {
        sim.step().unwrap();
    }
    check(&log, "a", "b", 50, Duration::from_millis(10), Duration::from_millis(10), tick);
    log.borrow_mut().clear();

    sim.set_link_latency("a", "b", Duration::from_millis(33));
    add_host(&mut sim, "c", vec!["b".into()], 50, 0, log.clone());
    add_host(&mut sim, "d", vec!["a".into()], 50, 0, log.clone());
    sim.set_link_latency(sim.lookup("d"), sim.lookup("a"), Duration::from_millis(1));
    for _ in 0..20 {
        sim.step().unwrap();
    }
    // c<->b stays global, d<->a overridden by IP
    check(&log, "c", "b", 50, Duration::from_millis(10), Duration::from_millis(10), tick);
    check(&log, "d", "a", 50, Duration::from_millis(1), Duration::from_millis(1), tick);
}
