#![cfg(all(feature = "unstable-fs", feature = "unstable-io_uring"))]
//! Hypotheses of audit C10 that held on the unmodified tree.
use std::io::{Read, Seek, SeekFrom, Write};
use std::os::fd::AsRawFd;
use std::os::unix::fs::FileExt;
use std::time::Duration;
use turmoil::fs::shim::std::fs as sfs;
use turmoil::fs::shim::tokio::fs as tfs;
use turmoil::io_uring::{opcode, types, AsyncFd, IoUring};
use turmoil::{Builder, Result};

async fn ring_rw(
    ring: &mut AsyncFd<IoUring>,
    entry: turmoil::io_uring::squeue::Entry,
) -> std::io::Result<i32> {
    unsafe { ring.get_mut().submission().push(&entry).unwrap() };
    ring.get_ref().submit()?;
    loop {
        let _ = ring.readable().await?;
        let mut cq = ring.get_mut().completion();
        cq.sync();
        if let Some(c) = cq.next() {
            return Ok(c.result());
        }
    }
}

/// std, tokio and io_uring on the same file: every front-end sees the others' writes,
/// holes read as zeros, overlaps take the later write, reads are cut at EOF.
#[test]
fn three_front_ends_one_file() -> Result {
    let mut b = Builder::new();
    b.fs().io_latency().min_latency(Duration::from_millis(1)).max_latency(Duration::from_millis(3));
    b.fs().page_cache().max_pages(2);
    let mut sim = b.build();
    sim.client("c", async move {
        sfs::create_dir_all("/d/e")?;
        let f = sfs::OpenOptions::new().read(true).write(true).create(true).open("/d/e/f")?;
        let fd = types::Fd(f.as_raw_fd());
        let mut ring = AsyncFd::new(IoUring::new(8)?)?;

        // std: bytes 0..3, ring: bytes 6..9 (hole 3..6), tokio handle: overlap 2..7
        f.write_all_at(b"abc", 0)?;
        let p = b"xyz".to_vec();
        let n = ring_rw(&mut ring, opcode::Write::new(fd, p.as_ptr(), 3).offset(6).build().user_data(1)).await?;
        assert_eq!(n, 3);
        assert_eq!(sfs::read("/d/e/f")?, b"abc\0\0\0xyz");
        let t = tfs::OpenOptions::new().read(true).write(true).open("/d/e/f").await?;
        t.write_at(b"MNOPQ", 2).await?;
        assert_eq!(tfs::read("/d/e/f").await?, b"abMNOPQyz");
        f.sync_data()?;
        tokio::time::sleep(Duration::from_secs(5)).await;
        assert_eq!(tfs::read("/d/e/f").await?, b"abMNOPQyz");

        // ring read spanning EOF, and past EOF
        let mut buf = vec![0xAAu8; 8];
        let n = ring_rw(&mut ring, opcode::Read::new(fd, buf.as_mut_ptr(), 8).offset(5).build().user_data(2)).await?;
        assert_eq!(n, 4);
        assert_eq!(&buf[..4], b"PQyz");
        let n = ring_rw(&mut ring, opcode::Read::new(fd, buf.as_mut_ptr(), 8).offset(9).build().user_data(3)).await?;
        assert_eq!(n, 0);
        let n = ring_rw(&mut ring, opcode::Read::new(fd, buf.as_mut_ptr(), 8).offset(100).build().user_data(3)).await?;
        assert_eq!(n, 0);

        // shrink through tokio, extend through std, fsync through the ring
        t.set_len(4).await?;
        assert_eq!(f.metadata()?.len(), 4);
        f.set_len(7)?;
        let n = ring_rw(&mut ring, opcode::Fsync::new(fd).build().user_data(4)).await?;
        assert_eq!(n, 0);
        sfs::sync_dir("/d/e")?;
        sfs::sync_dir("/d")?;
        sfs::sync_dir("/")?;
        let mut buf = vec![0xAAu8; 16];
        let n = ring_rw(&mut ring, opcode::Read::new(fd, buf.as_mut_ptr(), 16).offset(0).build().user_data(5)).await?;
        assert_eq!(n, 7);
        assert_eq!(&buf[..7], b"abMN\0\0\0");
        assert_eq!(tfs::metadata("/d/e/f").await?.len(), 7);
        let mut names: Vec<_> = tfs::read_dir("/d/e").await?.map(|e| e.unwrap().file_name()).collect();
        names.sort();
        assert_eq!(names, vec![std::ffi::OsString::from("f")]);
        Ok(())
    });
    sim.run()
}

/// Two hosts, identical path names, interleaved in time: neither sees the other.
#[test]
fn two_hosts_identical_paths() -> Result {
    let mut sim = Builder::new().build();
    for (name, tag) in [("h1", b'1'), ("h2", b'2')] {
        sim.client(name, async move {
            for round in 0..20u8 {
                if round == 0 {
                    assert!(!sfs::exists("/d"), "{name}: fresh tree");
                    sfs::create_dir("/d")?;
                }
                let mut f = sfs::OpenOptions::new().append(true).create(true).open("/d/f")?;
                f.write_all(&[tag])?;
                if round % 3 == 0 {
                    f.sync_all()?;
                    sfs::sync_dir("/d")?;
                }
                tokio::time::sleep(Duration::from_millis(7)).await;
                let got = tfs::read("/d/f").await?;
                assert_eq!(got, vec![tag; round as usize + 1], "{name} round {round}");
                if round == 10 && tag == b'1' {
                    // only h1 renames and removes
                    sfs::rename("/d/f", "/d/g")?;
                    sfs::rename("/d/g", "/d/f")?;
                }
            }
            if tag == b'2' {
                sfs::remove_dir_all("/d")?;
                assert!(!sfs::exists("/d"));
            } else {
                tokio::time::sleep(Duration::from_millis(500)).await;
                assert_eq!(sfs::metadata("/d/f")?.len(), 20);
            }
            Ok(())
        });
    }
    sim.run()
}

/// Cursor semantics: read / write / seek, append always at EOF, holes by seeking past EOF.
#[test]
fn cursor_semantics() -> Result {
    let mut sim = Builder::new().build();
    sim.client("c", async move {
        let mut f = sfs::OpenOptions::new().read(true).write(true).create_new(true).open("/f")?;
        assert_eq!(f.write(b"hello")?, 5);
        assert_eq!(f.stream_position()?, 5);
        assert_eq!(f.seek(SeekFrom::End(3))?, 8);
        f.write_all(b"!")?;
        assert_eq!(f.seek(SeekFrom::Current(-9))?, 0);
        let mut s = Vec::new();
        f.read_to_end(&mut s)?;
        assert_eq!(s, b"hello\0\0\0!");
        assert!(f.seek(SeekFrom::Current(-10)).is_err());
        assert_eq!(f.stream_position()?, 9);
        let mut a = sfs::OpenOptions::new().read(true).append(true).open("/f")?;
        a.seek(SeekFrom::Start(1))?;
        let mut one = [0u8; 1];
        a.read_exact(&mut one)?;
        assert_eq!(&one, b"e");
        a.write_all(b"AP")?;
        assert_eq!(a.stream_position()?, 11);
        f.set_len(3)?;
        assert_eq!(a.read(&mut one)?, 0);
        a.write_all(b"Z")?;
        assert_eq!(sfs::read("/f")?, b"helZ");
        // write_at / read_at do not move the cursor
        f.seek(SeekFrom::Start(2))?;
        f.write_all_at(b"Q", 0)?;
        assert_eq!(f.stream_position()?, 2);
        // create_new on an existing file, open of a missing file
        assert_eq!(
            sfs::OpenOptions::new().write(true).create_new(true).open("/f").unwrap_err().kind(),
            std::io::ErrorKind::AlreadyExists
        );
        assert_eq!(sfs::File::open("/nope").unwrap_err().kind(), std::io::ErrorKind::NotFound);
        assert_eq!(sfs::File::create("/nodir/f").unwrap_err().kind(), std::io::ErrorKind::NotFound);
        Ok(())
    });
    sim.run()
}
