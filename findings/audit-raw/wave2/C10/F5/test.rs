//! Audit C10 / F5: File::try_clone returns a handle with its OWN cursor that
//! starts at 0; std / POSIX dup() share one file offset between both handles.
//!
//! Destination: crates/turmoil/tests/audit_c10_f5.rs
//! Run: CARGO_TARGET_DIR=/tmp/wt6/C10/target cargo test --offline -p turmoil \
//!        --features unstable-fs --test audit_c10_f5
#![cfg(feature = "unstable-fs")]
use std::io::{Read, Seek, SeekFrom, Write};
use turmoil::fs::shim::std::fs::*;
use turmoil::{Builder, Result};

fn run(f: impl FnOnce() -> std::io::Result<()> + 'static) -> Result {
    let mut sim = Builder::new().build();
    sim.client("t", async move {
        f()?;
        Ok(())
    });
    sim.run()
}

/// The classic use: clone a log file handle and keep writing through both.
#[test]
fn writes_through_a_clone_continue_where_the_original_is() -> Result {
    run(|| {
        let mut f = OpenOptions::new().read(true).write(true).create(true).open("/log")?;
        f.write_all(b"abcdef")?;
        let mut g = f.try_clone()?;
        g.write_all(b"XY")?;
        assert_eq!(read("/log")?, b"abcdefXY", "the clone overwrote the head of the file");
        Ok(())
    })
}

#[test]
fn seek_through_a_clone_moves_the_original() -> Result {
    run(|| {
        write("/f", b"0123456789")?;
        let mut f = File::open("/f")?;
        let mut g = f.try_clone()?;
        g.seek(SeekFrom::Start(7))?;
        let mut s = String::new();
        f.read_to_string(&mut s)?;
        assert_eq!(s, "789");
        Ok(())
    })
}
