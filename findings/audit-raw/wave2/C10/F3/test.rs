//! Audit C10 / F3: OpenOptions::open with create / create_new on the name of an
//! existing DIRECTORY succeeds and creates a regular file of the same name.
//!
//! Destination: crates/turmoil/tests/audit_c10_f3.rs
//! Run: CARGO_TARGET_DIR=/tmp/wt6/C10/target cargo test --offline -p turmoil \
//!        --features unstable-fs --test audit_c10_f3
#![cfg(feature = "unstable-fs")]
use std::io::ErrorKind;
use turmoil::fs::shim::std::fs::*;
use turmoil::{Builder, Result};

fn run(f: impl FnOnce() -> std::io::Result<()> + 'static) -> Result {
    let mut sim = Builder::new().build();
    sim.client("t", async move {
        f()?;
        Ok(())
    });
    sim.run()
}

#[test]
fn create_on_directory() -> Result {
    run(|| {
        create_dir("/d")?;
        write("/d/child", b"x")?;
        let r = OpenOptions::new().write(true).create(true).open("/d");
        assert!(r.is_err(), "open(write, create) on a directory must fail (EISDIR)");
        assert_eq!(r.unwrap_err().kind(), ErrorKind::IsADirectory);
        Ok(())
    })
}

#[test]
fn file_create_on_directory_keeps_the_directory() -> Result {
    run(|| {
        create_dir("/d")?;
        write("/d/child", b"x")?;
        let _ = File::create("/d");
        let m = metadata("/d")?;
        assert!(m.is_dir(), "/d is still a directory (is_file={})", m.is_file());
        Ok(())
    })
}

#[test]
fn create_new_on_directory() -> Result {
    run(|| {
        create_dir("/d")?;
        let r = OpenOptions::new().write(true).create_new(true).open("/d");
        assert!(r.is_err(), "open(create_new) on a directory must fail (EEXIST)");
        assert_eq!(r.unwrap_err().kind(), ErrorKind::AlreadyExists);
        Ok(())
    })
}

#[test]
fn tokio_write_on_directory() -> Result {
    use turmoil::fs::shim::tokio::fs as tfs;
    let mut sim = Builder::new().build();
    sim.client("t", async move {
        tfs::create_dir("/d").await?;
        assert!(tfs::write("/d", b"oops").await.is_err(), "write() onto a directory");
        assert!(tfs::metadata("/d").await?.is_dir());
        Ok(())
    });
    sim.run()
}
