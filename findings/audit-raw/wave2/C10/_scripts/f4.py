p='crates/turmoil-fs/src/shim/std/fs/mod.rs'
s=open(p).read()
old='''            // Skip if it already exists (as file or dir)
            if ctx.fs.dir_exists(&dir) || ctx.fs.file_exists(&dir) {
                continue;
            }'''
new='''            // Skip if it already exists as a directory; a file of that
            // name makes `mkdir` fail with "File exists", as it does in std.
            if ctx.fs.dir_exists(&dir) {
                continue;
            }'''
assert old in s
s=s.replace(old,new)
old='''            if ctx.fs.dir_exists(&dir) || ctx.fs.file_exists(&dir) {
                continue;
            }
            ctx.fs
                .mkdir_with_mode(&dir, ctx.now, mode)'''
new='''            if ctx.fs.dir_exists(&dir) {
                continue;
            }
            ctx.fs
                .mkdir_with_mode(&dir, ctx.now, mode)'''
assert old in s
s=s.replace(old,new)
open(p,'w').write(s)
