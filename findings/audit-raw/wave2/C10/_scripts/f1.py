p='crates/turmoil-fs/src/shim/std/fs/mod.rs'
s=open(p).read()
lines=s.split('\n')
for i in [129,158,167,235,257,661,683,854,1393,1406,1507,1558,1589,1746,1760,1763]:
    assert 'Error::other' in lines[i-1], i
    lines[i-1]=lines[i-1].replace('Error::other','fs_error')
s='\n'.join(lines)
s=s.replace('''const O_DIRECT: i32 = 0x4000;
''','''const O_DIRECT: i32 = 0x4000;

/// Turn the errno-style message of an [`crate::Fs`] operation into an
/// [`Error`] of the kind `std::fs` reports for that errno.
fn fs_error(msg: &'static str) -> Error {
    let kind = match msg {
        "No such file or directory" => ErrorKind::NotFound,
        "File exists" => ErrorKind::AlreadyExists,
        "Directory not empty" => ErrorKind::DirectoryNotEmpty,
        "Is a directory" => ErrorKind::IsADirectory,
        "Not a directory" => ErrorKind::NotADirectory,
        "No space left on device" => ErrorKind::StorageFull,
        _ => ErrorKind::Other,
    };
    Error::new(kind, msg)
}
''',1)
old='''        ctx.fs
            .unlink(&path)
            .map_err(|e| Error::new(ErrorKind::NotFound, e))'''
new='''        ctx.fs.unlink(&path).map_err(fs_error)'''
assert old in s
s=s.replace(old,new)
old='''        if !ctx.fs.dir_exists(&path) {
            return Err(Error::new(ErrorKind::NotFound, "directory not found"));
        }

        let entries = ctx.fs.dir_entries(&path);'''
new='''        if !ctx.fs.dir_exists(&path) {
            if ctx.fs.file_exists(&path) {
                return Err(Error::new(ErrorKind::NotADirectory, "not a directory"));
            }
            return Err(Error::new(ErrorKind::NotFound, "directory not found"));
        }

        let entries = ctx.fs.dir_entries(&path);'''
assert old in s
s=s.replace(old,new)
open(p,'w').write(s)
p='crates/turmoil-fs/src/lib.rs'
s=open(p).read()
old='''    pub(crate) fn rmdir(&mut self, path: &Path) -> Result<(), &'static str> {
        if !self.dir_exists(path) {
            return Err("No such file or directory");
        }
'''
new='''    pub(crate) fn rmdir(&mut self, path: &Path) -> Result<(), &'static str> {
        if !self.dir_exists(path) {
            if self.file_exists(path) || self.symlink_exists(path) {
                return Err("Not a directory");
            }
            return Err("No such file or directory");
        }
'''
assert old in s
s=s.replace(old,new)
old='''        if !self.file_exists(path) && !self.symlink_exists(path) {
            return Err("No such file or directory");
        }

        // Invalidate page cache for deleted file'''
new='''        if !self.file_exists(path) && !self.symlink_exists(path) {
            if self.dir_exists(path) {
                return Err("Is a directory");
            }
            return Err("No such file or directory");
        }

        // Invalidate page cache for deleted file'''
assert old in s
s=s.replace(old,new)
open(p,'w').write(s)
