p='crates/turmoil-fs/src/shim/std/fs/mod.rs'
s=open(p).read()
old='''    /// Current cursor position for read()/write()
    cursor: std::sync::Mutex<u64>,'''
new='''    /// Current cursor position for read()/write(). Shared with the handles
    /// made by `try_clone` (one open file description, as with `dup`).
    cursor: std::sync::Arc<std::sync::Mutex<u64>>,'''
assert old in s
s=s.replace(old,new)
old='''    /// The returned `File` is a reference to the same state that this object
    /// references. Both handles will read and write at independent cursors.'''
new='''    /// The returned `File` is a reference to the same state that this object
    /// references: reads, writes and seeks through either handle move the
    /// cursor of both, as with `std::fs::File::try_clone`.'''
assert old in s
s=s.replace(old,new)
old='''                direct_io: self.direct_io,
                cursor: std::sync::Mutex::new(0),'''
new='''                direct_io: self.direct_io,
                cursor: std::sync::Arc::clone(&self.cursor),'''
assert old in s
s=s.replace(old,new)
old='''            direct_io,
            cursor: std::sync::Mutex::new(0),'''
new='''            direct_io,
            cursor: std::sync::Arc::new(std::sync::Mutex::new(0)),'''
assert old in s
s=s.replace(old,new)
open(p,'w').write(s)
