p='crates/turmoil-fs/src/shim/std/fs/mod.rs'
s=open(p).read()
old='''            // Check capacity
            let current_len = ctx.fs.file_len(&path);
            let write_end = offset + buf.len() as u64;'''
new='''            // Check capacity
            let current_len = ctx.fs.file_len(&path);
            // A range that runs past the end of the offset space is rejected
            // the way the kernel rejects an invalid offset (EINVAL).
            let Some(write_end) = offset.checked_add(buf.len() as u64) else {
                return Err(Error::new(
                    ErrorKind::InvalidInput,
                    "offset + length overflows the file offset range",
                ));
            };'''
assert old in s
s=s.replace(old,new)
old='''        let new_pos = match pos {
            std::io::SeekFrom::Start(offset) => offset as i64,
            std::io::SeekFrom::End(offset) => {
                file_len.ok_or_else(|| Error::new(ErrorKind::NotFound, "file not found"))? as i64
                    + offset
            }
            std::io::SeekFrom::Current(offset) => *cursor as i64 + offset,
        };

        if new_pos < 0 {'''
new='''        let new_pos = match pos {
            std::io::SeekFrom::Start(offset) => Some(offset as i64),
            std::io::SeekFrom::End(offset) => {
                (file_len.ok_or_else(|| Error::new(ErrorKind::NotFound, "file not found"))? as i64)
                    .checked_add(offset)
            }
            std::io::SeekFrom::Current(offset) => (*cursor as i64).checked_add(offset),
        };
        // An overflowing target is as invalid as a negative one (EINVAL / EOVERFLOW).
        let new_pos = new_pos.unwrap_or(-1);

        if new_pos < 0 {'''
assert old in s
s=s.replace(old,new)
open(p,'w').write(s)
