p='crates/turmoil-fs/src/lib.rs'
s=open(p).read()
start=s.index('    /// Check if a file exists (persisted or pending creation).')
end=s.index('    /// Get current file length (persisted + pending).')
new='''    /// What `path` names after the first `upto` pending ops have been
    /// replayed over the persisted image: a file, a directory, a symlink,
    /// or nothing. A rename carries the kind of its source (as it was when
    /// the rename was issued) over to the destination, whether or not the
    /// source has reached the persisted image yet.
    fn entry_kind(&self, path: &Path, upto: usize) -> Option<EntryKind> {
        let mut kind = if self.persisted_files.contains_key(path) {
            Some(EntryKind::File)
        } else if self.persisted_dirs.contains_key(path) {
            Some(EntryKind::Dir)
        } else if self.persisted_symlinks.contains_key(path) {
            Some(EntryKind::Symlink)
        } else {
            None
        };
        for (i, op) in self.pending[..upto].iter().enumerate() {
            match op {
                PendingOp::CreateFile { path: p, .. } | PendingOp::CreateHardLink { path: p, .. }
                    if p == path =>
                {
                    kind = Some(EntryKind::File)
                }
                PendingOp::CreateDir { path: p, .. } if p == path => kind = Some(EntryKind::Dir),
                PendingOp::CreateSymlink { path: p, .. } if p == path => {
                    kind = Some(EntryKind::Symlink)
                }
                PendingOp::RemoveFile { path: p } if p == path && kind != Some(EntryKind::Dir) => {
                    kind = None
                }
                PendingOp::RemoveDir { path: p } if p == path && kind == Some(EntryKind::Dir) => {
                    kind = None
                }
                PendingOp::Rename { from, to: _ } if from == path => kind = None,
                PendingOp::Rename { from, to } if to == path => kind = self.entry_kind(from, i),
                _ => {}
            }
        }
        kind
    }

    /// Check if a file exists (persisted or pending creation).
    pub(crate) fn file_exists(&self, path: &Path) -> bool {
        self.entry_kind(path, self.pending.len()) == Some(EntryKind::File)
    }

    /// Check if a directory exists (persisted or pending creation).
    pub(crate) fn dir_exists(&self, path: &Path) -> bool {
        self.entry_kind(path, self.pending.len()) == Some(EntryKind::Dir)
    }

    /// Check if a symlink exists (persisted or pending creation).
    pub(crate) fn symlink_exists(&self, path: &Path) -> bool {
        self.entry_kind(path, self.pending.len()) == Some(EntryKind::Symlink)
    }

'''
s=s[:start]+new+s[end:]
s=s.replace('''/// Stored file data including content and timestamps.
///
/// Timestamps use''','''/// What a path names (see [`Fs::entry_kind`]).
#[derive(Debug, Clone, Copy, PartialEq, Eq)]
enum EntryKind {
    File,
    Dir,
    Symlink,
}

/// Stored file data including content and timestamps.
///
/// Timestamps use''')
open(p,'w').write(s)
