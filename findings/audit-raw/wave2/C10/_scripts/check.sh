#!/bin/bash
# usage: check.sh <n>   applies repair n on a clean tree, runs the checks, saves the diff, reverts
set -u
n=$1
cd /tmp/wt6/C10
git checkout crates/turmoil-fs crates/turmoil-io-uring crates/turmoil/src 2>/dev/null
python3 out/_scripts/f$n.py || { echo "script failed"; exit 1; }
git diff crates/turmoil-fs crates/turmoil-io-uring crates/turmoil/src > out/F$n/repair.diff
export CARGO_TARGET_DIR=/tmp/wt6/C10/target RUST_BACKTRACE=0
echo "== audit test F$n under repair"
cargo test --offline --no-fail-fast -p turmoil --features unstable-fs,unstable-io_uring --test audit_c10_f$n 2>&1 | grep "^test \|test result\|^error" | tee out/F$n/_audit_under_repair.log
echo "== gated fs suite under repair"
cargo test --offline --no-fail-fast -p turmoil --features unstable-fs,unstable-io_uring --test fs --test io_uring_conformance 2>&1 | grep "test result\|FAILED\|^error" | tee out/F$n/_gated_under_repair.log
echo "== pinned workspace suite under repair"
cargo test --workspace --no-fail-fast --offline > out/F$n/_suite_under_repair.log 2>&1
grep "test result" out/F$n/_suite_under_repair.log | awk '{p+=$4; f+=$6} END {print "passed", p, "failed", f}'
grep -c "test result: FAILED" out/F$n/_suite_under_repair.log
git checkout crates/turmoil-fs crates/turmoil-io-uring crates/turmoil/src
