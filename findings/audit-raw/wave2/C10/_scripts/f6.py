p='crates/turmoil-fs/src/lib.rs'
s=open(p).read()
old='''        for op in &self.pending {
            match op {
                PendingOp::Write {
                    path: p,
                    offset,
                    data,
                    ..
                }
                    // Check if this write applies to the content path
                    if (p == &content_path || self.path_renamed_to(p, &content_path)) => {
                        let end = offset + data.len() as u64;
                        if end > len {
                            len = end;
                        }
                    }
                PendingOp::SetLen {
                    path: p,
                    len: new_len,
                    ..
                }
                    if (p == &content_path || self.path_renamed_to(p, &content_path)) => {
                        len = *new_len;
                    }
                _ => {}
            }
        }
        len
    }
'''
new='''        let applies = self.data_ops_of(&content_path);
        for (op, applies) in self.pending.iter().zip(applies) {
            match op {
                PendingOp::Write { offset, data, .. } if applies => {
                    let end = offset + data.len() as u64;
                    if end > len {
                        len = end;
                    }
                }
                PendingOp::SetLen { len: new_len, .. } if applies => {
                    len = *new_len;
                }
                _ => {}
            }
        }
        len
    }

    /// For every pending op, whether it is a `Write` / `SetLen` on the file
    /// whose oldest name (see [`Self::resolve_content_path`]) is
    /// `content_path`. A data op is issued under the name its handle was
    /// opened with, which is any name the file has gone by up to that point
    /// of the log: the oldest one, or the destination of a pending rename
    /// that has moved the file since.
    fn data_ops_of(&self, content_path: &Path) -> Vec<bool> {
        let mut names = vec![content_path.to_path_buf()];
        self.pending
            .iter()
            .map(|op| match op {
                PendingOp::Rename { from, to } => {
                    if names.last() == Some(from) {
                        names.push(to.clone());
                    }
                    false
                }
                PendingOp::Write { path: p, .. } | PendingOp::SetLen { path: p, .. } => {
                    names.contains(p) || self.path_renamed_to(p, content_path)
                }
                _ => false,
            })
            .collect()
    }
'''
assert old in s
s=s.replace(old,new)
old='''        // Overlay pending writes (need to check the content path)
        for op in &self.pending {'''
new='''        // Overlay pending writes (need to check the content path)
        let applies = self.data_ops_of(&content_path);
        for (op, applies) in self.pending.iter().zip(applies) {'''
assert old in s
s=s.replace(old,new)
old='''            if let PendingOp::SetLen {
                path: p,
                len: new_len,
                ..
            } = op
            {
                if p == &content_path || self.path_renamed_to(p, &content_path) {'''
new='''            if let PendingOp::SetLen { len: new_len, .. } = op {
                if applies {'''
assert old in s
s=s.replace(old,new)
old='''            if let PendingOp::Write {
                path: p,
                offset: write_off,
                data,
                ..
            } = op
            {
                // Check if this write applies to the content path
                let write_applies = p == &content_path || self.path_renamed_to(p, &content_path);
                if write_applies {'''
new='''            if let PendingOp::Write {
                offset: write_off,
                data,
                ..
            } = op
            {
                if applies {'''
assert old in s
s=s.replace(old,new)
open(p,'w').write(s)
