#![cfg(feature = "unstable-fs")]
use std::io::{ErrorKind, Read, Seek, SeekFrom, Write};
use std::os::unix::fs::FileExt;
use turmoil::fs::shim::std::fs::*;
use turmoil::{Builder, Result};

fn run(f: impl FnOnce() -> std::io::Result<()> + 'static) -> Result {
    let mut sim = Builder::new().build();
    sim.client("t", async move {
        f()?;
        Ok(())
    });
    sim.run()
}

// H1: a directory created (not yet synced) then renamed
#[test]
fn h1_pending_dir_rename() -> Result {
    run(|| {
        create_dir("/a")?;
        rename("/a", "/b")?;
        assert!(metadata("/a").is_err(), "/a must be gone");
        let m = metadata("/b")?;
        assert!(m.is_dir(), "/b must be a directory");
        Ok(())
    })
}

// H1b: a synced directory renamed: kind of the new name
#[test]
fn h1b_synced_dir_rename_kind() -> Result {
    run(|| {
        create_dir("/a")?;
        sync_dir("/")?;
        rename("/a", "/b")?;
        assert!(metadata("/a").is_err(), "/a must be gone");
        let m = metadata("/b")?;
        assert!(m.is_dir(), "/b must be a directory, got file={}", m.is_file());
        Ok(())
    })
}

// H1c: remove_file on renamed dir
#[test]
fn h1c_remove_file_on_renamed_dir() -> Result {
    run(|| {
        create_dir("/a")?;
        sync_dir("/")?;
        rename("/a", "/b")?;
        assert!(remove_file("/b").is_err(), "remove_file on a directory must fail");
        Ok(())
    })
}

// H2: open with create on a directory path
#[test]
fn h2_create_on_dir() -> Result {
    run(|| {
        create_dir("/d")?;
        let r = OpenOptions::new().write(true).create(true).open("/d");
        assert!(r.is_err(), "open(create) on a directory must fail");
        Ok(())
    })
}
#[test]
fn h2b_create_new_on_dir() -> Result {
    run(|| {
        create_dir("/d")?;
        let r = OpenOptions::new().write(true).create_new(true).open("/d");
        assert!(r.is_err(), "open(create_new) on a directory must fail");
        assert!(metadata("/d")?.is_dir());
        Ok(())
    })
}

// H4: error kinds
#[test]
fn h4_create_dir_exists_kind() -> Result {
    run(|| {
        create_dir("/d")?;
        let e = create_dir("/d").unwrap_err();
        assert_eq!(e.kind(), ErrorKind::AlreadyExists);
        Ok(())
    })
}
#[test]
fn h4b_create_dir_noparent_kind() -> Result {
    run(|| {
        let e = create_dir("/x/y").unwrap_err();
        assert_eq!(e.kind(), ErrorKind::NotFound);
        Ok(())
    })
}
#[test]
fn h4c_remove_dir_missing_kind() -> Result {
    run(|| {
        let e = remove_dir("/x").unwrap_err();
        assert_eq!(e.kind(), ErrorKind::NotFound);
        Ok(())
    })
}
#[test]
fn h4d_remove_dir_nonempty_kind() -> Result {
    run(|| {
        create_dir("/d")?;
        write("/d/f", b"x")?;
        let e = remove_dir("/d").unwrap_err();
        assert_eq!(e.kind(), ErrorKind::DirectoryNotEmpty);
        Ok(())
    })
}
#[test]
fn h4e_rename_missing_kind() -> Result {
    run(|| {
        let e = rename("/x", "/y").unwrap_err();
        assert_eq!(e.kind(), ErrorKind::NotFound);
        Ok(())
    })
}
#[test]
fn h4f_sync_dir_missing_kind() -> Result {
    run(|| {
        let e = sync_dir("/x").unwrap_err();
        assert_eq!(e.kind(), ErrorKind::NotFound);
        Ok(())
    })
}

// H8: create_dir_all over an existing file
#[test]
fn h8_create_dir_all_over_file() -> Result {
    run(|| {
        write("/f", b"x")?;
        assert!(create_dir_all("/f").is_err(), "create_dir_all over a file must fail");
        Ok(())
    })
}

// H6: try_clone shares cursor
#[test]
fn h6_try_clone_cursor() -> Result {
    run(|| {
        let mut f = OpenOptions::new().read(true).write(true).create(true).open("/f")?;
        f.write_all(b"abcdef")?;
        let mut g = f.try_clone()?;
        g.write_all(b"XY")?;
        let mut s = Vec::new();
        f.seek(SeekFrom::Start(0))?;
        f.read_to_end(&mut s)?;
        assert_eq!(s, b"abcdefXY");
        Ok(())
    })
}

// H9: append + seek + read
#[test]
fn h9_append_cursor() -> Result {
    run(|| {
        write("/f", b"abc")?;
        let mut f = OpenOptions::new().read(true).append(true).open("/f")?;
        f.seek(SeekFrom::Start(0))?;
        f.write_all(b"de")?;
        // after an append write the position is at EOF
        let mut s = Vec::new();
        f.read_to_end(&mut s)?;
        assert_eq!(s, b"");
        assert_eq!(read("/f")?, b"abcde");
        Ok(())
    })
}

// H10: open without create on a directory / read_dir on a file error kinds
#[test]
fn h10_unlink_open_handle() -> Result {
    run(|| {
        let f = OpenOptions::new().read(true).write(true).create(true).open("/f")?;
        f.write_all_at(b"abc", 0)?;
        remove_file("/f")?;
        assert!(metadata("/f").is_err());
        // re-create; must be empty
        let g = OpenOptions::new().read(true).write(true).create_new(true).open("/f")?;
        assert_eq!(g.metadata()?.len(), 0);
        Ok(())
    })
}

// H11: file whose parent is a file
#[test]
fn h11_parent_is_file() -> Result {
    run(|| {
        write("/f", b"x")?;
        assert!(File::create("/f/g").is_err());
        assert!(create_dir("/f/d").is_err());
        Ok(())
    })
}

// H12: remove_dir on a file, remove_file on a dir
#[test]
fn h12_wrong_kind_remove() -> Result {
    run(|| {
        write("/f", b"x")?;
        create_dir("/d")?;
        assert!(remove_dir("/f").is_err());
        assert!(remove_file("/d").is_err());
        assert!(metadata("/f")?.is_file());
        assert!(metadata("/d")?.is_dir());
        Ok(())
    })
}

// H13: rename file onto existing file then listing
#[test]
fn h13_rename_replace_listing() -> Result {
    run(|| {
        create_dir("/d")?;
        write("/d/a", b"AAA")?;
        write("/d/b", b"B")?;
        rename("/d/a", "/d/b")?;
        let mut names: Vec<_> = read_dir("/d")?.map(|e| e.unwrap().file_name()).collect();
        names.sort();
        assert_eq!(names, vec![std::ffi::OsString::from("b")]);
        assert_eq!(read("/d/b")?, b"AAA");
        Ok(())
    })
}

// H14: rename dir onto empty existing dir, listing
#[test]
fn h14_rename_dir_onto_empty_dir() -> Result {
    run(|| {
        create_dir("/a")?;
        create_dir("/b")?;
        sync_dir("/")?;
        rename("/a", "/b")?;
        let mut names: Vec<_> = read_dir("/")?.map(|e| e.unwrap().file_name()).collect();
        names.sort();
        assert_eq!(names, vec![std::ffi::OsString::from("b")]);
        Ok(())
    })
}
