p='crates/turmoil-fs/src/shim/std/fs/mod.rs'
s=open(p).read()
old='''            // Handle missing file
            if !file_exists {
                if self.create || self.create_new {'''
new='''            // A directory of that name is neither opened as a file nor
            // shadowed by a new file (EEXIST for O_EXCL, EISDIR otherwise).
            if !file_exists && ctx.fs.dir_exists(&resolved_path) {
                return Err(if self.create_new {
                    Error::new(ErrorKind::AlreadyExists, "file already exists")
                } else {
                    Error::new(ErrorKind::IsADirectory, "is a directory")
                });
            }

            // Handle missing file
            if !file_exists {
                if self.create || self.create_new {'''
assert old in s
s=s.replace(old,new)
open(p,'w').write(s)
