//! Audit C10 / F1: namespace operations of the std (and tokio) shim fail with
//! `ErrorKind::Other` instead of the kind a POSIX tree (std::fs) reports.
//!
//! Destination: crates/turmoil/tests/audit_c10_f1.rs
//! Run: CARGO_TARGET_DIR=/tmp/wt6/C10/target cargo test --offline -p turmoil \
//!        --features unstable-fs --test audit_c10_f1
#![cfg(feature = "unstable-fs")]
use std::io::ErrorKind;
use turmoil::fs::shim::std::fs::*;
use turmoil::{Builder, Result};

fn run(f: impl FnOnce() -> std::io::Result<()> + 'static) -> Result {
    let mut sim = Builder::new().build();
    sim.client("t", async move {
        f()?;
        Ok(())
    });
    sim.run()
}

#[test]
fn create_dir_on_existing_dir_is_already_exists() -> Result {
    run(|| {
        create_dir("/d")?;
        assert_eq!(create_dir("/d").unwrap_err().kind(), ErrorKind::AlreadyExists);
        Ok(())
    })
}

#[test]
fn create_dir_on_existing_file_is_already_exists() -> Result {
    run(|| {
        write("/f", b"x")?;
        assert_eq!(create_dir("/f").unwrap_err().kind(), ErrorKind::AlreadyExists);
        Ok(())
    })
}

#[test]
fn create_dir_without_parent_is_not_found() -> Result {
    run(|| {
        assert_eq!(create_dir("/x/y").unwrap_err().kind(), ErrorKind::NotFound);
        Ok(())
    })
}

#[test]
fn remove_dir_missing_is_not_found() -> Result {
    run(|| {
        assert_eq!(remove_dir("/x").unwrap_err().kind(), ErrorKind::NotFound);
        Ok(())
    })
}

#[test]
fn remove_dir_non_empty_is_directory_not_empty() -> Result {
    run(|| {
        create_dir("/d")?;
        write("/d/f", b"x")?;
        assert_eq!(remove_dir("/d").unwrap_err().kind(), ErrorKind::DirectoryNotEmpty);
        assert_eq!(remove_dir_all("/nope").unwrap_err().kind(), ErrorKind::NotFound);
        Ok(())
    })
}

#[test]
fn rename_missing_source_is_not_found() -> Result {
    run(|| {
        assert_eq!(rename("/x", "/y").unwrap_err().kind(), ErrorKind::NotFound);
        write("/f", b"x")?;
        assert_eq!(rename("/f", "/nodir/f").unwrap_err().kind(), ErrorKind::NotFound);
        Ok(())
    })
}

#[test]
fn rename_kind_mismatch() -> Result {
    run(|| {
        write("/f", b"x")?;
        create_dir("/d")?;
        create_dir("/e")?;
        write("/e/g", b"x")?;
        assert_eq!(rename("/f", "/d").unwrap_err().kind(), ErrorKind::IsADirectory);
        assert_eq!(rename("/d", "/f").unwrap_err().kind(), ErrorKind::NotADirectory);
        assert_eq!(rename("/d", "/e").unwrap_err().kind(), ErrorKind::DirectoryNotEmpty);
        Ok(())
    })
}

#[test]
fn sync_dir_missing_is_not_found() -> Result {
    run(|| {
        assert_eq!(sync_dir("/x").unwrap_err().kind(), ErrorKind::NotFound);
        Ok(())
    })
}

/// The idiom `match create_dir(p) { Err(e) if e.kind() == AlreadyExists => Ok(()), r => r }`
/// (what std's own create_dir_all relies on) through the tokio front-end.
#[test]
fn tokio_create_dir_idiom() -> Result {
    use turmoil::fs::shim::tokio::fs as tfs;
    let mut sim = Builder::new().build();
    sim.client("t", async move {
        tfs::create_dir("/d").await?;
        match tfs::create_dir("/d").await {
            Err(e) if e.kind() == ErrorKind::AlreadyExists => {}
            other => panic!("expected AlreadyExists, got {other:?}"),
        }
        Ok(())
    });
    sim.run()
}

// Second tier: the object exists but has the wrong type. Reported as NotFound.
#[test]
fn remove_file_on_directory_is_is_a_directory() -> Result {
    run(|| {
        create_dir("/d")?;
        assert_eq!(remove_file("/d").unwrap_err().kind(), ErrorKind::IsADirectory);
        Ok(())
    })
}

#[test]
fn remove_dir_and_read_dir_on_file_are_not_a_directory() -> Result {
    run(|| {
        write("/f", b"x")?;
        assert_eq!(remove_dir("/f").unwrap_err().kind(), ErrorKind::NotADirectory);
        assert_eq!(read_dir("/f").err().unwrap().kind(), ErrorKind::NotADirectory);
        Ok(())
    })
}
