//! Audit C10 / F6 sibling (same root cause as the recorded "pending data ops are
//! keyed by path string" item; listed only because the symptom is not in the
//! recorded list): write, rename, sync_dir of the parent. sync_dir flushes the
//! rename, the pending Write keeps the old name, and the content disappears from
//! every read. Before the sync_dir the file reads correctly, so this is a sync
//! operation changing something observable.
//!
//! Destination: crates/turmoil/tests/audit_c10_f6b.rs
//! Run: CARGO_TARGET_DIR=/tmp/wt6/C10/target cargo test --offline -p turmoil \
//!        --features unstable-fs --test audit_c10_f6b
#![cfg(feature = "unstable-fs")]
use turmoil::fs::shim::std::fs::*;
use turmoil::{Builder, Result};

#[test]
fn write_rename_sync_dir_same_directory() -> Result {
    let mut sim = Builder::new().build();
    sim.client("t", async move {
        create_dir("/d")?;
        write("/d/tmp", b"abc")?;
        rename("/d/tmp", "/d/f")?;
        assert_eq!(read("/d/f")?, b"abc");
        sync_dir("/d")?;
        assert_eq!(read("/d/f")?, b"abc", "sync_dir changed the content of /d/f");
        Ok(())
    });
    sim.run()
}
