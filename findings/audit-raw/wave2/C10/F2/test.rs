//! Audit C10 / F2: after rename() of a DIRECTORY the new name is reported as a
//! regular file, and a directory that was created but not yet synced does not
//! move at all (the old name keeps existing).
//!
//! Destination: crates/turmoil/tests/audit_c10_f2.rs
//! Run: CARGO_TARGET_DIR=/tmp/wt6/C10/target cargo test --offline -p turmoil \
//!        --features unstable-fs --test audit_c10_f2
#![cfg(feature = "unstable-fs")]
use turmoil::fs::shim::std::fs::*;
use turmoil::{Builder, Result};

fn run(f: impl FnOnce() -> std::io::Result<()> + 'static) -> Result {
    let mut sim = Builder::new().build();
    sim.client("t", async move {
        f()?;
        Ok(())
    });
    sim.run()
}

fn names(p: &str) -> Vec<String> {
    let mut v: Vec<String> = read_dir(p)
        .unwrap()
        .map(|e| e.unwrap().file_name().to_string_lossy().into_owned())
        .collect();
    v.sort();
    v
}

/// No sync anywhere: create_dir, rename, look.
#[test]
fn unsynced_directory_renamed() -> Result {
    run(|| {
        create_dir("/a")?;
        rename("/a", "/b")?;
        assert_eq!(names("/"), vec!["b"], "listing of / after rename(/a, /b)");
        assert!(metadata("/a").is_err(), "/a must be gone");
        assert!(metadata("/b")?.is_dir(), "/b must be a directory");
        Ok(())
    })
}

/// The directory is durable (sync_dir of its parent) before it is renamed.
#[test]
fn synced_directory_renamed_keeps_its_kind() -> Result {
    run(|| {
        create_dir("/a")?;
        sync_dir("/")?;
        rename("/a", "/b")?;
        let m = metadata("/b")?;
        assert!(m.is_dir() && !m.is_file(), "/b is_dir={} is_file={}", m.is_dir(), m.is_file());
        let kinds: Vec<bool> = read_dir("/")?.map(|e| e.unwrap().file_type().unwrap().is_dir()).collect();
        assert_eq!(kinds, vec![true], "read_dir(/) must list one directory");
        Ok(())
    })
}

/// Consequences of the wrong kind: the renamed directory can be unlinked and
/// opened like a file.
#[test]
fn renamed_directory_is_not_a_file() -> Result {
    run(|| {
        create_dir("/a")?;
        sync_dir("/")?;
        rename("/a", "/b")?;
        assert!(File::open("/b").is_err(), "File::open on a directory that was renamed");
        assert!(remove_file("/b").is_err(), "remove_file on a directory that was renamed");
        assert!(metadata("/b")?.is_dir());
        Ok(())
    })
}

/// sync_dir inserted after the rename does not change the answer either way.
#[test]
fn unsynced_directory_renamed_then_parent_synced() -> Result {
    run(|| {
        create_dir("/a")?;
        rename("/a", "/b")?;
        sync_dir("/")?;
        assert_eq!(names("/"), vec!["b"]);
        assert!(metadata("/b")?.is_dir());
        Ok(())
    })
}

/// Across directories, and the emptied parent can be removed.
#[test]
fn unsynced_directory_moved_out_of_its_parent() -> Result {
    run(|| {
        create_dir_all("/p/sub")?;
        create_dir("/q")?;
        rename("/p/sub", "/q/sub")?;
        assert!(metadata("/q/sub")?.is_dir());
        assert_eq!(names("/p"), Vec::<String>::new());
        remove_dir("/p")?; // must succeed: /p is empty
        Ok(())
    })
}
