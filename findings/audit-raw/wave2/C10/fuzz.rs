#![cfg(feature = "unstable-fs")]
//! Differential tester: std shim against a plain in-memory POSIX tree.
//! Scratch harness for the audit; the findings are re-stated as stand-alone tests.
use std::collections::BTreeMap;
use std::io::{ErrorKind, Read, Seek, SeekFrom, Write};
use std::os::unix::fs::FileExt;
use std::sync::{Arc, Mutex};
use std::time::Duration;
use turmoil::fs::shim::std::fs as sfs;
use turmoil::fs::{enter, EnterCtx, Fs, FsConfig};

// ---------- model ----------
#[derive(Clone, Debug)]
enum Node {
    File(usize),
    Dir(BTreeMap<String, Node>),
}
#[derive(Clone, Debug)]
struct MHandle {
    ino: usize,
    cursor: u64,
    read: bool,
    write: bool,
    append: bool,
}
#[derive(Clone, Debug)]
struct Model {
    root: Node,
    inodes: Vec<Vec<u8>>,
    handles: Vec<Option<MHandle>>,
}
type K = ErrorKind;
fn comps(p: &str) -> Vec<String> {
    p.split('/').filter(|s| !s.is_empty()).map(|s| s.to_string()).collect()
}
impl Model {
    fn new() -> Self {
        Model { root: Node::Dir(BTreeMap::new()), inodes: vec![], handles: vec![] }
    }
    fn lookup(&self, p: &str) -> Result<&Node, K> {
        let mut cur = &self.root;
        for c in comps(p) {
            match cur {
                Node::Dir(m) => cur = m.get(&c).ok_or(K::NotFound)?,
                Node::File(_) => return Err(K::NotADirectory),
            }
        }
        Ok(cur)
    }
    fn parent_mut(&mut self, p: &str) -> Result<(&mut BTreeMap<String, Node>, String), K> {
        let mut cs = comps(p);
        let name = cs.pop().ok_or(K::InvalidInput)?;
        let mut cur = &mut self.root;
        for c in cs {
            match cur {
                Node::Dir(m) => cur = m.get_mut(&c).ok_or(K::NotFound)?,
                Node::File(_) => return Err(K::NotADirectory),
            }
        }
        match cur {
            Node::Dir(m) => Ok((m, name)),
            Node::File(_) => Err(K::NotADirectory),
        }
    }
    #[allow(clippy::too_many_arguments)]
    fn open(&mut self, p: &str, o: Opts) -> Result<usize, K> {
        let existing = match self.lookup(p) {
            Ok(n) => Some(n.clone()),
            Err(K::NotFound) => None,
            Err(e) => return Err(e),
        };
        let ino = match existing {
            Some(Node::Dir(_)) => {
                if o.create_new {
                    return Err(K::AlreadyExists);
                }
                return Err(K::IsADirectory);
            }
            Some(Node::File(i)) => {
                if o.create_new {
                    return Err(K::AlreadyExists);
                }
                if o.truncate && o.write {
                    self.inodes[i].clear();
                }
                i
            }
            None => {
                if !(o.create || o.create_new) {
                    return Err(K::NotFound);
                }
                let i = self.inodes.len();
                let (m, name) = self.parent_mut(p)?;
                m.insert(name, Node::File(i));
                self.inodes.push(vec![]);
                i
            }
        };
        self.handles.push(Some(MHandle {
            ino,
            cursor: 0,
            read: o.read,
            write: o.write || o.append,
            append: o.append,
        }));
        Ok(self.handles.len() - 1)
    }
    fn write_at(&mut self, h: usize, off: u64, data: &[u8]) -> Result<usize, K> {
        let hd = self.handles[h].clone().unwrap();
        if !hd.write {
            return Err(K::PermissionDenied);
        }
        if data.is_empty() {
            return Ok(0);
        }
        let f = &mut self.inodes[hd.ino];
        let end = off as usize + data.len();
        if f.len() < end {
            f.resize(end, 0);
        }
        f[off as usize..end].copy_from_slice(data);
        Ok(data.len())
    }
    fn read_at(&self, h: usize, off: u64, len: usize) -> Result<Vec<u8>, K> {
        let hd = self.handles[h].clone().unwrap();
        if !hd.read {
            return Err(K::PermissionDenied);
        }
        let f = &self.inodes[hd.ino];
        if off as usize >= f.len() {
            return Ok(vec![]);
        }
        let end = (off as usize + len).min(f.len());
        Ok(f[off as usize..end].to_vec())
    }
    fn write(&mut self, h: usize, data: &[u8]) -> Result<usize, K> {
        let hd = self.handles[h].clone().unwrap();
        let off = if hd.append { self.inodes[hd.ino].len() as u64 } else { hd.cursor };
        let n = self.write_at(h, off, data)?;
        self.handles[h].as_mut().unwrap().cursor = off + n as u64;
        Ok(n)
    }
    fn read(&mut self, h: usize, len: usize) -> Result<Vec<u8>, K> {
        let c = self.handles[h].as_ref().unwrap().cursor;
        let v = self.read_at(h, c, len)?;
        self.handles[h].as_mut().unwrap().cursor += v.len() as u64;
        Ok(v)
    }
    fn seek(&mut self, h: usize, pos: SeekFrom) -> Result<u64, K> {
        let hd = self.handles[h].clone().unwrap();
        let len = self.inodes[hd.ino].len() as i64;
        let np = match pos {
            SeekFrom::Start(o) => o as i64,
            SeekFrom::End(o) => len + o,
            SeekFrom::Current(o) => hd.cursor as i64 + o,
        };
        if np < 0 {
            return Err(K::InvalidInput);
        }
        self.handles[h].as_mut().unwrap().cursor = np as u64;
        Ok(np as u64)
    }
    fn set_len(&mut self, h: usize, n: u64) -> Result<(), K> {
        let hd = self.handles[h].clone().unwrap();
        if !hd.write {
            return Err(K::PermissionDenied);
        }
        self.inodes[hd.ino].resize(n as usize, 0);
        Ok(())
    }
    fn hlen(&self, h: usize) -> u64 {
        self.inodes[self.handles[h].as_ref().unwrap().ino].len() as u64
    }
    fn mkdir(&mut self, p: &str) -> Result<(), K> {
        match self.lookup(p) {
            Ok(_) => return Err(K::AlreadyExists),
            Err(K::NotFound) => {}
            Err(e) => return Err(e),
        }
        let (m, name) = self.parent_mut(p)?;
        m.insert(name, Node::Dir(BTreeMap::new()));
        Ok(())
    }
    fn mkdir_all(&mut self, p: &str) -> Result<(), K> {
        let cs = comps(p);
        let mut cur = String::new();
        for c in cs {
            cur.push('/');
            cur.push_str(&c);
            match self.lookup(&cur) {
                Ok(Node::Dir(_)) => {}
                Ok(Node::File(_)) => return Err(K::AlreadyExists),
                Err(K::NotFound) => self.mkdir(&cur)?,
                Err(e) => return Err(e),
            }
        }
        Ok(())
    }
    fn rmdir(&mut self, p: &str) -> Result<(), K> {
        match self.lookup(p)? {
            Node::File(_) => return Err(K::NotADirectory),
            Node::Dir(m) if !m.is_empty() => return Err(K::DirectoryNotEmpty),
            _ => {}
        }
        if comps(p).is_empty() {
            return Err(K::Other);
        }
        let (m, name) = self.parent_mut(p)?;
        m.remove(&name);
        Ok(())
    }
    fn rmdir_all(&mut self, p: &str) -> Result<(), K> {
        match self.lookup(p)? {
            Node::File(_) => return Err(K::NotADirectory),
            _ => {}
        }
        if comps(p).is_empty() {
            return Err(K::Other);
        }
        let (m, name) = self.parent_mut(p)?;
        m.remove(&name);
        Ok(())
    }
    fn unlink(&mut self, p: &str) -> Result<(), K> {
        match self.lookup(p)? {
            Node::Dir(_) => return Err(K::IsADirectory),
            _ => {}
        }
        let (m, name) = self.parent_mut(p)?;
        m.remove(&name);
        Ok(())
    }
    fn rename(&mut self, from: &str, to: &str) -> Result<(), K> {
        let src = self.lookup(from)?.clone();
        if comps(from).is_empty() {
            return Err(K::Other);
        }
        // destination parent must exist
        {
            let mut cs = comps(to);
            if cs.pop().is_none() {
                return Err(K::Other);
            }
            let pp = format!("/{}", cs.join("/"));
            match self.lookup(&pp)? {
                Node::Dir(_) => {}
                Node::File(_) => return Err(K::NotADirectory),
            }
        }
        if comps(from) == comps(to) {
            return Ok(());
        }
        let fc = comps(from);
        let tc = comps(to);
        if tc.len() > fc.len() && tc[..fc.len()] == fc[..] {
            return Err(K::InvalidInput);
        }
        match (self.lookup(to), &src) {
            (Ok(Node::Dir(_)), Node::File(_)) => return Err(K::IsADirectory),
            (Ok(Node::File(_)), Node::Dir(_)) => return Err(K::NotADirectory),
            (Ok(Node::Dir(m)), Node::Dir(_)) if !m.is_empty() => return Err(K::DirectoryNotEmpty),
            (Err(K::NotFound), _) | (Ok(_), _) => {}
            (Err(e), _) => return Err(e),
        }
        if fc.len() > tc.len() && fc[..tc.len()] == tc[..] {
            // renaming onto an ancestor: ancestor is a non-empty dir
            return Err(K::DirectoryNotEmpty);
        }
        let (m, name) = self.parent_mut(from)?;
        let node = m.remove(&name).unwrap();
        let (m, name) = self.parent_mut(to)?;
        m.insert(name, node);
        Ok(())
    }
    fn read_dir(&self, p: &str) -> Result<Vec<String>, K> {
        match self.lookup(p)? {
            Node::Dir(m) => Ok(m.keys().cloned().collect()),
            Node::File(_) => Err(K::NotADirectory),
        }
    }
    /// (is_dir, len)
    fn metadata(&self, p: &str) -> Result<(bool, u64), K> {
        match self.lookup(p)? {
            Node::Dir(_) => Ok((true, 0)),
            Node::File(i) => Ok((false, self.inodes[*i].len() as u64)),
        }
    }
    fn sync_dir(&self, p: &str) -> Result<(), K> {
        match self.lookup(p)? {
            Node::Dir(_) => Ok(()),
            Node::File(_) => Err(K::NotADirectory),
        }
    }
    fn all_paths(&self) -> Vec<String> {
        fn walk(n: &Node, pre: &str, out: &mut Vec<String>) {
            if let Node::Dir(m) = n {
                for (k, v) in m {
                    let p = format!("{pre}/{k}");
                    out.push(p.clone());
                    walk(v, &p, out);
                }
            }
        }
        let mut v = vec![];
        walk(&self.root, "", &mut v);
        v
    }
}

#[derive(Clone, Copy, Debug, Default)]
struct Opts {
    read: bool,
    write: bool,
    append: bool,
    truncate: bool,
    create: bool,
    create_new: bool,
}

#[derive(Clone, Debug)]
enum Op {
    Open(String, Opts),
    Close(usize),
    WriteAt(usize, u64, Vec<u8>),
    ReadAt(usize, u64, usize),
    Write(usize, Vec<u8>),
    Read(usize, usize),
    Seek(usize, i8, i64),
    SetLen(usize, u64),
    SyncAll(usize),
    SyncData(usize),
    HLen(usize),
    SyncDir(String),
    Mkdir(String),
    MkdirAll(String),
    Rmdir(String),
    RmdirAll(String),
    Unlink(String),
    Rename(String, String),
    ReadDir(String),
    Meta(String),
    ReadFile(String),
}

struct Rng(u64);
impl Rng {
    fn next(&mut self) -> u64 {
        self.0 ^= self.0 << 13;
        self.0 ^= self.0 >> 7;
        self.0 ^= self.0 << 17;
        self.0
    }
    fn below(&mut self, n: u64) -> u64 {
        self.next() % n
    }
    fn pick<'a, T>(&mut self, v: &'a [T]) -> &'a T {
        &v[self.below(v.len() as u64) as usize]
    }
    fn chance(&mut self, pct: u64) -> bool {
        self.below(100) < pct
    }
}

#[derive(Clone, Copy, Debug)]
struct Cfg {
    rename: bool,
    remove: bool,
    sync: bool,
    /// handles stay open across namespace ops on their path
    sticky_handles: bool,
    /// compare error kinds, not only ok/err
    kinds: bool,
    /// directories may be renamed
    rename_dirs: bool,
    /// names may be used again after a removal / rename away
    reuse_names: bool,
    /// generate ops that are errors in the model
    errors: bool,
}

const DIRS: &[&str] = &["/", "/a", "/a/b", "/c"];
const NAMES: &[&str] = &["f", "g", "d"];

fn all_candidate_paths() -> Vec<String> {
    let mut v = vec![];
    for d in DIRS {
        for n in NAMES {
            if *d == "/" {
                v.push(format!("/{n}"));
            } else {
                v.push(format!("{d}/{n}"));
            }
        }
    }
    v.extend(DIRS[1..].iter().map(|s| s.to_string()));
    v
}

/// what the shim did, normalised
#[derive(Debug, PartialEq, Clone)]
enum Out {
    Unit,
    N(u64),
    Bytes(Vec<u8>),
    Names(Vec<String>),
    Meta(bool, u64),
    Err(K),
}

struct Real {
    handles: Vec<Option<sfs::File>>,
}

fn k<T>(r: std::io::Result<T>, f: impl FnOnce(T) -> Out) -> Out {
    match r {
        Ok(v) => f(v),
        Err(e) => Out::Err(e.kind()),
    }
}

fn apply_real(real: &mut Real, op: &Op) -> Out {
    match op {
        Op::Open(p, o) => {
            let r = sfs::OpenOptions::new()
                .read(o.read)
                .write(o.write)
                .append(o.append)
                .truncate(o.truncate)
                .create(o.create)
                .create_new(o.create_new)
                .open(p);
            match r {
                Ok(f) => {
                    real.handles.push(Some(f));
                    Out::Unit
                }
                Err(e) => Out::Err(e.kind()),
            }
        }
        Op::Close(h) => {
            real.handles[*h] = None;
            Out::Unit
        }
        Op::WriteAt(h, off, d) => k(real.handles[*h].as_ref().unwrap().write_at(d, *off), |n| Out::N(n as u64)),
        Op::ReadAt(h, off, len) => {
            let mut b = vec![0xAAu8; *len];
            k(real.handles[*h].as_ref().unwrap().read_at(&mut b, *off), |n| Out::Bytes(b[..n].to_vec()))
        }
        Op::Write(h, d) => k(real.handles[*h].as_mut().unwrap().write(d), |n| Out::N(n as u64)),
        Op::Read(h, len) => {
            let mut b = vec![0xAAu8; *len];
            k(real.handles[*h].as_mut().unwrap().read(&mut b), |n| Out::Bytes(b[..n].to_vec()))
        }
        Op::Seek(h, w, o) => {
            let pos = match w {
                0 => SeekFrom::Start(*o as u64),
                1 => SeekFrom::End(*o),
                _ => SeekFrom::Current(*o),
            };
            k(real.handles[*h].as_mut().unwrap().seek(pos), Out::N)
        }
        Op::SetLen(h, n) => k(real.handles[*h].as_ref().unwrap().set_len(*n), |_| Out::Unit),
        Op::SyncAll(h) => k(real.handles[*h].as_ref().unwrap().sync_all(), |_| Out::Unit),
        Op::SyncData(h) => k(real.handles[*h].as_ref().unwrap().sync_data(), |_| Out::Unit),
        Op::HLen(h) => k(real.handles[*h].as_ref().unwrap().metadata(), |m| Out::N(m.len())),
        Op::SyncDir(p) => k(sfs::sync_dir(p), |_| Out::Unit),
        Op::Mkdir(p) => k(sfs::create_dir(p), |_| Out::Unit),
        Op::MkdirAll(p) => k(sfs::create_dir_all(p), |_| Out::Unit),
        Op::Rmdir(p) => k(sfs::remove_dir(p), |_| Out::Unit),
        Op::RmdirAll(p) => k(sfs::remove_dir_all(p), |_| Out::Unit),
        Op::Unlink(p) => k(sfs::remove_file(p), |_| Out::Unit),
        Op::Rename(a, b) => k(sfs::rename(a, b), |_| Out::Unit),
        Op::ReadDir(p) => k(sfs::read_dir(p), |rd| {
            let mut v: Vec<String> = rd.map(|e| e.unwrap().file_name().to_string_lossy().into_owned()).collect();
            v.sort();
            Out::Names(v)
        }),
        Op::Meta(p) => k(sfs::metadata(p), |m| Out::Meta(m.is_dir(), m.len())),
        Op::ReadFile(p) => k(sfs::read(p), Out::Bytes),
    }
}

fn apply_model(m: &mut Model, op: &Op) -> Out {
    fn r<T>(x: Result<T, K>, f: impl FnOnce(T) -> Out) -> Out {
        match x {
            Ok(v) => f(v),
            Err(e) => Out::Err(e),
        }
    }
    match op {
        Op::Open(p, o) => r(m.open(p, *o), |_| Out::Unit),
        Op::Close(h) => {
            m.handles[*h] = None;
            Out::Unit
        }
        Op::WriteAt(h, off, d) => r(m.write_at(*h, *off, d), |n| Out::N(n as u64)),
        Op::ReadAt(h, off, len) => r(m.read_at(*h, *off, *len), Out::Bytes),
        Op::Write(h, d) => r(m.write(*h, d), |n| Out::N(n as u64)),
        Op::Read(h, len) => r(m.read(*h, *len), Out::Bytes),
        Op::Seek(h, w, o) => {
            let pos = match w {
                0 => SeekFrom::Start(*o as u64),
                1 => SeekFrom::End(*o),
                _ => SeekFrom::Current(*o),
            };
            r(m.seek(*h, pos), Out::N)
        }
        Op::SetLen(h, n) => r(m.set_len(*h, *n), |_| Out::Unit),
        Op::SyncAll(_) | Op::SyncData(_) => Out::Unit,
        Op::HLen(h) => Out::N(m.hlen(*h)),
        Op::SyncDir(p) => r(m.sync_dir(p), |_| Out::Unit),
        Op::Mkdir(p) => r(m.mkdir(p), |_| Out::Unit),
        Op::MkdirAll(p) => r(m.mkdir_all(p), |_| Out::Unit),
        Op::Rmdir(p) => r(m.rmdir(p), |_| Out::Unit),
        Op::RmdirAll(p) => r(m.rmdir_all(p), |_| Out::Unit),
        Op::Unlink(p) => r(m.unlink(p), |_| Out::Unit),
        Op::Rename(a, b) => r(m.rename(a, b), |_| Out::Unit),
        Op::ReadDir(p) => r(m.read_dir(p), Out::Names),
        Op::Meta(p) => r(m.metadata(p), |(d, l)| Out::Meta(d, l)),
        Op::ReadFile(p) => match m.lookup(p) {
            Ok(Node::File(i)) => Out::Bytes(m.inodes[*i].clone()),
            Ok(Node::Dir(_)) => Out::Err(K::IsADirectory),
            Err(e) => Out::Err(e),
        },
    }
}

fn same(a: &Out, b: &Out, kinds: bool) -> bool {
    match (a, b) {
        // ENOENT vs ENOTDIR for a path that runs through a file is not compared
        (Out::Err(K::NotFound), Out::Err(K::NotADirectory)) if std::env::var("STRICT").is_err() => true,
        (Out::Err(x), Out::Err(y)) => !kinds || x == y,
        _ => a == b,
    }
}

/// Run a trace against a fresh Fs; returns the index and outputs of the first divergence.
fn run_trace(ops: &[Op], cfg: Cfg) -> Option<(usize, Out, Out)> {
    let arc = Arc::new(Mutex::new(Fs::new(FsConfig::default(), 7)));
    let _g = enter(&arc, EnterCtx { now: Duration::from_secs(1), on_corruption: None });
    let mut real = Real { handles: vec![] };
    let mut model = Model::new();
    for (i, op) in ops.iter().enumerate() {
        // a trace that was shrunk may reference handles that were never opened
        let h = match op {
            Op::Close(h) | Op::WriteAt(h, ..) | Op::ReadAt(h, ..) | Op::Write(h, _) | Op::Read(h, _)
            | Op::Seek(h, ..) | Op::SetLen(h, _) | Op::SyncAll(h) | Op::SyncData(h) | Op::HLen(h) => Some(*h),
            _ => None,
        };
        if let Some(h) = h {
            let ok_m = model.handles.get(h).map(|x| x.is_some()).unwrap_or(false);
            let ok_r = real.handles.get(h).map(|x| x.is_some()).unwrap_or(false);
            if !ok_m || !ok_r {
                continue;
            }
        }
        let a = apply_real(&mut real, op);
        let b = apply_model(&mut model, op);
        // keep handle tables aligned
        if let Op::Open(..) = op {
            match (&a, &b) {
                (Out::Unit, Out::Unit) => {}
                (Out::Unit, _) => {
                    return Some((i, a, b));
                }
                (_, Out::Unit) => {
                    return Some((i, a, b));
                }
                _ => {}
            }
        }
        if !same(&a, &b, cfg.kinds) {
            return Some((i, a, b));
        }
    }
    // final sweep: every path of the model, and every candidate path
    let mut paths = all_candidate_paths();
    paths.extend(model.all_paths());
    paths.sort();
    paths.dedup();
    for p in paths {
        for op in [Op::Meta(p.clone()), Op::ReadDir(p.clone()), Op::ReadFile(p.clone())] {
            let a = apply_real(&mut real, &op);
            let b = apply_model(&mut model, &op);
            if !same(&a, &b, cfg.kinds) {
                if std::env::var("SWEEP").is_ok() { eprintln!("final sweep divergence on {op:?}"); }
                if std::env::var("HIST").is_ok() {
                    eprintln!("SWEEP {} shim={a:?} model={b:?}", describe(Some(&op)));
                }
                return Some((ops.len(), a, b));
            }
        }
    }
    None
}

fn gen_trace(rng: &mut Rng, cfg: Cfg, n: usize) -> Vec<Op> {
    let mut m = Model::new();
    let mut ops = vec![];
    let cands = all_candidate_paths();
    let mut burnt: Vec<String> = vec![]; // names that may not be used again
    let mut hpaths: Vec<Option<String>> = vec![];
    while ops.len() < n {
        let open_handles: Vec<usize> = (0..m.handles.len()).filter(|i| m.handles[*i].is_some()).collect();
        let choice = rng.below(100);
        let p = rng.pick(&cands).clone();
        let p_ok = cfg.reuse_names || !burnt.contains(&p);
        let op = if choice < 14 {
            // open
            let access = rng.below(5);
            let (read, write, append) = match access {
                0 => (true, false, false),
                1 => (false, true, false),
                2 => (true, true, false),
                3 => (false, false, true),
                _ => (true, false, true),
            };
            let truncate = write && rng.chance(30);
            let create = (write || append) && rng.chance(60);
            let create_new = (write || append) && rng.chance(15);
            if !p_ok {
                continue;
            }
            Op::Open(p, Opts { read, write, append, truncate, create, create_new })
        } else if choice < 50 && !open_handles.is_empty() {
            let h = *rng.pick(&open_handles);
            let hd = m.handles[h].clone().unwrap();
            let data: Vec<u8> = (0..rng.below(6)).map(|_| b'a' + rng.below(26) as u8).collect();
            match rng.below(12) {
                0 | 1 if !hd.append => Op::WriteAt(h, rng.below(12), data),
                2 | 3 => Op::ReadAt(h, rng.below(14), rng.below(10) as usize),
                4 | 5 => Op::Write(h, data),
                6 => Op::Read(h, rng.below(10) as usize),
                7 => Op::Seek(h, rng.below(3) as i8, rng.below(10) as i64 - if cfg.errors { 3 } else { 0 }),
                8 => Op::SetLen(h, rng.below(12)),
                9 if cfg.sync => {
                    if rng.chance(50) {
                        Op::SyncAll(h)
                    } else {
                        Op::SyncData(h)
                    }
                }
                10 => Op::HLen(h),
                11 => Op::Close(h),
                _ => continue,
            }
        } else if choice < 58 {
            if !p_ok {
                continue;
            }
            if rng.chance(80) {
                Op::Mkdir(p)
            } else {
                Op::MkdirAll(p)
            }
        } else if choice < 64 && cfg.sync {
            Op::SyncDir(rng.pick(DIRS).to_string())
        } else if choice < 72 && cfg.remove {
            match rng.below(3) {
                0 => Op::Unlink(p),
                1 => Op::Rmdir(p),
                _ => Op::RmdirAll(p),
            }
        } else if choice < 82 && cfg.rename {
            let q = rng.pick(&cands).clone();
            if !cfg.reuse_names && burnt.contains(&q) {
                continue;
            }
            Op::Rename(p, q)
        } else if choice < 88 {
            Op::ReadDir(rng.pick(DIRS).to_string())
        } else if choice < 94 {
            Op::Meta(p)
        } else {
            Op::ReadFile(p)
        };
        // Evaluate on the model to apply the generator's restrictions.
        let mut trial = m.clone();
        let out = apply_model(&mut trial, &op);
        if !cfg.errors && matches!(out, Out::Err(_)) {
            continue;
        }
        if matches!(op, Op::Rename(..)) && out == Out::Err(K::InvalidInput) {
            continue; // a directory into its own subtree: known
        }
        if let Op::Rename(a, b) = &op {
            if !matches!(out, Out::Err(_)) {
                if a == b {
                    continue; // rename(p, p): known
                }
                if !cfg.rename_dirs && matches!(m.lookup(a), Ok(Node::Dir(_))) {
                    continue;
                }
                if std::env::var("NONEMPTY").is_err() {
                    if let Ok(Node::Dir(mm)) = m.lookup(a) {
                        if !mm.is_empty() {
                            continue; // children of a renamed directory are stranded: known
                        }
                    }
                }
            }
        }
        let mut pre_ops = vec![];
        if !matches!(out, Out::Err(_)) {
            // close the handles whose path is touched by a namespace op
            // (sticky: only those of a file that is unlinked / replaced)
            let touched: Vec<String> = match &op {
                Op::Rename(_, b) if cfg.sticky_handles => vec![b.clone()],
                Op::Rename(a, b) => vec![a.clone(), b.clone()],
                Op::Unlink(a) | Op::RmdirAll(a) => vec![a.clone()],
                _ => vec![],
            };
            for (h, hp) in hpaths.iter().enumerate() {
                if let Some(hp) = hp {
                    if m.handles[h].is_some() && touched.iter().any(|t| hp == t || hp.starts_with(&format!("{t}/"))) {
                        pre_ops.push(Op::Close(h));
                    }
                }
            }
        }
        for c in pre_ops {
            apply_model(&mut m, &c);
            ops.push(c);
        }
        if !matches!(out, Out::Err(_)) {
            match &op {
                Op::Rename(a, _) | Op::Unlink(a) | Op::Rmdir(a) | Op::RmdirAll(a) => {
                    // everything at or below `a` is burnt
                    for c in &cands {
                        if c == a || c.starts_with(&format!("{a}/")) {
                            burnt.push(c.clone());
                        }
                    }
                }
                _ => {}
            }
        }
        if let Op::Open(p, _) = &op {
            if matches!(out, Out::Unit) {
                hpaths.push(Some(p.clone()));
            }
        }
        m = trial;
        ops.push(op);
    }
    ops
}

fn shrink(mut ops: Vec<Op>, cfg: Cfg) -> Vec<Op> {
    // cut the tail after the divergence, then drop ops one by one
    if let Some((i, _, _)) = run_trace(&ops, cfg) {
        ops.truncate((i + 1).min(ops.len()));
    }
    let mut changed = true;
    while changed {
        changed = false;
        let mut i = 0;
        while i < ops.len() {
            // handle indices shift when an Open is removed: only remove an Open when it is unused later
            let mut cand = ops.clone();
            let removed = cand.remove(i);
            if let Op::Open(..) = removed {
                // renumber handles above the removed one
                let idx = ops[..i].iter().filter(|o| matches!(o, Op::Open(..))).count();
                let mut bad = false;
                for o in cand.iter_mut() {
                    let h = match o {
                        Op::Close(h) | Op::WriteAt(h, ..) | Op::ReadAt(h, ..) | Op::Write(h, _) | Op::Read(h, _)
                        | Op::Seek(h, ..) | Op::SetLen(h, _) | Op::SyncAll(h) | Op::SyncData(h) | Op::HLen(h) => Some(h),
                        _ => None,
                    };
                    if let Some(h) = h {
                        if *h == idx {
                            bad = true;
                        } else if *h > idx {
                            *h -= 1;
                        }
                    }
                }
                if bad {
                    i += 1;
                    continue;
                }
            }
            if run_trace(&cand, cfg).is_some() {
                ops = cand;
                changed = true;
            } else {
                i += 1;
            }
        }
    }
    ops
}

fn describe(op: Option<&Op>) -> String {
    match op {
        None => "sweep".into(),
        Some(o) => format!("{o:?}").split('(').next().unwrap().to_string(),
    }
}
fn campaign(name: &str, cfg: Cfg, seeds: u64, len: usize) {
    if std::env::var("HIST").is_ok() {
        let mut hist: BTreeMap<String, usize> = BTreeMap::new();
        for seed in 1..=seeds {
            let mut rng = Rng(seed.wrapping_mul(0x9E3779B97F4A7C15) | 1);
            let ops = gen_trace(&mut rng, cfg, len);
            if let Some((i, a, b)) = run_trace(&ops, cfg) {
                let key = match (&a, &b) {
                    (Out::Err(x), Out::Err(y)) => format!("{} shim={x:?} model={y:?}", describe(ops.get(i))),
                    (Out::Err(x), _) => format!("{} shim={x:?} model=ok", describe(ops.get(i))),
                    (_, Out::Err(y)) => format!("{} shim=ok model={y:?}", describe(ops.get(i))),
                    _ => format!("{} values differ", describe(ops.get(i))),
                };
                *hist.entry(key).or_default() += 1;
            }
        }
        eprintln!("[{name}] histogram: {hist:#?}");
        return;
    }
    let mut failures = 0;
    let mut seen: Vec<String> = vec![];
    for seed in 1..=seeds {
        let mut rng = Rng(seed.wrapping_mul(0x9E3779B97F4A7C15) | 1);
        let ops = gen_trace(&mut rng, cfg, len);
        // note: open failures in the model are errors => handle numbering stays aligned because
        // only successful opens push a handle on both sides.
        if run_trace(&ops, cfg).is_some() {
            failures += 1;
            let small = shrink(ops, cfg);
            let d = run_trace(&small, cfg);
            let key = format!("{small:?}");
            if !seen.contains(&key) && seen.len() < 12 {
                eprintln!("[{name}] seed {seed}: {} ops\n  trace: {small:#?}\n  divergence (shim, model): {d:?}\n", small.len());
                seen.push(key);
            }
        }
    }
    eprintln!("[{name}] {failures}/{seeds} traces diverged");
    assert_eq!(failures, 0);
}

fn base() -> Cfg {
    Cfg { rename: false, remove: false, sync: true, sticky_handles: false, kinds: false, rename_dirs: false, reuse_names: false, errors: false }
}

#[test]
fn a_no_namespace_changes() {
    campaign("A", base(), 400, 60);
}
#[test]
fn b_with_remove_fresh_names() {
    campaign("B", Cfg { remove: true, ..base() }, 400, 60);
}
#[test]
fn c_with_file_rename_fresh_names() {
    campaign("C", Cfg { remove: true, rename: true, ..base() }, 400, 60);
}
#[test]
fn d_with_dir_rename() {
    campaign("D", Cfg { remove: true, rename: true, rename_dirs: true, ..base() }, 400, 60);
}
#[test]
fn e_errors_okerr_only() {
    campaign("E", Cfg { errors: true, ..base() }, 400, 60);
}
#[test]
fn f_errors_remove_rename() {
    campaign("F", Cfg { errors: true, remove: true, rename: true, ..base() }, 400, 60);
}
#[test]
fn g_reuse_names_no_sync() {
    campaign("G", Cfg { remove: true, rename: true, reuse_names: true, sync: false, ..base() }, 400, 60);
}
#[test]
fn h_everything() {
    campaign("H", Cfg { remove: true, rename: true, rename_dirs: true, reuse_names: true, sticky_handles: true, errors: true, ..base() }, 200, 60);
}
#[test]
fn c1_file_rename_no_sync() {
    campaign("C1", Cfg { remove: true, rename: true, sync: false, ..base() }, 600, 60);
}
#[test]
fn d1_dir_rename_no_sync() {
    campaign("D1", Cfg { remove: true, rename: true, rename_dirs: true, sync: false, ..base() }, 600, 60);
}
#[test]
fn i_sticky_handles_no_sync() {
    campaign("I", Cfg { remove: true, rename: true, rename_dirs: true, sync: false, sticky_handles: true, ..base() }, 600, 60);
}
#[test]
fn j_error_kinds_static() {
    campaign("J", Cfg { errors: true, kinds: true, ..base() }, 600, 60);
}
#[test]
fn k_error_kinds_namespace_no_sync() {
    campaign("K", Cfg { errors: true, kinds: true, remove: true, rename: true, rename_dirs: true, sync: false, ..base() }, 600, 60);
}
#[test]
fn l_errors_kinds_remove_sync() {
    campaign("L", Cfg { errors: true, kinds: true, remove: true, sticky_handles: false, ..base() }, 1000, 80);
}
#[test]
fn m_reuse_names_no_rename_no_remove_file() {
    // names are reused only through rmdir + mkdir of empty directories
    campaign("M", Cfg { errors: true, kinds: true, remove: true, reuse_names: true, ..base() }, 300, 60);
}
