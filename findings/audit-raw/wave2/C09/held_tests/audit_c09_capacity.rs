//! Audit C09: bounded FIFO model of one receive queue under bursts and
//! partial drains through every receive path (recv_from, readable +
//! try_recv_from, bare try_recv_from, readable without consuming, cancelled
//! readable / recv_from).

use std::{cell::RefCell, collections::VecDeque, net::Ipv4Addr, rc::Rc, time::Duration};

use turmoil::{net::UdpSocket, Builder};

struct Rng(u64);
impl Rng {
    fn next(&mut self) -> u64 {
        self.0 ^= self.0 << 13;
        self.0 ^= self.0 >> 7;
        self.0 ^= self.0 << 17;
        self.0.wrapping_mul(0x2545F4914F6CDD1D)
    }
    fn below(&mut self, n: usize) -> usize {
        (self.next() % n as u64) as usize
    }
}

#[derive(Default)]
struct Shared {
    /// bursts the sender still has to emit: (first id, count, loopback)
    send: VecDeque<(u32, usize)>,
    /// reader instructions: (how many to read, mode)
    read: VecDeque<(usize, u8)>,
    got: Vec<u32>,
    would_block: usize,
    stop: bool,
}

fn run(cap: usize, seed: u64, local_sender: bool) {
    let mut rng = Rng(seed.wrapping_mul(0x9E3779B97F4A7C15) | 1);
    let mut sim = Builder::new()
        .tick_duration(Duration::from_millis(1))
        .min_message_latency(Duration::from_millis(1))
        .max_message_latency(Duration::from_millis(1))
        .udp_capacity(cap)
        .build();
    let sh = Rc::new(RefCell::new(Shared::default()));

    let s1 = sh.clone();
    sim.client("rx", async move {
        let sock = Rc::new(UdpSocket::bind((Ipv4Addr::UNSPECIFIED, 9000)).await?);
        let tx_local = UdpSocket::bind((Ipv4Addr::UNSPECIFIED, 9001)).await?;
        let mut parked: Option<tokio::task::JoinHandle<()>> = None;
        loop {
            if local_sender {
                let b = s1.borrow_mut().send.pop_front();
                if let Some((first, n)) = b {
                    for i in 0..n {
                        tx_local
                            .send_to(&(first + i as u32).to_be_bytes(), (Ipv4Addr::LOCALHOST, 9000))
                            .await?;
                    }
                }
            }
            let r = s1.borrow_mut().read.pop_front();
            if let Some((n, mode)) = r {
                if let Some(p) = parked.take() {
                    p.abort();
                    let _ = p.await;
                }
                let mut buf = [0u8; 4];
                for _ in 0..n {
                    let res = match mode {
                        0 => sock.try_recv_from(&mut buf).ok(),
                        1 => {
                            let ready = tokio::select! {
                                biased;
                                r = sock.readable() => { r.unwrap(); true }
                                _ = std::future::ready(()) => false,
                            };
                            if ready {
                                Some(sock.try_recv_from(&mut buf).unwrap())
                            } else {
                                None
                            }
                        }
                        2 => tokio::select! {
                            biased;
                            r = sock.recv_from(&mut buf) => Some(r.unwrap()),
                            _ = std::future::ready(()) => None,
                        },
                        3 => {
                            // readable twice without consuming, then consume
                            let _ = tokio::select! {
                                biased;
                                r = sock.readable() => { r.unwrap(); }
                                _ = std::future::ready(()) => (),
                            };
                            let _ = tokio::select! {
                                biased;
                                r = sock.readable() => { r.unwrap(); }
                                _ = std::future::ready(()) => (),
                            };
                            sock.try_recv_from(&mut buf).ok()
                        }
                        _ => unreachable!(),
                    };
                    match res {
                        Some((4, _)) => s1.borrow_mut().got.push(u32::from_be_bytes(buf)),
                        Some(other) => panic!("odd read {other:?}"),
                        None => s1.borrow_mut().would_block += 1,
                    }
                }
                if mode == 4 {
                    // leave a readable() pending / completed in a task
                    let s = sock.clone();
                    parked = Some(tokio::task::spawn_local(async move {
                        s.readable().await.unwrap();
                    }));
                }
            }
            if s1.borrow().stop {
                if let Some(p) = parked.take() {
                    p.abort();
                    let _ = p.await;
                }
                return Ok(());
            }
            tokio::time::sleep(Duration::from_millis(1)).await;
        }
    });

    let s2 = sh.clone();
    sim.client("tx", async move {
        let sock = UdpSocket::bind((Ipv4Addr::UNSPECIFIED, 0)).await?;
        loop {
            if !local_sender {
                let b = s2.borrow_mut().send.pop_front();
                if let Some((first, n)) = b {
                    for i in 0..n {
                        sock.send_to(&(first + i as u32).to_be_bytes(), ("rx", 9000)).await?;
                    }
                }
            }
            if s2.borrow().stop {
                return Ok(());
            }
            tokio::time::sleep(Duration::from_millis(1)).await;
        }
    });

    let mut model: VecDeque<u32> = VecDeque::new();
    let mut next = 1u32;
    for round in 0..40 {
        let ctx = format!("cap={cap} seed={seed} local={local_sender} round={round}");
        // burst
        let n = rng.below(cap + 3);
        sh.borrow_mut().send.push_back((next, n));
        for i in 0..n {
            if model.len() < cap {
                model.push_back(next + i as u32);
            }
        }
        next += n as u32;
        for _ in 0..5 {
            sim.step().unwrap();
        }
        // partial drain
        let k = rng.below(cap + 2);
        let mode = rng.below(5) as u8;
        // mode 4: "park" = read nothing now, leave readable() in a task
        let (k, mode) = if mode == 4 { (0, 4) } else { (k, mode) };
        sh.borrow_mut().read.push_back((k, mode));
        for _ in 0..3 {
            sim.step().unwrap();
        }
        let mut want = vec![];
        let mut wb = 0;
        for _ in 0..k {
            match model.pop_front() {
                Some(id) => want.push(id),
                None => wb += 1,
            }
        }
        let got = std::mem::take(&mut sh.borrow_mut().got);
        let got_wb = std::mem::take(&mut sh.borrow_mut().would_block);
        assert_eq!(got, want, "{ctx}: mode {mode} reading {k}");
        assert_eq!(got_wb, wb, "{ctx}: would-block count");
    }
    sh.borrow_mut().stop = true;
    sim.run().unwrap();
}

#[test]
fn bounded_fifo_remote_sender() {
    for cap in [1usize, 2, 3, 7] {
        for seed in 1..=60 {
            run(cap, seed, false);
        }
    }
}

#[test]
fn bounded_fifo_loopback_sender() {
    for cap in [1usize, 2, 3, 7] {
        for seed in 1..=60 {
            run(cap, seed, true);
        }
    }
}
