//! Audit C09: model-based random test of turmoil::net UDP routing.
//!
//! A driver pushes commands to per-host interpreters between `Sim::step`
//! calls and compares what every socket receives with a specification model
//! (targets, origin address, payload, at-most-once, exactly-once within the
//! capacity).

use std::{
    cell::RefCell,
    collections::{HashMap, HashSet, VecDeque},
    io::ErrorKind,
    net::{IpAddr, Ipv4Addr, Ipv6Addr, SocketAddr},
    rc::Rc,
    time::Duration,
};

use tokio::task::JoinHandle;
use turmoil::{net::UdpSocket, Builder, IpVersion};

const SLOTS: usize = 3;
const EPH: std::ops::RangeInclusive<u16> = 49152..=49156;

struct Rng(u64);
impl Rng {
    fn next(&mut self) -> u64 {
        self.0 ^= self.0 << 13;
        self.0 ^= self.0 >> 7;
        self.0 ^= self.0 << 17;
        self.0.wrapping_mul(0x2545F4914F6CDD1D)
    }
    fn below(&mut self, n: usize) -> usize {
        (self.next() % n as u64) as usize
    }
    fn chance(&mut self, pct: usize) -> bool {
        self.below(100) < pct
    }
}

#[derive(Clone, Debug)]
enum Cmd {
    Bind { slot: usize, local: bool, port: u16 },
    Close { slot: usize },
    Connect { slot: usize, peer: SocketAddr },
    Join { slot: usize, group: IpAddr },
    Leave { slot: usize, group: IpAddr },
    Broadcast { slot: usize, on: bool },
    Send { slot: usize, dst: SocketAddr, id: u32, len: usize, try_: bool },
    Park { slot: usize },
    Unpark { slot: usize },
    Drain { slot: usize, mode: u8, buflen: usize },
}

#[derive(Debug)]
enum Ev {
    Bound { host: usize, slot: usize, res: Result<SocketAddr, ErrorKind> },
    Joined { host: usize, slot: usize, res: Result<(), ErrorKind> },
    Left { host: usize, slot: usize, res: Result<(), ErrorKind> },
    Sent { host: usize, id: u32, res: Result<usize, ErrorKind> },
    Recv { host: usize, slot: usize, origin: SocketAddr, n: usize, data: Vec<u8> },
}

#[derive(Default)]
struct Shared {
    queues: Vec<VecDeque<Cmd>>,
    events: Vec<Ev>,
    stop: bool,
}

fn payload(id: u32, len: usize) -> Vec<u8> {
    let mut v = id.to_be_bytes().to_vec();
    let mut i = 0u32;
    while v.len() < len {
        v.push((id.wrapping_mul(31).wrapping_add(i)) as u8);
        i += 1;
    }
    v
}

async fn run_host(h: usize, sh: Rc<RefCell<Shared>>) -> turmoil::Result {
    let mut socks: Vec<Option<Rc<UdpSocket>>> = (0..SLOTS).map(|_| None).collect();
    let mut parked: Vec<Option<JoinHandle<()>>> = (0..SLOTS).map(|_| None).collect();
    loop {
        loop {
            let cmd = sh.borrow_mut().queues[h].pop_front();
            let Some(cmd) = cmd else { break };
            match cmd {
                Cmd::Bind { slot, local, port } => {
                    assert!(socks[slot].is_none());
                    let v6 = turmoil::lookup("h0").is_ipv6();
                    let ip: IpAddr = match (v6, local) {
                        (false, false) => Ipv4Addr::UNSPECIFIED.into(),
                        (false, true) => Ipv4Addr::LOCALHOST.into(),
                        (true, false) => Ipv6Addr::UNSPECIFIED.into(),
                        (true, true) => Ipv6Addr::LOCALHOST.into(),
                    };
                    let res = UdpSocket::bind((ip, port)).await;
                    let ev = match res {
                        Ok(s) => {
                            let a = s.local_addr().unwrap();
                            socks[slot] = Some(Rc::new(s));
                            Ok(a)
                        }
                        Err(e) => Err(e.kind()),
                    };
                    sh.borrow_mut().events.push(Ev::Bound { host: h, slot, res: ev });
                }
                Cmd::Close { slot } => {
                    if let Some(p) = parked[slot].take() {
                        p.abort();
                        let _ = p.await;
                    }
                    let s = socks[slot].take().unwrap();
                    assert_eq!(Rc::strong_count(&s), 1);
                    drop(s);
                }
                Cmd::Connect { slot, peer } => {
                    socks[slot].as_ref().unwrap().connect(peer).await.unwrap();
                }
                Cmd::Join { slot, group } => {
                    let s = socks[slot].as_ref().unwrap();
                    let res = match group {
                        IpAddr::V4(g) => s.join_multicast_v4(g, Ipv4Addr::UNSPECIFIED),
                        IpAddr::V6(g) => s.join_multicast_v6(&g, 0),
                    };
                    sh.borrow_mut().events.push(Ev::Joined {
                        host: h,
                        slot,
                        res: res.map_err(|e| e.kind()),
                    });
                }
                Cmd::Leave { slot, group } => {
                    let s = socks[slot].as_ref().unwrap();
                    let res = match group {
                        IpAddr::V4(g) => s.leave_multicast_v4(g, Ipv4Addr::UNSPECIFIED),
                        IpAddr::V6(g) => s.leave_multicast_v6(&g, 0),
                    };
                    sh.borrow_mut().events.push(Ev::Left {
                        host: h,
                        slot,
                        res: res.map_err(|e| e.kind()),
                    });
                }
                Cmd::Broadcast { slot, on } => {
                    socks[slot].as_ref().unwrap().set_broadcast(on).unwrap();
                }
                Cmd::Send { slot, dst, id, len, try_ } => {
                    let s = socks[slot].as_ref().unwrap();
                    let p = payload(id, len);
                    let res = if try_ {
                        s.try_send_to(&p, dst)
                    } else {
                        s.send_to(&p, dst).await
                    };
                    sh.borrow_mut().events.push(Ev::Sent {
                        host: h,
                        id,
                        res: res.map_err(|e| e.kind()),
                    });
                }
                Cmd::Park { slot } => {
                    let s = socks[slot].as_ref().unwrap().clone();
                    assert!(parked[slot].is_none());
                    parked[slot] = Some(tokio::task::spawn_local(async move {
                        s.readable().await.unwrap();
                    }));
                }
                Cmd::Unpark { slot } => {
                    if let Some(p) = parked[slot].take() {
                        p.abort();
                        let _ = p.await;
                    }
                }
                Cmd::Drain { slot, mode, buflen } => {
                    let s = socks[slot].as_ref().unwrap();
                    loop {
                        let mut buf = vec![0xEEu8; buflen];
                        let got = match mode {
                            0 => s.try_recv_from(&mut buf).ok(),
                            1 => {
                                // readable() polled once, then try_recv_from
                                let ready = tokio::select! {
                                    biased;
                                    r = s.readable() => { r.unwrap(); true }
                                    _ = std::future::ready(()) => false,
                                };
                                if ready {
                                    Some(s.try_recv_from(&mut buf).expect("readable then WouldBlock"))
                                } else {
                                    None
                                }
                            }
                            _ => {
                                tokio::select! {
                                    biased;
                                    r = s.recv_from(&mut buf) => Some(r.unwrap()),
                                    _ = std::future::ready(()) => None,
                                }
                            }
                        };
                        let Some((n, origin)) = got else { break };
                        assert!(buf[n..].iter().all(|b| *b == 0xEE), "wrote past n");
                        sh.borrow_mut().events.push(Ev::Recv {
                            host: h,
                            slot,
                            origin,
                            n,
                            data: buf[..n].to_vec(),
                        });
                    }
                }
            }
        }
        if sh.borrow().stop {
            return Ok(());
        }
        tokio::time::sleep(Duration::from_millis(1)).await;
    }
}

#[derive(Clone, Debug)]
struct MSock {
    local: bool,
    port: u16,
    connected: Option<SocketAddr>,
    groups: HashSet<IpAddr>,
    broadcast: bool,
}

struct Expect {
    origin: SocketAddr,
    len: usize,
}

struct Scenario {
    v6: bool,
    hosts: usize,
    capacity: usize,
    min_lat: u64,
    max_lat: u64,
    random_order: bool,
    seed: u64,
}

fn run_scenario(sc: &Scenario) {
    let mut rng = Rng(sc.seed.wrapping_mul(0x9E3779B97F4A7C15) | 1);
    let mut b = Builder::new();
    b.ip_version(if sc.v6 { IpVersion::V6 } else { IpVersion::V4 })
        .tick_duration(Duration::from_millis(1))
        .min_message_latency(Duration::from_millis(sc.min_lat))
        .max_message_latency(Duration::from_millis(sc.max_lat))
        .udp_capacity(sc.capacity)
        .ephemeral_ports(EPH)
        .rng_seed(sc.seed)
        .simulation_duration(Duration::from_secs(3600));
    if sc.random_order {
        b.enable_random_order();
    }
    let mut sim = b.build();
    let sh = Rc::new(RefCell::new(Shared::default()));
    for h in 0..sc.hosts {
        sh.borrow_mut().queues.push(VecDeque::new());
        let sh2 = sh.clone();
        sim.client(format!("h{h}"), run_host(h, sh2));
    }
    let addrs: Vec<IpAddr> = (0..sc.hosts).map(|h| sim.lookup(format!("h{h}"))).collect();
    let lo: IpAddr = if sc.v6 {
        Ipv6Addr::LOCALHOST.into()
    } else {
        Ipv4Addr::LOCALHOST.into()
    };
    let groups: Vec<IpAddr> = if sc.v6 {
        vec!["ff08::1".parse().unwrap(), "ff08::2".parse().unwrap()]
    } else {
        vec!["239.0.0.1".parse().unwrap(), "239.0.0.2".parse().unwrap()]
    };
    let ports = [9000u16, 9001, 0];

    let mut model: Vec<Vec<Option<MSock>>> = vec![vec![None; SLOTS]; sc.hosts];
    let mut next_id: u32 = 1;
    let ctx = format!(
        "v6={} hosts={} cap={} lat={}..{} rand={} seed={}",
        sc.v6, sc.hosts, sc.capacity, sc.min_lat, sc.max_lat, sc.random_order, sc.seed
    );

    for round in 0..8 {
        let ctx = format!("{ctx} round={round}");
        // ---- config phase
        let mut pending_binds: Vec<(usize, usize, bool, u16)> = vec![];
        let mut pending_leave: HashMap<(usize, usize), VecDeque<bool>> = HashMap::new();
        let n_ops = 2 + rng.below(6);
        for pass in 0..2 {
        for _ in 0..n_ops {
            let h = rng.below(sc.hosts);
            let slot = rng.below(SLOTS);
            let q = &mut sh.borrow_mut().queues[h];
            match model[h][slot].clone() {
                None => {
                    if pass == 0 || pending_binds.iter().any(|p| p.0 == h && p.1 == slot) {
                        continue;
                    }
                    let local = rng.chance(25);
                    let port = ports[rng.below(ports.len())];
                    q.push_back(Cmd::Bind { slot, local, port });
                    pending_binds.push((h, slot, local, port));
                }
                Some(_) if pass == 1 => continue,
                Some(ms) => match rng.below(8) {
                    0 | 1 => {
                        q.push_back(Cmd::Close { slot });
                        model[h][slot] = None;
                    }
                    2 => {
                        // connect to a plausible origin
                        let ph = rng.below(sc.hosts);
                        let ip = if ph == h && rng.chance(50) { lo } else { addrs[ph] };
                        let port = match rng.below(3) {
                            0 => 9000,
                            1 => 9001,
                            _ => *EPH.start() + rng.below(3) as u16,
                        };
                        let peer = SocketAddr::new(ip, port);
                        q.push_back(Cmd::Connect { slot, peer });
                        model[h][slot].as_mut().unwrap().connected = Some(peer);
                    }
                    3 | 4 => {
                        let g = groups[rng.below(2)];
                        q.push_back(Cmd::Join { slot, group: g });
                        model[h][slot].as_mut().unwrap().groups.insert(g);
                    }
                    5 | 6 => {
                        let g = groups[rng.below(2)];
                        q.push_back(Cmd::Leave { slot, group: g });
                        let was = model[h][slot].as_mut().unwrap().groups.remove(&g);
                        pending_leave.entry((h, slot)).or_default().push_back(was);
                    }
                    _ => {
                        if !sc.v6 {
                            let on = rng.chance(70);
                            q.push_back(Cmd::Broadcast { slot, on });
                            model[h][slot].as_mut().unwrap().broadcast = on;
                        }
                        let _ = ms;
                    }
                },
            }
        }
        sim.step().unwrap();
        sim.step().unwrap();
        }
        let evs: Vec<Ev> = std::mem::take(&mut sh.borrow_mut().events);
        for ev in evs {
            match ev {
                Ev::Bound { host, slot, res } => {
                    let idx = pending_binds
                        .iter()
                        .position(|p| p.0 == host && p.1 == slot)
                        .unwrap();
                    let (_, _, local, port) = pending_binds.remove(idx);
                    let in_use = |p: u16| model[host].iter().flatten().any(|s| s.port == p);
                    match res {
                        Ok(addr) => {
                            if port != 0 {
                                assert_eq!(addr.port(), port, "{ctx}");
                                assert!(!in_use(port), "{ctx}: bind to used port succeeded");
                            } else {
                                assert!(EPH.contains(&addr.port()), "{ctx}");
                                assert!(!in_use(addr.port()), "{ctx}: ephemeral port in use");
                            }
                            assert_eq!(addr.ip().is_loopback(), local, "{ctx}");
                            model[host][slot] = Some(MSock {
                                local,
                                port: addr.port(),
                                connected: None,
                                groups: HashSet::new(),
                                broadcast: false,
                            });
                        }
                        Err(kind) => {
                            assert_eq!(kind, ErrorKind::AddrInUse, "{ctx}");
                            assert!(port != 0 && in_use(port), "{ctx}: spurious AddrInUse");
                        }
                    }
                }
                Ev::Joined { res, .. } => assert!(res.is_ok(), "{ctx}"),
                Ev::Left { host, slot, res } => {
                    let was = pending_leave.get_mut(&(host, slot)).unwrap().pop_front().unwrap();
                    if was {
                        assert_eq!(res, Ok(()), "{ctx}: leave of a joined group");
                    } else {
                        assert_eq!(res, Err(ErrorKind::AddrNotAvailable), "{ctx}: leave of a group not joined");
                    }
                }
                other => panic!("{ctx}: unexpected event {other:?}"),
            }
        }
        assert!(pending_binds.is_empty(), "{ctx}: bind without result");

        // ---- optionally park readable() on some sockets
        for h in 0..sc.hosts {
            for slot in 0..SLOTS {
                if model[h][slot].is_some() && rng.chance(30) {
                    sh.borrow_mut().queues[h].push_back(Cmd::Park { slot });
                }
            }
        }
        sim.step().unwrap();

        // ---- send phase
        let mut expected: HashMap<(usize, usize), HashMap<u32, Expect>> = HashMap::new();
        let mut send_expect: HashMap<u32, Result<usize, ErrorKind>> = HashMap::new();
        let send_steps = 1 + rng.below(3);
        for _ in 0..send_steps {
            for _ in 0..rng.below(8) {
                let h = rng.below(sc.hosts);
                let live: Vec<usize> = (0..SLOTS).filter(|s| model[h][*s].is_some()).collect();
                if live.is_empty() {
                    continue;
                }
                let slot = live[rng.below(live.len())];
                let s = model[h][slot].clone().unwrap();
                let dport = match rng.below(4) {
                    0 => 9000,
                    1 => 9001,
                    2 => 9002, // never bound
                    _ => {
                        // some live socket's port anywhere
                        let all: Vec<u16> = model
                            .iter()
                            .flat_map(|hs| hs.iter().flatten().map(|s| s.port))
                            .collect();
                        all[rng.below(all.len())]
                    }
                };
                #[derive(PartialEq)]
                enum K {
                    Lo,
                    Host(usize),
                    Bcast,
                    Mcast(IpAddr),
                }
                let kind = match rng.below(10) {
                    0 | 1 => K::Lo,
                    2 | 3 | 4 | 5 => K::Host(rng.below(sc.hosts)),
                    6 | 7 => {
                        if sc.v6 {
                            K::Mcast(groups[rng.below(2)])
                        } else {
                            K::Bcast
                        }
                    }
                    _ => K::Mcast(groups[rng.below(2)]),
                };
                if s.local && matches!(kind, K::Bcast | K::Mcast(_)) {
                    continue;
                }
                let id = next_id;
                next_id += 1;
                let len = 4 + rng.below(40);
                let my = addrs[h];
                let (dst, res, targets): (SocketAddr, Result<usize, ErrorKind>, Vec<(usize, usize, SocketAddr)>) =
                    match kind {
                        K::Lo => {
                            let origin = SocketAddr::new(lo, s.port);
                            let t = (0..SLOTS)
                                .filter(|x| model[h][*x].as_ref().map(|r| r.port == dport).unwrap_or(false))
                                .map(|x| (h, x, origin))
                                .collect();
                            (SocketAddr::new(lo, dport), Ok(len), t)
                        }
                        K::Host(d) => {
                            let dst = SocketAddr::new(addrs[d], dport);
                            if s.local {
                                (dst, Err(ErrorKind::ConnectionRefused), vec![])
                            } else {
                                let origin = SocketAddr::new(my, s.port);
                                let t = (0..SLOTS)
                                    .filter(|x| {
                                        model[d][*x]
                                            .as_ref()
                                            .map(|r| r.port == dport && !r.local)
                                            .unwrap_or(false)
                                    })
                                    .map(|x| (d, x, origin))
                                    .collect();
                                (dst, Ok(len), t)
                            }
                        }
                        K::Bcast => {
                            let dst = SocketAddr::new(Ipv4Addr::BROADCAST.into(), dport);
                            if !s.broadcast {
                                (dst, Err(ErrorKind::PermissionDenied), vec![])
                            } else {
                                let origin = SocketAddr::new(my, s.port);
                                let mut t = vec![];
                                for d in 0..sc.hosts {
                                    for x in 0..SLOTS {
                                        if let Some(r) = &model[d][x] {
                                            if r.port == dport && !r.local {
                                                t.push((d, x, origin));
                                            }
                                        }
                                    }
                                }
                                (dst, Ok(len), t)
                            }
                        }
                        K::Mcast(g) => {
                            let dst = SocketAddr::new(g, dport);
                            let origin = SocketAddr::new(my, s.port);
                            let mut t = vec![];
                            for d in 0..sc.hosts {
                                for x in 0..SLOTS {
                                    if let Some(r) = &model[d][x] {
                                        if r.port == dport && !r.local && r.groups.contains(&g) {
                                            t.push((d, x, origin));
                                        }
                                    }
                                }
                            }
                            (dst, Ok(len), t)
                        }
                    };
                sh.borrow_mut().queues[h].push_back(Cmd::Send {
                    slot,
                    dst,
                    id,
                    len,
                    try_: rng.chance(40),
                });
                send_expect.insert(id, res);
                for (d, x, origin) in targets {
                    let r = model[d][x].as_ref().unwrap();
                    if let Some(peer) = r.connected {
                        if peer != origin {
                            continue;
                        }
                    }
                    expected
                        .entry((d, x))
                        .or_default()
                        .insert(id, Expect { origin, len });
                }
            }
            sim.step().unwrap();
        }
        // ---- quiesce
        for _ in 0..(sc.max_lat + 4) {
            sim.step().unwrap();
        }
        // ---- drain
        let mut buflens: HashMap<(usize, usize), usize> = HashMap::new();
        for h in 0..sc.hosts {
            for slot in 0..SLOTS {
                if model[h][slot].is_some() {
                    let buflen = [4usize, 8, 16, 64][rng.below(4)];
                    buflens.insert((h, slot), buflen);
                    let mut sh = sh.borrow_mut();
                    sh.queues[h].push_back(Cmd::Unpark { slot });
                    sh.queues[h].push_back(Cmd::Drain {
                        slot,
                        mode: rng.below(3) as u8,
                        buflen,
                    });
                }
            }
        }
        sim.step().unwrap();
        sim.step().unwrap();
        let evs: Vec<Ev> = std::mem::take(&mut sh.borrow_mut().events);
        let mut got: HashMap<(usize, usize), HashSet<u32>> = HashMap::new();
        for ev in evs {
            match ev {
                Ev::Sent { host, id, res } => {
                    let want = send_expect.remove(&id).unwrap();
                    assert_eq!(res, want, "{ctx}: send {id} from host {host}");
                }
                Ev::Recv { host, slot, origin, n, data } => {
                    assert!(n >= 4);
                    let id = u32::from_be_bytes(data[..4].try_into().unwrap());
                    let exp = expected
                        .get(&(host, slot))
                        .and_then(|m| m.get(&id))
                        .unwrap_or_else(|| {
                            panic!(
                                "{ctx}: socket {host}/{slot} ({:?}) received datagram {id} from {origin} that does not target it",
                                model[host][slot]
                            )
                        });
                    assert_eq!(origin, exp.origin, "{ctx}: origin of {id}");
                    let buflen = buflens[&(host, slot)];
                    let p = payload(id, exp.len);
                    let want_n = exp.len.min(buflen);
                    assert_eq!(n, want_n, "{ctx}: length of {id}");
                    assert_eq!(&data[..], &p[..want_n], "{ctx}: payload of {id}");
                    assert!(
                        got.entry((host, slot)).or_default().insert(id),
                        "{ctx}: datagram {id} received twice by {host}/{slot}"
                    );
                }
                other => panic!("{ctx}: unexpected event {other:?}"),
            }
        }
        assert!(send_expect.is_empty(), "{ctx}: send without result");
        STATS.with(|st| {
            let mut st = st.borrow_mut();
            st.0 += got.values().map(|s| s.len()).sum::<usize>();
            st.1 += expected.values().map(|m| m.len()).sum::<usize>();
            st.2 += expected.values().filter(|m| m.len() > sc.capacity).count();
        });
        for (key, exp) in &expected {
            let n = got.get(key).map(|s| s.len()).unwrap_or(0);
            let want = exp.len().min(sc.capacity);
            assert_eq!(
                n, want,
                "{ctx}: socket {key:?} ({:?}) received {n} of {} targeted datagrams (capacity {})",
                model[key.0][key.1],
                exp.len(),
                sc.capacity
            );
        }
    }
    sh.borrow_mut().stop = true;
    sim.run().unwrap();
}

thread_local! { static STATS: RefCell<(usize, usize, usize)> = RefCell::new((0,0,0)); }

#[test]
fn model_v4() {
    for seed in 1..=std::env::var("C09_SEEDS").ok().and_then(|s| s.parse().ok()).unwrap_or(150u64) {
        for (hosts, cap, lat, ro) in [(2, 1, (1, 1), false), (3, 2, (0, 10), true), (4, 64, (0, 5), true), (4, 3, (2, 2), false)] {
            run_scenario(&Scenario {
                v6: false,
                hosts,
                capacity: cap,
                min_lat: lat.0,
                max_lat: lat.1,
                random_order: ro,
                seed,
            });
        }
    }
    STATS.with(|s| println!("received / targeted / overflowing sockets: {:?}", s.borrow()));
}

#[test]
fn model_v6() {
    for seed in 1..=std::env::var("C09_SEEDS").ok().and_then(|s| s.parse().ok()).unwrap_or(150u64) {
        for (hosts, cap, lat, ro) in [(2, 1, (1, 1), false), (3, 2, (0, 10), true), (4, 64, (0, 5), true), (4, 3, (2, 2), false)] {
            run_scenario(&Scenario {
                v6: true,
                hosts,
                capacity: cap,
                min_lat: lat.0,
                max_lat: lat.1,
                random_order: ro,
                seed,
            });
        }
    }
    STATS.with(|s| println!("received / targeted / overflowing sockets: {:?}", s.borrow()));
}
