//! Model based random test of explicit partitions over TCP (bidirectional
//! streams, one per unordered host pair, re-established after a repair).
//! cargo test -p turmoil --offline --test audit_c03_2

use rand::{rngs::SmallRng, Rng, SeedableRng};
use std::cell::RefCell;
use std::collections::HashMap;
use std::future::poll_fn;
use std::io;
use std::net::{IpAddr, Ipv4Addr, SocketAddr};
use std::pin::Pin;
use std::rc::Rc;
use std::task::Poll;
use std::time::Duration;
use tokio::io::{AsyncRead, ReadBuf};
use turmoil::net::{TcpListener, TcpStream};
use turmoil::{Builder, Sim};

const PORT: u16 = 9001;

#[derive(Clone, Debug)]
enum Kind {
    Partition,
    PartitionOneway,
    Repair,
    RepairOneway,
}

#[derive(Clone, Debug)]
struct Action {
    kind: Kind,
    a: usize,
    b: usize,
    by_ip: bool,
}

#[derive(Debug, Clone)]
struct Msg {
    src: usize,
    dst: usize,
    stream: usize,
    sent_step: usize,
    blocked_at_send: bool,
    must_drop: Option<String>,
    excused: Option<&'static str>,
    received_step: Option<usize>,
}

#[derive(Debug)]
struct Stream {
    init: usize,
    acc: usize,
    closed: bool,
    // [init->acc, acc->init]
    tainted: [bool; 2],
}

struct Shared {
    ips: Vec<IpAddr>,
    blocked: [[bool; 4]; 4],
    msgs: Vec<Msg>,
    streams: Vec<Stream>,
    by_addr: HashMap<SocketAddr, usize>,
    step: usize,
    host_actions: HashMap<(usize, usize), Vec<Action>>,
    sending: bool,
    log: Vec<String>,
}

impl Shared {
    fn dir(&self, stream: usize, src: usize) -> usize {
        if self.streams[stream].init == src {
            0
        } else {
            1
        }
    }
}

fn model_apply(sh: &mut Shared, act: &Action, who: &str) {
    let step = sh.step;
    sh.log.push(format!("step {step} {who}: {act:?}"));
    let (x, y) = (act.a, act.b);
    let dirs: Vec<(usize, usize, bool)> = match act.kind {
        Kind::Partition => vec![(x, y, true), (y, x, true)],
        Kind::PartitionOneway => vec![(x, y, true)],
        Kind::Repair => vec![(x, y, false), (y, x, false)],
        Kind::RepairOneway => vec![(x, y, false)],
    };
    for (s, d, block) in dirs {
        sh.blocked[s][d] = block;
        if block {
            let mut taint = Vec::new();
            for m in sh.msgs.iter_mut() {
                if m.src == s && m.dst == d && m.received_step.is_none() && m.must_drop.is_none() {
                    m.must_drop = Some(format!("step {step} {who}: {:?}", act.kind));
                    taint.push((m.stream, m.src));
                }
            }
            for (st, src) in taint {
                let dir = sh.dir(st, src);
                sh.streams[st].tainted[dir] = true;
            }
        }
    }
}

macro_rules! dispatch {
    ($sh:expr, $act:expr, $($f:tt)+) => {{
        if $act.by_ip {
            $($f)+($sh.ips[$act.a], $sh.ips[$act.b])
        } else {
            $($f)+(format!("n{}", $act.a), format!("n{}", $act.b))
        }
    }};
}

fn host_apply(sh: &Shared, act: &Action) {
    match act.kind {
        Kind::Partition => dispatch!(sh, act, turmoil::partition),
        Kind::PartitionOneway => dispatch!(sh, act, turmoil::partition_oneway),
        Kind::Repair => dispatch!(sh, act, turmoil::repair),
        Kind::RepairOneway => dispatch!(sh, act, turmoil::repair_oneway),
    }
}

fn sim_apply(sim: &Sim<'_>, sh: &Shared, act: &Action) {
    match act.kind {
        Kind::Partition => dispatch!(sh, act, sim.partition),
        Kind::PartitionOneway => dispatch!(sh, act, sim.partition_oneway),
        Kind::Repair => dispatch!(sh, act, sim.repair),
        Kind::RepairOneway => dispatch!(sh, act, sim.repair_oneway),
    }
}

fn gen_action(rng: &mut SmallRng, n: usize, by_name: bool) -> Action {
    let kind = match rng.random_range(0..4) {
        0 => Kind::Partition,
        1 => Kind::PartitionOneway,
        2 => Kind::Repair,
        _ => Kind::RepairOneway,
    };
    let a = rng.random_range(0..n);
    let mut b = rng.random_range(0..n - 1);
    if b >= a {
        b += 1;
    }
    Action {
        kind,
        a,
        b,
        by_ip: !by_name || rng.random_bool(0.3),
    }
}

struct Params {
    seed: u64,
    n: usize,
    by_name: bool,
    fail_rate: f64,
    repair_rate: f64,
    fixed_latency: Option<u64>,
    steps: usize,
    random_order: bool,
    low_initiates: bool,
    action_rate: f64,
}

async fn try_read(s: &mut TcpStream, buf: &mut [u8]) -> Option<io::Result<usize>> {
    poll_fn(|cx| {
        let mut rb = ReadBuf::new(buf);
        match Pin::new(&mut *s).poll_read(cx, &mut rb) {
            Poll::Ready(r) => Poll::Ready(Some(r.map(|_| rb.filled().len()))),
            Poll::Pending => Poll::Ready(None),
        }
    })
    .await
}

// Returns false when the stream is finished (EOF / reset).
async fn drain(s: &mut TcpStream, me: usize, shared: &Rc<RefCell<Shared>>) -> bool {
    let mut buf = [0u8; 8];
    loop {
        match try_read(s, &mut buf).await {
            None => return true,
            Some(Ok(0)) | Some(Err(_)) => return false,
            Some(Ok(len)) => {
                assert_eq!(len, 8);
                let id = u64::from_be_bytes(buf) as usize;
                let mut sh = shared.borrow_mut();
                let step = sh.step;
                assert_eq!(sh.msgs[id].dst, me);
                assert!(sh.msgs[id].received_step.is_none(), "duplicate");
                sh.msgs[id].received_step = Some(step);
            }
        }
    }
}

fn write_one(s: &TcpStream, me: usize, peer: usize, stream: usize, shared: &Rc<RefCell<Shared>>) {
    let id = {
        let mut sh = shared.borrow_mut();
        let dir = sh.dir(stream, me);
        let id = sh.msgs.len();
        let blocked = sh.blocked[me][peer];
        let excused = if sh.streams[stream].closed {
            Some("closed")
        } else if sh.streams[stream].tainted[dir] {
            Some("tainted")
        } else {
            None
        };
        let step = sh.step;
        sh.msgs.push(Msg {
            src: me,
            dst: peer,
            stream,
            sent_step: step,
            blocked_at_send: blocked,
            must_drop: None,
            excused,
            received_step: None,
        });
        if blocked {
            sh.streams[stream].tainted[dir] = true;
        }
        id
    };
    match s.try_write(&(id as u64).to_be_bytes()) {
        Ok(8) => {}
        other => {
            // The write did not go out: nothing to expect.
            let mut sh = shared.borrow_mut();
            sh.msgs[id].excused = Some("write failed");
            let _ = other;
        }
    }
}

fn run(p: &Params) -> Result<(), String> {
    let mut rng = SmallRng::seed_from_u64(p.seed);
    let mut b = Builder::new();
    b.rng_seed(p.seed)
        .tick_duration(Duration::from_millis(1))
        .tcp_capacity(1 << 14)
        .fail_rate(p.fail_rate)
        .repair_rate(p.repair_rate)
        .simulation_duration(Duration::from_secs(1000));
    if let Some(l) = p.fixed_latency {
        b.min_message_latency(Duration::from_millis(l));
        b.max_message_latency(Duration::from_millis(l));
    } else {
        b.max_message_latency(Duration::from_millis(20));
    }
    if p.random_order {
        b.enable_random_order();
    }
    let mut sim = b.build();

    let n = p.n;
    let mut ips: Vec<IpAddr> = Vec::new();
    if p.by_name {
        for i in 0..n {
            ips.push(sim.lookup(format!("n{i}")));
        }
    } else {
        let mut pool: Vec<u8> = (1..=20).collect();
        for _ in 0..n {
            let k = rng.random_range(0..pool.len());
            let o = pool.remove(k);
            ips.push(IpAddr::V4(Ipv4Addr::new(10, 0, 0, o)));
        }
    }

    let shared = Rc::new(RefCell::new(Shared {
        ips: ips.clone(),
        blocked: [[false; 4]; 4],
        msgs: Vec::new(),
        streams: Vec::new(),
        by_addr: HashMap::new(),
        step: 0,
        host_actions: HashMap::new(),
        sending: true,
        log: Vec::new(),
    }));

    let mut sim_actions: HashMap<usize, Vec<Action>> = HashMap::new();
    for step in 5..=p.steps {
        if rng.random_bool(p.action_rate) {
            sim_actions
                .entry(step)
                .or_default()
                .push(gen_action(&mut rng, n, p.by_name));
        }
        for h in 0..n {
            if rng.random_bool(p.action_rate / 3.0) {
                shared
                    .borrow_mut()
                    .host_actions
                    .entry((h, step))
                    .or_default()
                    .push(gen_action(&mut rng, n, p.by_name));
            }
        }
    }

    let low_initiates = p.low_initiates;
    for i in 0..n {
        let shared = shared.clone();
        let f = move || {
            let shared = shared.clone();
            async move {
                let listener = TcpListener::bind(("0.0.0.0", PORT)).await?;
                let accepted: Rc<RefCell<Vec<(TcpStream, SocketAddr)>>> = Default::default();
                {
                    let accepted = accepted.clone();
                    tokio::task::spawn_local(async move {
                        loop {
                            let (s, a) = listener.accept().await.unwrap();
                            accepted.borrow_mut().push((s, a));
                        }
                    });
                }
                let (n, ips) = {
                    let sh = shared.borrow();
                    (sh.ips.len(), sh.ips.clone())
                };
                // inbound (accepted) streams
                let mut inbound: Vec<(usize, SocketAddr, TcpStream)> = Vec::new();
                // outbound streams by peer
                let mut current: Vec<Option<(usize, TcpStream)>> = (0..n).map(|_| None).collect();
                type Slot = Rc<RefCell<Option<io::Result<TcpStream>>>>;
                let mut connecting: Vec<Option<Slot>> = (0..n).map(|_| None).collect();

                loop {
                    // 0. accepted streams
                    for (s, a) in accepted.borrow_mut().drain(..) {
                        let peer = ips.iter().position(|ip| *ip == a.ip()).unwrap();
                        inbound.push((peer, a, s));
                    }
                    // 1. drain everything readable
                    let mut k = 0;
                    while k < inbound.len() {
                        if drain(&mut inbound[k].2, i, &shared).await {
                            k += 1;
                        } else {
                            inbound.remove(k);
                        }
                    }
                    for j in 0..n {
                        if let Some((_, s)) = current[j].as_mut() {
                            let alive = drain(s, i, &shared).await;
                            assert!(alive, "outbound stream of n{i} to n{j} ended");
                        }
                    }
                    // 2. host issued actions
                    {
                        let mut sh = shared.borrow_mut();
                        let step = sh.step;
                        if let Some(acts) = sh.host_actions.remove(&(i, step)) {
                            for act in acts {
                                model_apply(&mut sh, &act, &format!("host n{i}"));
                                host_apply(&sh, &act);
                            }
                        }
                    }
                    // 3. connection management (initiator side)
                    for j in 0..n {
                        if j == i || (i < j) != low_initiates {
                            continue;
                        }
                        let healthy = {
                            let sh = shared.borrow();
                            !sh.blocked[i][j] && !sh.blocked[j][i]
                        };
                        if let Some((id, _)) = current[j].as_ref() {
                            let id = *id;
                            let tainted = {
                                let sh = shared.borrow();
                                sh.streams[id].tainted[0] || sh.streams[id].tainted[1]
                            };
                            if tainted && healthy {
                                {
                                    let mut sh = shared.borrow_mut();
                                    sh.streams[id].closed = true;
                                    for m in sh.msgs.iter_mut() {
                                        if m.stream == id && m.received_step.is_none() {
                                            m.excused.get_or_insert("abandoned");
                                        }
                                    }
                                }
                                current[j] = None;
                            }
                        }
                        if let Some(slot) = connecting[j].clone() {
                            if let Some(res) = slot.borrow_mut().take() {
                                connecting[j] = None;
                                if let Ok(s) = res {
                                    let mut sh = shared.borrow_mut();
                                    let id = sh.streams.len();
                                    sh.streams.push(Stream {
                                        init: i,
                                        acc: j,
                                        closed: false,
                                        tainted: [false, false],
                                    });
                                    sh.by_addr.insert(s.local_addr().unwrap(), id);
                                    current[j] = Some((id, s));
                                }
                            }
                        }
                        let sending = shared.borrow().sending;
                        if current[j].is_none() && connecting[j].is_none() && healthy && sending {
                            let slot: Slot = Default::default();
                            connecting[j] = Some(slot.clone());
                            let dst = (ips[j], PORT);
                            tokio::task::spawn_local(async move {
                                let res = match tokio::time::timeout(
                                    Duration::from_millis(60),
                                    TcpStream::connect(dst),
                                )
                                .await
                                {
                                    Ok(r) => r,
                                    Err(_) => Err(io::ErrorKind::TimedOut.into()),
                                };
                                *slot.borrow_mut() = Some(res);
                            });
                        }
                    }
                    // 4. writes
                    if shared.borrow().sending {
                        for j in 0..n {
                            if let Some((id, s)) = current[j].as_ref() {
                                write_one(s, i, j, *id, &shared);
                            }
                        }
                        for (peer, addr, s) in inbound.iter() {
                            let id = shared.borrow().by_addr.get(addr).copied();
                            if let Some(id) = id {
                                if !shared.borrow().streams[id].closed {
                                    write_one(s, i, *peer, id, &shared);
                                }
                            }
                        }
                    }
                    tokio::time::sleep(Duration::from_millis(1)).await;
                }
                #[allow(unreachable_code)]
                Ok(())
            }
        };
        // spawn_local needs a LocalSet: turmoil runs host software inside one.
        if p.by_name {
            sim.host(format!("n{i}"), f);
        } else {
            sim.host(ips[i], f);
        }
    }

    let drain_steps = 80;
    for step in 1..=(p.steps + drain_steps) {
        {
            let mut sh = shared.borrow_mut();
            sh.step = step;
            if step > p.steps {
                sh.sending = false;
            }
        }
        if let Some(acts) = sim_actions.remove(&step) {
            for act in acts {
                let mut sh = shared.borrow_mut();
                model_apply(&mut sh, &act, "sim");
                sim_apply(&sim, &sh, &act);
            }
        }
        sim.step().map_err(|e| e.to_string())?;
    }

    let sh = shared.borrow();
    let mut required = 0;
    for (id, m) in sh.msgs.iter().enumerate() {
        if m.blocked_at_send && m.received_step.is_some() {
            return Err(format!(
                "msg {id} {m:?} sent across a partitioned direction was delivered\n{}",
                sh.log.join("\n")
            ));
        }
        if let (Some(why), Some(_)) = (&m.must_drop, m.received_step) {
            return Err(format!(
                "msg {id} {m:?} in flight at [{why}] was delivered\n{}",
                sh.log.join("\n")
            ));
        }
        if p.fail_rate == 0.0
            && !m.blocked_at_send
            && m.must_drop.is_none()
            && m.excused.is_none()
        {
            required += 1;
            if m.received_step.is_none() {
                return Err(format!(
                    "msg {id} {m:?} (stream {:?}) was lost\n{}",
                    sh.streams[m.stream],
                    sh.log.join("\n")
                ));
            }
        }
    }
    if std::env::var("C03_STATS").is_ok() {
        let recv = sh.msgs.iter().filter(|m| m.received_step.is_some()).count();
        let blocked = sh.msgs.iter().filter(|m| m.blocked_at_send).count();
        let inflight = sh.msgs.iter().filter(|m| m.must_drop.is_some()).count();
        eprintln!(
            "seed {} n {} streams {} msgs {} received {} required {} blocked {} inflight {} actions {}",
            p.seed, p.n, sh.streams.len(), sh.msgs.len(), recv, required, blocked, inflight, sh.log.len()
        );
    }
    if false && required < 20 {
        return Err(format!("weak run: only {required} required messages of {}", sh.msgs.len()));
    }
    Ok(())
}

#[test]
fn tcp_model_no_random_failures() {
    for seed in 0..c03_seeds(300) {
        let p = Params {
            seed,
            n: 2 + (seed as usize % 3),
            by_name: seed % 2 == 0,
            fail_rate: 0.0,
            repair_rate: 1.0,
            fixed_latency: if seed % 3 == 0 { None } else { Some(seed % 7) },
            steps: 300,
            random_order: seed % 5 == 0,
            low_initiates: seed % 4 < 2,
            action_rate: 0.04,
        };
        if let Err(e) = run(&p) {
            panic!("seed {seed}: {e}");
        }
    }
}

#[test]
fn tcp_model_random_failures() {
    let rates = [0.0, 0.01, 0.1, 0.5, 1.0];
    for seed in 0..c03_seeds(300) {
        let p = Params {
            seed,
            n: 2 + (seed as usize % 3),
            by_name: seed % 2 == 0,
            fail_rate: rates[1 + (seed as usize % 4)],
            repair_rate: rates[(seed as usize / 4) % 5],
            fixed_latency: if seed % 3 == 0 { None } else { Some(seed % 7) },
            steps: 300,
            random_order: seed % 5 == 0,
            low_initiates: seed % 4 < 2,
            action_rate: 0.04,
        };
        if let Err(e) = run(&p) {
            panic!("seed {seed}: {e}");
        }
    }
}

fn c03_seeds(default: u64) -> u64 {
    std::env::var("C03_SEEDS")
        .ok()
        .and_then(|s| s.parse().ok())
        .unwrap_or(default)
}
