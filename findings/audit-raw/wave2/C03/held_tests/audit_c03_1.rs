//! Model based random test of explicit partitions over UDP.
//! cargo test -p turmoil --features regex --offline --test audit_c03_1

use rand::{rngs::SmallRng, Rng, SeedableRng};
use regex::Regex;
use std::cell::RefCell;
use std::collections::HashMap;
use std::net::{IpAddr, Ipv4Addr};
use std::rc::Rc;
use std::time::Duration;
use turmoil::net::UdpSocket;
use turmoil::{Builder, Sim};

const PORT: u16 = 9000;

#[derive(Clone, Debug)]
enum Kind {
    Partition,
    PartitionOneway,
    Repair,
    RepairOneway,
}

#[derive(Clone, Debug)]
enum Set {
    Name(usize),
    Ip(usize),
    Re(Vec<usize>),
}

impl Set {
    fn members(&self) -> Vec<usize> {
        match self {
            Set::Name(i) | Set::Ip(i) => vec![*i],
            Set::Re(v) => v.clone(),
        }
    }
}

#[derive(Clone, Debug)]
struct Action {
    kind: Kind,
    a: Set,
    b: Set,
}

#[derive(Debug, Clone)]
struct Msg {
    src: usize,
    dst: usize,
    sent_step: usize,
    blocked_at_send: bool,
    must_drop: Option<String>,
    received_step: Option<usize>,
}

struct Shared {
    n: usize,
    ips: Vec<IpAddr>,
    by_name: bool,
    blocked: [[bool; 4]; 4],
    msgs: Vec<Msg>,
    step: usize,
    // host -> step -> actions
    host_actions: HashMap<(usize, usize), Vec<Action>>,
    sending: bool,
    per_step: usize,
    log: Vec<String>,
}

fn re_of(v: &[usize]) -> Regex {
    let alts: Vec<String> = v.iter().map(|i| format!("n{i}")).collect();
    Regex::new(&format!("^({})$", alts.join("|"))).unwrap()
}

// Update the model. Returns nothing; marks in-flight messages.
fn model_apply(sh: &mut Shared, act: &Action, who: &str) {
    let a = act.a.members();
    let b = act.b.members();
    let step = sh.step;
    sh.log.push(format!("step {step} {who}: {act:?}"));
    for &x in &a {
        for &y in &b {
            if x == y {
                continue;
            }
            let dirs: Vec<(usize, usize, bool)> = match act.kind {
                Kind::Partition => vec![(x, y, true), (y, x, true)],
                Kind::PartitionOneway => vec![(x, y, true)],
                Kind::Repair => vec![(x, y, false), (y, x, false)],
                Kind::RepairOneway => vec![(x, y, false)],
            };
            for (s, d, block) in dirs {
                sh.blocked[s][d] = block;
                if block {
                    for m in sh.msgs.iter_mut() {
                        if m.src == s && m.dst == d && m.received_step.is_none() && m.must_drop.is_none() {
                            m.must_drop = Some(format!("step {step} {who}: {:?}", act.kind));
                        }
                    }
                }
            }
        }
    }
}

macro_rules! dispatch {
    ($ips:expr, $act:expr, $($f:tt)+) => {{
        let ips: Vec<IpAddr> = $ips;
        match (&$act.a, &$act.b) {
            (Set::Re(x), Set::Re(y)) => $($f)+(re_of(x), re_of(y)),
            (Set::Re(x), Set::Name(y)) => $($f)+(re_of(x), format!("n{y}")),
            (Set::Re(x), Set::Ip(y)) => $($f)+(re_of(x), ips[*y]),
            (Set::Name(x), Set::Re(y)) => $($f)+(format!("n{x}"), re_of(y)),
            (Set::Ip(x), Set::Re(y)) => $($f)+(ips[*x], re_of(y)),
            (Set::Name(x), Set::Name(y)) => $($f)+(format!("n{x}"), format!("n{y}")),
            (Set::Name(x), Set::Ip(y)) => $($f)+(format!("n{x}"), ips[*y]),
            (Set::Ip(x), Set::Name(y)) => $($f)+(ips[*x], format!("n{y}")),
            (Set::Ip(x), Set::Ip(y)) => $($f)+(ips[*x], ips[*y]),
        }
    }};
}

fn host_apply(sh: &Shared, act: &Action) {
    match act.kind {
        Kind::Partition => dispatch!(sh.ips.clone(), act, turmoil::partition),
        Kind::PartitionOneway => dispatch!(sh.ips.clone(), act, turmoil::partition_oneway),
        Kind::Repair => dispatch!(sh.ips.clone(), act, turmoil::repair),
        Kind::RepairOneway => dispatch!(sh.ips.clone(), act, turmoil::repair_oneway),
    }
}

fn sim_apply(sim: &Sim<'_>, sh: &Shared, act: &Action) {
    match act.kind {
        Kind::Partition => dispatch!(sh.ips.clone(), act, sim.partition),
        Kind::PartitionOneway => dispatch!(sh.ips.clone(), act, sim.partition_oneway),
        Kind::Repair => dispatch!(sh.ips.clone(), act, sim.repair),
        Kind::RepairOneway => dispatch!(sh.ips.clone(), act, sim.repair_oneway),
    }
}

fn gen_set(rng: &mut SmallRng, n: usize, by_name: bool) -> Set {
    let i = rng.random_range(0..n);
    if !by_name {
        return Set::Ip(i);
    }
    match rng.random_range(0..4) {
        0 => Set::Ip(i),
        1 => {
            let mut v: Vec<usize> = (0..n).filter(|_| rng.random_bool(0.5)).collect();
            if v.is_empty() {
                v.push(i);
            }
            Set::Re(v)
        }
        _ => Set::Name(i),
    }
}

fn gen_action(rng: &mut SmallRng, n: usize, by_name: bool) -> Action {
    let kind = match rng.random_range(0..4) {
        0 => Kind::Partition,
        1 => Kind::PartitionOneway,
        2 => Kind::Repair,
        _ => Kind::RepairOneway,
    };
    loop {
        let a = gen_set(rng, n, by_name);
        let b = gen_set(rng, n, by_name);
        // need at least one distinct pair, otherwise a no-op (fine, but boring)
        let am = a.members();
        let bm = b.members();
        if am.iter().any(|x| bm.iter().any(|y| x != y)) {
            return Action { kind, a, b };
        }
    }
}

struct Params {
    seed: u64,
    n: usize,
    by_name: bool,
    fail_rate: f64,
    repair_rate: f64,
    fixed_latency: Option<u64>,
    steps: usize,
    per_step: usize,
    random_order: bool,
    // (step, None = Sim handle / Some(h) = host code of h, action)
    explicit: Option<Vec<(usize, Option<usize>, Action)>>,
    ipv6: bool,
}

fn run(p: &Params) -> Result<(), String> {
    let mut rng = SmallRng::seed_from_u64(p.seed);
    let mut b = Builder::new();
    b.rng_seed(p.seed)
        .tick_duration(Duration::from_millis(1))
        .udp_capacity(1 << 16)
        .fail_rate(p.fail_rate)
        .repair_rate(p.repair_rate)
        .simulation_duration(Duration::from_secs(1000));
    if let Some(l) = p.fixed_latency {
        b.min_message_latency(Duration::from_millis(l));
        b.max_message_latency(Duration::from_millis(l));
    } else {
        b.max_message_latency(Duration::from_millis(20));
    }
    if p.random_order {
        b.enable_random_order();
    }
    if p.ipv6 {
        b.ip_version(turmoil::IpVersion::V6);
    }
    let mut sim = b.build();

    let n = p.n;
    // ips
    let mut ips: Vec<IpAddr> = Vec::new();
    if p.by_name {
        for i in 0..n {
            ips.push(sim.lookup(format!("n{i}")));
        }
    } else {
        let mut pool: Vec<u8> = (1..=20).collect();
        for _ in 0..n {
            let k = rng.random_range(0..pool.len());
            let o = pool.remove(k);
            if p.ipv6 {
                ips.push(IpAddr::V6(std::net::Ipv6Addr::new(0xfe80, 0, 0, 0, 0, 0, 7, o as u16)));
            } else {
                ips.push(IpAddr::V4(Ipv4Addr::new(10, 0, 0, o)));
            }
        }
    }

    let shared = Rc::new(RefCell::new(Shared {
        n,
        ips: ips.clone(),
        by_name: p.by_name,
        blocked: [[false; 4]; 4],
        msgs: Vec::new(),
        step: 0,
        host_actions: HashMap::new(),
        sending: true,
        per_step: p.per_step,
        log: Vec::new(),
    }));

    // schedule
    let mut sim_actions: HashMap<usize, Vec<Action>> = HashMap::new();
    if let Some(list) = &p.explicit {
        for (step, who, act) in list {
            match who {
                None => sim_actions.entry(*step).or_default().push(act.clone()),
                Some(h) => shared
                    .borrow_mut()
                    .host_actions
                    .entry((*h, *step))
                    .or_default()
                    .push(act.clone()),
            }
        }
    }
    for step in 1..=p.steps {
        if p.explicit.is_some() {
            break;
        }
        if rng.random_bool(0.15) {
            sim_actions
                .entry(step)
                .or_default()
                .push(gen_action(&mut rng, n, p.by_name));
        }
        for h in 0..n {
            if rng.random_bool(0.05) {
                shared
                    .borrow_mut()
                    .host_actions
                    .entry((h, step))
                    .or_default()
                    .push(gen_action(&mut rng, n, p.by_name));
            }
        }
    }

    for i in 0..n {
        let shared = shared.clone();
        let f = move || {
            let shared = shared.clone();
            async move {
                let any: IpAddr = if shared.borrow().ips[0].is_ipv4() {
                    Ipv4Addr::UNSPECIFIED.into()
                } else {
                    std::net::Ipv6Addr::UNSPECIFIED.into()
                };
                let sock = UdpSocket::bind((any, PORT)).await?;
                loop {
                    // 3. drain
                    let mut buf = [0u8; 8];
                    while let Ok((len, from)) = sock.try_recv_from(&mut buf) {
                        assert_eq!(len, 8);
                        let id = u64::from_be_bytes(buf) as usize;
                        let mut sh = shared.borrow_mut();
                        let step = sh.step;
                        let src = sh.msgs[id].src;
                        assert_eq!(from.ip(), sh.ips[src]);
                        assert_eq!(sh.msgs[id].dst, i);
                        assert!(sh.msgs[id].received_step.is_none(), "duplicate");
                        sh.msgs[id].received_step = Some(step);
                    }
                    // 1. host issued actions
                    {
                        let mut sh = shared.borrow_mut();
                        let step = sh.step;
                        if let Some(acts) = sh.host_actions.remove(&(i, step)) {
                            for act in acts {
                                model_apply(&mut sh, &act, &format!("host n{i}"));
                                host_apply(&sh, &act);
                            }
                        }
                    }
                    // 2. sends
                    let (sending, per_step, n, ips) = {
                        let sh = shared.borrow();
                        (sh.sending && sh.step >= 3, sh.per_step, sh.n, sh.ips.clone())
                    };
                    if sending {
                        for _ in 0..per_step {
                            for d in 0..n {
                                if d == i {
                                    continue;
                                }
                                let id = {
                                    let mut sh = shared.borrow_mut();
                                    let id = sh.msgs.len();
                                    let blocked = sh.blocked[i][d];
                                    let step = sh.step;
                                    sh.msgs.push(Msg {
                                        src: i,
                                        dst: d,
                                        sent_step: step,
                                        blocked_at_send: blocked,
                                        must_drop: None,
                                        received_step: None,
                                    });
                                    id
                                };
                                sock.send_to(&(id as u64).to_be_bytes(), (ips[d], PORT))
                                    .await?;
                            }
                        }
                    }
                    tokio::time::sleep(Duration::from_millis(1)).await;
                }
                #[allow(unreachable_code)]
                Ok(())
            }
        };
        if p.by_name {
            sim.host(format!("n{i}"), f);
        } else {
            sim.host(ips[i], f);
        }
    }

    let drain = 40;
    for step in 1..=(p.steps + drain) {
        {
            let mut sh = shared.borrow_mut();
            sh.step = step;
            if step > p.steps {
                sh.sending = false;
            }
        }
        if let Some(acts) = sim_actions.remove(&step) {
            for act in acts {
                let mut sh = shared.borrow_mut();
                model_apply(&mut sh, &act, "sim");
                sim_apply(&sim, &sh, &act);
            }
        }
        sim.step().map_err(|e| e.to_string())?;
    }

    let sh = shared.borrow();
    for (id, m) in sh.msgs.iter().enumerate() {
        if m.blocked_at_send && m.received_step.is_some() {
            return Err(format!(
                "msg {id} {m:?} sent across a partitioned direction was delivered\n{}",
                sh.log.join("\n")
            ));
        }
        if let (Some(why), Some(_)) = (&m.must_drop, m.received_step) {
            return Err(format!(
                "msg {id} {m:?} in flight at [{why}] was delivered\n{}",
                sh.log.join("\n")
            ));
        }
        if p.fail_rate == 0.0
            && !m.blocked_at_send
            && m.must_drop.is_none()
            && m.received_step.is_none()
        {
            return Err(format!(
                "msg {id} {m:?} was lost\n{}",
                sh.log.join("\n")
            ));
        }
    }
    Ok(())
}

#[test]
fn udp_model_no_random_failures() {
    for seed in 0..c03_seeds(300) {
        let p = Params {
            seed,
            n: 2 + (seed as usize % 3),
            by_name: seed % 2 == 0,
            fail_rate: 0.0,
            repair_rate: 1.0,
            fixed_latency: if seed % 3 == 0 { None } else { Some(seed % 7) },
            steps: 150,
            per_step: 1 + (seed as usize % 2),
            random_order: seed % 5 == 0,
            explicit: None,
            ipv6: seed % 7 == 3,
        };
        if let Err(e) = run(&p) {
            panic!("seed {seed}: {e}");
        }
    }
}

#[test]
fn udp_model_random_failures() {
    let rates = [0.0, 0.01, 0.1, 0.5, 1.0];
    for seed in 0..c03_seeds(400) {
        let p = Params {
            seed,
            n: 2 + (seed as usize % 3),
            by_name: seed % 2 == 0,
            fail_rate: rates[1 + (seed as usize % 4)],
            repair_rate: rates[(seed as usize / 4) % 5],
            fixed_latency: if seed % 3 == 0 { None } else { Some(seed % 7) },
            steps: 150,
            per_step: 1 + (seed as usize % 2),
            random_order: seed % 5 == 0,
            explicit: None,
            ipv6: seed % 7 == 3,
        };
        if let Err(e) = run(&p) {
            panic!("seed {seed}: {e}");
        }
    }
}

// Every sequence of up to three calls out of
// {partition, partition_oneway, repair, repair_oneway} x {(A,B), (B,A)},
// for either address order of A and B, issued from the Sim handle or from
// host code, with traffic in both directions throughout.
#[test]
fn udp_exhaustive_sequences() {
    let kinds = [
        Kind::Partition,
        Kind::PartitionOneway,
        Kind::Repair,
        Kind::RepairOneway,
    ];
    let mut alphabet = Vec::new();
    for k in &kinds {
        for (a, b) in [(0usize, 1usize), (1, 0)] {
            alphabet.push((k.clone(), a, b));
        }
    }
    let mut seqs: Vec<Vec<usize>> = Vec::new();
    for a in 0..8 {
        seqs.push(vec![a]);
        for b in 0..8 {
            seqs.push(vec![a, b]);
            for c in 0..8 {
                seqs.push(vec![a, b, c]);
            }
        }
    }
    let mut count = 0;
    for (si, seq) in seqs.iter().enumerate() {
        for variant in 0..4u64 {
            // variant bit 0: who issues; bit 1: by name (ascending addresses) or by literal ip
            let explicit: Vec<(usize, Option<usize>, Action)> = seq
                .iter()
                .enumerate()
                .map(|(k, &ai)| {
                    let (kind, a, b) = alphabet[ai].clone();
                    let who = if variant & 1 == 0 {
                        None
                    } else {
                        Some((si + k) % 3 % 2 + (si + k) % 3 / 2)
                    };
                    let (sa, sb) = if variant & 2 == 0 {
                        (Set::Name(a), Set::Name(b))
                    } else {
                        (Set::Ip(a), Set::Ip(b))
                    };
                    (10 + 9 * k, who, Action { kind, a: sa, b: sb })
                })
                .collect();
            let seed = (si as u64) * 4 + variant;
            let p = Params {
                seed,
                n: 3,
                by_name: variant & 2 == 0,
                fail_rate: 0.0,
                repair_rate: 1.0,
                fixed_latency: Some(seed % 5),
                steps: 45,
                per_step: 2,
                random_order: seed % 3 == 0,
                explicit: Some(explicit),
                ipv6: false,
            };
            if let Err(e) = run(&p) {
                panic!("sequence {seq:?} variant {variant}: {e}");
            }
            count += 1;
        }
    }
    assert_eq!(count, 584 * 4);
}

fn c03_seeds(default: u64) -> u64 {
    std::env::var("C03_SEEDS")
        .ok()
        .and_then(|s| s.parse().ok())
        .unwrap_or(default)
}
