//! Targeted scenarios around explicit partitions.
//! cargo test -p turmoil --offline --test audit_c03_3

use std::cell::RefCell;
use std::net::{IpAddr, Ipv4Addr, Ipv6Addr};
use std::rc::Rc;
use std::time::Duration;
use tokio::io::AsyncWriteExt;
use turmoil::net::{TcpListener, TcpStream, UdpSocket};
use turmoil::{Builder, Result};

type Log = Rc<RefCell<Vec<(String, u64)>>>;

fn receiver(name: &'static str, log: Log) -> impl Fn() -> std::pin::Pin<Box<dyn std::future::Future<Output = Result>>> {
    move || {
        let log = log.clone();
        Box::pin(async move {
            let sock = UdpSocket::bind(("0.0.0.0", 9000)).await?;
            sock.join_multicast_v4(Ipv4Addr::new(239, 1, 1, 1), Ipv4Addr::UNSPECIFIED)?;
            let mut buf = [0u8; 8];
            loop {
                let (n, _) = sock.recv_from(&mut buf).await?;
                assert_eq!(n, 8);
                log.borrow_mut().push((name.to_string(), u64::from_be_bytes(buf)));
            }
        })
    }
}

// Multicast and broadcast datagrams fan out over the per-destination links:
// the partitioned member must not get them (sent during, or in flight at, the
// partition), the other member must.
#[test]
fn multicast_and_broadcast_respect_oneway_partition() -> Result {
    for bcast in [false, true] {
        let log: Log = Default::default();
        let sent: Rc<RefCell<Vec<(u64, u64)>>> = Default::default(); // (id, elapsed ms)
        let mut sim = Builder::new()
            .tick_duration(Duration::from_millis(1))
            .min_message_latency(Duration::from_millis(5))
            .max_message_latency(Duration::from_millis(5))
            .udp_capacity(4096)
            .build();
        sim.host("b", receiver("b", log.clone()));
        sim.host("c", receiver("c", log.clone()));
        {
            let sent = sent.clone();
            sim.client("a", async move {
                let sock = UdpSocket::bind(("0.0.0.0", 9001)).await?;
                sock.set_broadcast(true)?;
                tokio::time::sleep(Duration::from_millis(3)).await;
                for id in 0..60u64 {
                    let dst: (IpAddr, u16) = if bcast {
                        (Ipv4Addr::BROADCAST.into(), 9000)
                    } else {
                        (Ipv4Addr::new(239, 1, 1, 1).into(), 9000)
                    };
                    sent.borrow_mut().push((id, turmoil::elapsed().as_millis() as u64));
                    sock.send_to(&id.to_be_bytes(), dst).await?;
                    tokio::time::sleep(Duration::from_millis(1)).await;
                }
                tokio::time::sleep(Duration::from_millis(30)).await;
                Ok(())
            });
        }
        // steps 1..=20 healthy, then a -> b partitioned for 20 steps, then repaired
        for _ in 0..20 {
            sim.step()?;
        }
        let first_blocked = sent.borrow().len() as u64;
        sim.partition_oneway("a", "b");
        for _ in 0..20 {
            sim.step()?;
        }
        let first_after = sent.borrow().len() as u64;
        sim.repair_oneway("a", "b");
        sim.run()?;

        let log = log.borrow();
        let got = |who: &str| -> Vec<u64> {
            log.iter().filter(|(n, _)| n == who).map(|(_, id)| *id).collect()
        };
        let b = got("b");
        let c = got("c");
        assert_eq!(c, (0..60).collect::<Vec<_>>(), "c is on another link");
        for id in &b {
            assert!(
                !(first_blocked..first_after).contains(id),
                "bcast={bcast}: b received {id} sent while a->b was partitioned ({first_blocked}..{first_after})"
            );
            // latency 5 ms: the last 5 sent before the partition were in flight
            assert!(
                !(first_blocked.saturating_sub(4)..first_blocked).contains(id),
                "bcast={bcast}: b received {id} which was in flight at the partition ({first_blocked})"
            );
        }
        // flows again
        for id in first_after..60 {
            assert!(b.contains(&id), "bcast={bcast}: b did not receive {id} sent after the repair");
        }
        for id in 0..first_blocked.saturating_sub(6) {
            assert!(b.contains(&id), "bcast={bcast}: b did not receive {id} sent long before");
        }
    }
    Ok(())
}

// A host registered after the simulation has been running, and hosts of
// different address families.
#[test]
fn late_host_and_mixed_families() -> Result {
    let log: Rc<RefCell<Vec<(&'static str, u64)>>> = Default::default();
    let mut sim = Builder::new()
        .tick_duration(Duration::from_millis(1))
        .min_message_latency(Duration::from_millis(2))
        .max_message_latency(Duration::from_millis(2))
        .build();

    let v4: IpAddr = Ipv4Addr::new(10, 9, 9, 9).into();
    let v6: IpAddr = Ipv6Addr::new(0xfe80, 0, 0, 0, 0, 0, 0, 9).into();

    let mk = |me: &'static str, any: IpAddr, peer: IpAddr, base: u64, log: Rc<RefCell<Vec<(&'static str, u64)>>>| {
        move || {
            let log = log.clone();
            async move {
                let sock = UdpSocket::bind((any, 9000)).await?;
                let mut id = base;
                let mut buf = [0u8; 8];
                loop {
                    while let Ok((_, _)) = sock.try_recv_from(&mut buf) {
                        log.borrow_mut().push((me, u64::from_be_bytes(buf)));
                    }
                    let _ = sock.send_to(&id.to_be_bytes(), (peer, 9000)).await;
                    id += 1;
                    tokio::time::sleep(Duration::from_millis(1)).await;
                }
                #[allow(unreachable_code)]
                Ok(())
            }
        }
    };

    sim.host(v6, mk("six", Ipv6Addr::UNSPECIFIED.into(), v4, 1000, log.clone()));
    for _ in 0..10 {
        sim.step()?;
    }
    // registered late
    sim.host(v4, mk("four", Ipv4Addr::UNSPECIFIED.into(), v6, 0, log.clone()));
    for _ in 0..10 {
        sim.step()?;
    }
    let n_before = log.borrow().len();
    assert!(n_before > 0);
    // four -> six partitioned: "six" must stop receiving, "four" must go on
    sim.partition_oneway(v4, v6);
    for _ in 0..3 {
        sim.step()?;
    }
    let mark = log.borrow().len();
    for _ in 0..20 {
        sim.step()?;
    }
    {
        let log = log.borrow();
        assert!(
            log[mark..].iter().all(|(who, _)| *who == "four"),
            "six received something across the partitioned direction: {:?}",
            &log[mark..]
        );
        assert!(log[mark..].iter().filter(|(who, _)| *who == "four").count() >= 15);
    }
    sim.repair_oneway(v4, v6);
    let mark = log.borrow().len();
    for _ in 0..10 {
        sim.step()?;
    }
    assert!(log.borrow()[mark..].iter().any(|(who, _)| *who == "six"));
    Ok(())
}

// A SYN sent while the direction is partitioned (or in flight when it is
// imposed) must never surface at the listener, not even after the repair.
#[test]
fn syn_sent_across_partition_never_accepted() -> Result {
    for in_flight in [false, true] {
        let accepted: Rc<RefCell<Vec<std::net::SocketAddr>>> = Default::default();
        let mut sim = Builder::new()
            .tick_duration(Duration::from_millis(1))
            .min_message_latency(Duration::from_millis(5))
            .max_message_latency(Duration::from_millis(5))
            .build();
        {
            let accepted = accepted.clone();
            sim.host("server", move || {
                let accepted = accepted.clone();
                async move {
                    let l = TcpListener::bind(("0.0.0.0", 80)).await?;
                    loop {
                        let (s, peer) = l.accept().await?;
                        accepted.borrow_mut().push(peer);
                        std::mem::forget(s);
                    }
                }
            });
        }
        let attempted: Rc<RefCell<Vec<String>>> = Default::default();
        {
            let attempted = attempted.clone();
            sim.client("client", async move {
                tokio::time::sleep(Duration::from_millis(10)).await;
                let r = tokio::time::timeout(
                    Duration::from_millis(100),
                    TcpStream::connect(("server", 80)),
                )
                .await;
                attempted.borrow_mut().push(format!("{r:?}"));
                tokio::time::sleep(Duration::from_millis(100)).await;
                Ok(())
            });
        }
        if in_flight {
            // connect happens in step 11; partition while the SYN is in flight
            for _ in 0..13 {
                sim.step()?;
            }
            sim.partition_oneway("client", "server");
        } else {
            for _ in 0..5 {
                sim.step()?;
            }
            sim.partition_oneway("client", "server");
            for _ in 0..10 {
                sim.step()?;
            }
        }
        for _ in 0..5 {
            sim.step()?;
        }
        sim.repair_oneway("client", "server");
        sim.run()?;
        assert!(
            accepted.borrow().is_empty(),
            "in_flight={in_flight}: the SYN was delivered: {:?} / {:?}",
            accepted.borrow(),
            attempted.borrow()
        );
        assert_eq!(attempted.borrow().len(), 1);
    }
    Ok(())
}

// Per-link fail / repair rates at the extremes, mixed with an explicit
// one-way partition: the explicit direction never delivers.
#[test]
fn link_fail_rate_extremes_with_oneway_partition() -> Result {
    for (fail, seed) in [(1.0, 1u64), (0.5, 2), (0.9, 3), (0.1, 4)] {
        let got_b: Rc<RefCell<Vec<u64>>> = Default::default();
        let got_a: Rc<RefCell<Vec<u64>>> = Default::default();
        let mut sim = Builder::new()
            .rng_seed(seed)
            .tick_duration(Duration::from_millis(1))
            .max_message_latency(Duration::from_millis(3))
            .repair_rate(1.0)
            .build();
        let mk = |peer: &'static str, got: Rc<RefCell<Vec<u64>>>| {
            move || {
                let got = got.clone();
                async move {
                    let sock = UdpSocket::bind(("0.0.0.0", 9000)).await?;
                    let mut id = 0u64;
                    let mut buf = [0u8; 8];
                    loop {
                        while sock.try_recv_from(&mut buf).is_ok() {
                            got.borrow_mut().push(u64::from_be_bytes(buf));
                        }
                        for _ in 0..3 {
                            sock.send_to(&id.to_be_bytes(), (peer, 9000)).await?;
                            id += 1;
                        }
                        tokio::time::sleep(Duration::from_millis(1)).await;
                    }
                    #[allow(unreachable_code)]
                    Ok(())
                }
            }
        };
        sim.host("a", mk("b", got_a.clone()));
        sim.host("b", mk("a", got_b.clone()));
        for _ in 0..5 {
            sim.step()?;
        }
        sim.partition_oneway("a", "b");
        sim.set_link_fail_rate("a", "b", fail);
        for _ in 0..5 {
            sim.step()?;
        }
        let mark_b = got_b.borrow().len();
        let mark_a = got_a.borrow().len();
        for _ in 0..300 {
            sim.step()?;
        }
        assert_eq!(
            got_b.borrow().len(),
            mark_b,
            "fail={fail}: b received across the explicit partition"
        );
        if fail < 1.0 {
            assert!(got_a.borrow().len() > mark_a, "fail={fail}: reverse direction dead");
        }
    }
    Ok(())
}

// TCP: bytes written while the direction is partitioned never come out of the
// peer's stream, the reverse direction of the same stream keeps flowing.
#[test]
fn tcp_stream_oneway() -> Result {
    let at_server: Rc<RefCell<Vec<u8>>> = Default::default();
    let at_client: Rc<RefCell<Vec<u8>>> = Default::default();
    let mut sim = Builder::new()
        .tick_duration(Duration::from_millis(1))
        .min_message_latency(Duration::from_millis(2))
        .max_message_latency(Duration::from_millis(2))
        .build();
    {
        let at_server = at_server.clone();
        sim.host("server", move || {
            let at_server = at_server.clone();
            async move {
                let l = TcpListener::bind(("0.0.0.0", 80)).await?;
                let (s, _) = l.accept().await?;
                let (mut r, mut w) = s.into_split();
                tokio::spawn(async move {
                    let mut i = 0u8;
                    loop {
                        w.write_all(&[i]).await.unwrap();
                        i = i.wrapping_add(1);
                        tokio::time::sleep(Duration::from_millis(1)).await;
                    }
                });
                let mut buf = [0u8; 64];
                loop {
                    use tokio::io::AsyncReadExt;
                    let n = r.read(&mut buf).await?;
                    at_server.borrow_mut().extend_from_slice(&buf[..n]);
                }
            }
        });
    }
    {
        let at_client = at_client.clone();
        sim.client("client", async move {
            let s = TcpStream::connect(("server", 80)).await?;
            let (mut r, mut w) = s.into_split();
            tokio::spawn(async move {
                let mut i = 0u8;
                loop {
                    w.write_all(&[i]).await.unwrap();
                    i = i.wrapping_add(1);
                    tokio::time::sleep(Duration::from_millis(1)).await;
                }
            });
            let mut buf = [0u8; 64];
            loop {
                use tokio::io::AsyncReadExt;
                let n = r.read(&mut buf).await?;
                at_client.borrow_mut().extend_from_slice(&buf[..n]);
            }
        });
    }
    for _ in 0..30 {
        sim.step()?;
    }
    sim.partition_oneway("client", "server");
    for _ in 0..3 {
        sim.step()?;
    }
    let s_mark = at_server.borrow().len();
    let c_mark = at_client.borrow().len();
    for _ in 0..50 {
        sim.step()?;
    }
    assert_eq!(at_server.borrow().len(), s_mark);
    assert!(at_client.borrow().len() >= c_mark + 45, "reverse direction stalled");
    sim.repair_oneway("client", "server");
    for _ in 0..50 {
        sim.step()?;
    }
    // nothing written during the partition may ever surface
    assert_eq!(at_server.borrow().len(), s_mark);
    // and the reverse direction is still in order
    let c = at_client.borrow();
    for (i, b) in c.iter().enumerate() {
        assert_eq!(*b, i as u8);
    }
    Ok(())
}
