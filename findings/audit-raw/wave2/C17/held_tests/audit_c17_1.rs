//! C17 audit: model-based check of the bind accept/reject matrix and of
//! inbound demultiplexing, over random bind / connect / close histories
//! on two multi-homed dual-stack hosts.

use std::collections::BTreeSet;
use std::future::Future;
use std::io::ErrorKind;
use std::net::{IpAddr, SocketAddr};
use std::pin::Pin;
use std::task::{Context, Poll, Waker};

use bytes::Bytes;
use turmoil_net::shim::tokio::net::{TcpListener, TcpStream, UdpSocket};
use turmoil_net::{EnterGuard, HostId, Net, Packet, TcpFlags, TcpSegment, Transport, UdpDatagram};

struct Rng(u64);
impl Rng {
    fn next(&mut self) -> u64 {
        self.0 ^= self.0 << 13;
        self.0 ^= self.0 >> 7;
        self.0 ^= self.0 << 17;
        self.0
    }
    fn below(&mut self, n: usize) -> usize {
        (self.next() % n as u64) as usize
    }
    fn pick<T: Clone>(&mut self, v: &[T]) -> T {
        v[self.below(v.len())].clone()
    }
}

fn ip(s: &str) -> IpAddr {
    s.parse().unwrap()
}

struct Host {
    id: HostId,
    addrs: Vec<IpAddr>,
}

enum Kind {
    Udp {
        s: UdpSocket,
        peer: Option<SocketAddr>,
    },
    Listener {
        l: TcpListener,
    },
    Stream {
        s: TcpStream,
        peer: SocketAddr,
    },
}

struct Live {
    host: usize,
    local: SocketAddr,
    kind: Kind,
}

impl Live {
    fn is_tcp(&self) -> bool {
        !matches!(self.kind, Kind::Udp { .. })
    }
}

struct World {
    hosts: Vec<Host>,
    live: Vec<Live>,
    trace: Vec<String>,
    // dropped last: sockets close through the installed Net.
    guard: EnterGuard,
}

fn noop_cx() -> Context<'static> {
    Context::from_waker(Waker::noop())
}

impl World {
    fn pump(&self) {
        let mut out = Vec::new();
        for _ in 0..64 {
            out.clear();
            self.guard.egress_all(&mut out);
            if out.is_empty() {
                break;
            }
            for p in out.drain(..) {
                self.guard.deliver(p);
            }
        }
    }

    fn now<T>(&self, host: usize, fut: impl Future<Output = T>) -> T {
        let mut fut: Pin<Box<dyn Future<Output = T> + '_>> = Box::pin(fut);
        turmoil_net::set_current(self.hosts[host].id);
        match fut.as_mut().poll(&mut noop_cx()) {
            Poll::Ready(v) => v,
            Poll::Pending => panic!("operation expected to complete immediately"),
        }
    }

    fn drive<T>(&self, host: usize, fut: impl Future<Output = T>) -> T {
        let mut fut: Pin<Box<dyn Future<Output = T> + '_>> = Box::pin(fut);
        for _ in 0..200 {
            turmoil_net::set_current(self.hosts[host].id);
            if let Poll::Ready(v) = fut.as_mut().poll(&mut noop_cx()) {
                return v;
            }
            self.pump();
        }
        panic!("operation never completed\n{}", self.trace.join("\n"));
    }

    fn owns(&self, host: usize, a: IpAddr) -> bool {
        a.is_loopback() || self.hosts[host].addrs.contains(&a)
    }

    fn owner(&self, a: IpAddr) -> Option<usize> {
        self.hosts.iter().position(|h| h.addrs.contains(&a))
    }

    /// Reference bind rule of the property.
    fn expect_bind(&self, host: usize, tcp: bool, addr: SocketAddr) -> Result<(), ErrorKind> {
        if !addr.ip().is_unspecified() && !self.owns(host, addr.ip()) {
            return Err(ErrorKind::AddrNotAvailable);
        }
        if addr.port() == 0 {
            return Ok(());
        }
        for l in &self.live {
            if l.host != host || l.is_tcp() != tcp {
                continue;
            }
            if l.local.is_ipv4() != addr.is_ipv4() || l.local.port() != addr.port() {
                continue;
            }
            if l.local.ip() == addr.ip()
                || l.local.ip().is_unspecified()
                || addr.ip().is_unspecified()
            {
                return Err(ErrorKind::AddrInUse);
            }
        }
        Ok(())
    }

    fn port_in_use(&self, host: usize, tcp: bool, v4: bool, port: u16) -> bool {
        self.live.iter().any(|l| {
            l.host == host
                && l.is_tcp() == tcp
                && l.local.is_ipv4() == v4
                && l.local.port() == port
        })
    }

    fn check_ephemeral(&self, host: usize, tcp: bool, got: SocketAddr) {
        assert!(
            (49152..=65535).contains(&got.port()),
            "ephemeral port {got} out of range"
        );
        assert!(
            !self.port_in_use(host, tcp, got.is_ipv4(), got.port()),
            "ephemeral port {got} already in use on host {host}\n{}",
            self.trace.join("\n")
        );
    }

    fn op_bind_udp(&mut self, host: usize, addr: SocketAddr) {
        let want = self.expect_bind(host, false, addr);
        let got = self.now(host, UdpSocket::bind(addr));
        self.trace
            .push(format!("h{host} udp bind {addr} -> {:?}", got.as_ref().map(|_| ())));
        match (want, got) {
            (Ok(()), Ok(s)) => {
                let local = s.local_addr().unwrap();
                assert_eq!(local.ip(), addr.ip());
                if addr.port() == 0 {
                    self.check_ephemeral(host, false, local);
                } else {
                    assert_eq!(local.port(), addr.port());
                }
                self.live.push(Live {
                    host,
                    local,
                    kind: Kind::Udp { s, peer: None },
                });
            }
            (Err(k), Err(e)) => assert_eq!(e.kind(), k, "{}", self.trace.join("\n")),
            (w, g) => panic!(
                "udp bind {addr} on h{host}: model {w:?}, kernel {:?}\n{}",
                g.map(|_| ()),
                self.trace.join("\n")
            ),
        }
    }

    fn op_bind_listener(&mut self, host: usize, addr: SocketAddr) {
        let want = self.expect_bind(host, true, addr);
        let got = self.now(host, TcpListener::bind(addr));
        self.trace
            .push(format!("h{host} tcp listen {addr} -> {:?}", got.as_ref().map(|_| ())));
        match (want, got) {
            (Ok(()), Ok(l)) => {
                let local = l.local_addr().unwrap();
                assert_eq!(local.ip(), addr.ip());
                if addr.port() == 0 {
                    self.check_ephemeral(host, true, local);
                } else {
                    assert_eq!(local.port(), addr.port());
                }
                self.live.push(Live {
                    host,
                    local,
                    kind: Kind::Listener { l },
                });
            }
            (Err(k), Err(e)) => assert_eq!(e.kind(), k, "{}", self.trace.join("\n")),
            (w, g) => panic!(
                "tcp bind {addr} on h{host}: model {w:?}, kernel {:?}\n{}",
                g.map(|_| ()),
                self.trace.join("\n")
            ),
        }
    }

    fn op_close(&mut self, idx: usize) {
        let l = self.live.remove(idx);
        self.trace
            .push(format!("h{} close {} tcp={}", l.host, l.local, l.is_tcp()));
        turmoil_net::set_current(self.hosts[l.host].id);
        let stream_peer = match &l.kind {
            Kind::Stream { peer, .. } => Some((*peer, l.local)),
            _ => None,
        };
        drop(l);
        if let Some((peer_local, my_local)) = stream_peer {
            // close the other end too, then let both finish.
            if let Some(j) = self.live.iter().position(|o| {
                matches!(&o.kind, Kind::Stream { peer, .. } if *peer == my_local)
                    && o.local == peer_local
            }) {
                let o = self.live.remove(j);
                turmoil_net::set_current(self.hosts[o.host].id);
                drop(o);
            }
            for _ in 0..8 {
                self.pump();
            }
        }
    }

    fn op_udp_connect(&mut self, idx: usize, peer: SocketAddr) {
        let host = self.live[idx].host;
        let local = self.live[idx].local;
        let Kind::Udp { s, .. } = &self.live[idx].kind else {
            return;
        };
        let r = self.now(host, s.connect(peer));
        self.trace
            .push(format!("h{host} udp {local} connect {peer} -> {:?}", r));
        if local.is_ipv4() != peer.is_ipv4() {
            assert!(r.is_err());
            return;
        }
        r.unwrap();
        if let Kind::Udp { peer: p, .. } = &mut self.live[idx].kind {
            *p = Some(peer);
        }
    }

    /// Which live UDP socket should receive (src -> dst) on `host`.
    fn expect_udp_rx(&self, host: usize, src: SocketAddr, dst: SocketAddr) -> Option<usize> {
        let cand = |want_ip: IpAddr| {
            self.live.iter().position(|l| {
                l.host == host
                    && !l.is_tcp()
                    && l.local.port() == dst.port()
                    && l.local.ip() == want_ip
            })
        };
        let wild: IpAddr = if dst.is_ipv4() {
            ip("0.0.0.0")
        } else {
            ip("::")
        };
        let i = cand(dst.ip()).or_else(|| cand(wild))?;
        match &self.live[i].kind {
            Kind::Udp { peer: Some(p), .. } if *p != src => None,
            _ => Some(i),
        }
    }

    /// Drain every live UDP socket; return (index, from, payload).
    fn drain_udp(&self) -> Vec<(usize, SocketAddr, Vec<u8>)> {
        let mut got = Vec::new();
        for (i, l) in self.live.iter().enumerate() {
            if let Kind::Udp { s, .. } = &l.kind {
                turmoil_net::set_current(self.hosts[l.host].id);
                let mut buf = [0u8; 64];
                while let Ok((n, from)) = s.try_recv_from(&mut buf) {
                    got.push((i, from, buf[..n].to_vec()));
                }
            }
        }
        got
    }

    fn probe_udp(&self, ports: &[u16], srcs: &[SocketAddr], extra_dsts: &[IpAddr]) {
        assert!(self.drain_udp().is_empty(), "stray datagram before probing");
        let mut tag = 0u32;
        // Forged packets through the fabric.
        let mut dsts: Vec<IpAddr> = self.hosts.iter().flat_map(|h| h.addrs.clone()).collect();
        dsts.extend_from_slice(extra_dsts);
        for &d in &dsts {
            for &p in ports {
                for &src in srcs {
                    if src.is_ipv4() != d.is_ipv4() {
                        continue;
                    }
                    tag += 1;
                    let payload = tag.to_be_bytes().to_vec();
                    self.guard.deliver(Packet {
                        src: src.ip(),
                        dst: d,
                        ttl: 64,
                        payload: Transport::Udp(UdpDatagram {
                            src_port: src.port(),
                            dst_port: p,
                            payload: Bytes::from(payload.clone()),
                        }),
                    });
                    let dst = SocketAddr::new(d, p);
                    let want = self
                        .owner(d)
                        .and_then(|h| self.expect_udp_rx(h, src, dst));
                    let got = self.drain_udp();
                    match want {
                        None => assert!(
                            got.is_empty(),
                            "udp {src} -> {dst}: nobody should receive, got {got:?}\n{}",
                            self.trace.join("\n")
                        ),
                        Some(i) => assert_eq!(
                            got,
                            vec![(i, src, payload)],
                            "udp {src} -> {dst}: wrong receiver (want live[{i}] = {})\n{}",
                            self.live[i].local,
                            self.trace.join("\n")
                        ),
                    }
                }
            }
        }
    }

    /// Real loopback / own-address traffic from a live unconnected UDP socket.
    fn probe_udp_local(&self, ports: &[u16]) {
        for (si, sender) in self.live.iter().enumerate() {
            let Kind::Udp { s, .. } = &sender.kind else {
                continue;
            };
            let host = sender.host;
            let mut dsts: Vec<IpAddr> = vec![ip("127.0.0.1"), ip("::1"), ip("127.0.0.2")];
            dsts.extend(self.hosts[host].addrs.iter().copied());
            for d in dsts {
                if d.is_ipv4() != sender.local.is_ipv4() {
                    continue;
                }
                for &p in ports {
                    let dst = SocketAddr::new(d, p);
                    turmoil_net::set_current(self.hosts[host].id);
                    if s.try_send_to(b"L", dst).is_err() {
                        continue;
                    }
                    self.pump();
                    let got = self.drain_udp();
                    // Source address the stack must have used.
                    let src_ip = if !sender.local.ip().is_unspecified() {
                        sender.local.ip()
                    } else if d.is_loopback() {
                        if d.is_ipv4() {
                            ip("127.0.0.1")
                        } else {
                            ip("::1")
                        }
                    } else {
                        *self.hosts[host]
                            .addrs
                            .iter()
                            .find(|a| a.is_ipv4() == d.is_ipv4())
                            .unwrap()
                    };
                    let src = SocketAddr::new(src_ip, sender.local.port());
                    let want = self.expect_udp_rx(host, src, dst);
                    match want {
                        None => assert!(
                            got.is_empty(),
                            "local udp live[{si}] {src} -> {dst}: nobody should receive, got {got:?}\n{}",
                            self.trace.join("\n")
                        ),
                        Some(i) => assert_eq!(
                            got,
                            vec![(i, src, b"L".to_vec())],
                            "local udp {src} -> {dst}: wrong receiver\n{}",
                            self.trace.join("\n")
                        ),
                    }
                }
            }
        }
    }

    fn expect_listener(&self, host: usize, dst: SocketAddr) -> Option<usize> {
        let cand = |want_ip: IpAddr| {
            self.live.iter().position(|l| {
                l.host == host
                    && matches!(l.kind, Kind::Listener { .. })
                    && l.local.port() == dst.port()
                    && l.local.ip() == want_ip
            })
        };
        let wild: IpAddr = if dst.is_ipv4() {
            ip("0.0.0.0")
        } else {
            ip("::")
        };
        cand(dst.ip()).or_else(|| cand(wild))
    }

    /// Connect from `from` to `dst`; check who accepts. Returns the pair if
    /// established.
    fn tcp_probe(&mut self, from: usize, dst: SocketAddr, keep: bool) {
        let target = if dst.ip().is_loopback() {
            Some(from)
        } else {
            self.owner(dst.ip())
        };
        let want = target.and_then(|h| self.expect_listener(h, dst));
        // The client needs a source address of the right family.
        let r = self.drive(from, TcpStream::connect(dst));
        self.trace.push(format!(
            "h{from} tcp connect {dst} -> {:?}",
            r.as_ref().map(|_| ()).map_err(|e| e.kind())
        ));
        // Who has something to accept?
        let mut accepted = Vec::new();
        for (i, l) in self.live.iter().enumerate() {
            if let Kind::Listener { l: lst } = &l.kind {
                turmoil_net::set_current(self.hosts[l.host].id);
                while let Poll::Ready(Ok((s, peer))) = lst.poll_accept(&mut noop_cx()) {
                    accepted.push((i, s, peer));
                }
            }
        }
        match (want, r) {
            (Some(i), Ok(c)) => {
                assert_eq!(accepted.len(), 1, "{}", self.trace.join("\n"));
                let (j, s, peer) = accepted.pop().unwrap();
                assert_eq!(
                    j,
                    i,
                    "connect {dst}: accepted by {} instead of {}\n{}",
                    self.live[j].local,
                    self.live[i].local,
                    self.trace.join("\n")
                );
                let th = self.live[i].host;
                turmoil_net::set_current(self.hosts[from].id);
                let c_local = c.local_addr().unwrap();
                assert_eq!(c.peer_addr().unwrap(), dst);
                assert_eq!(peer, c_local);
                self.check_ephemeral(from, true, c_local);
                turmoil_net::set_current(self.hosts[th].id);
                assert_eq!(s.local_addr().unwrap(), dst);
                assert_eq!(s.peer_addr().unwrap(), c_local);
                self.live.push(Live {
                    host: from,
                    local: c_local,
                    kind: Kind::Stream { s: c, peer: dst },
                });
                self.live.push(Live {
                    host: th,
                    local: dst,
                    kind: Kind::Stream {
                        s,
                        peer: c_local,
                    },
                });
                if !keep {
                    let idx = self.live.len() - 1;
                    self.op_close(idx);
                }
            }
            (None, Err(e)) => {
                assert!(accepted.is_empty(), "{}", self.trace.join("\n"));
                let want_kind = if target.is_some() {
                    ErrorKind::ConnectionRefused
                } else {
                    ErrorKind::TimedOut
                };
                // A client whose ephemeral port equals the destination port on
                // its own address connects to itself (SYN lands on its own
                // SynSent socket): tolerated, not what this audit is about.
                let self_connect = target == Some(from) && dst.port() >= 49152;
                if !(self_connect && e.kind() == ErrorKind::TimedOut) {
                    assert_eq!(e.kind(), want_kind, "connect {dst}\n{}", self.trace.join("\n"));
                }
                for _ in 0..4 {
                    self.pump();
                }
            }
            (w, g) => panic!(
                "connect {dst} from h{from}: model listener {:?}, kernel {:?}, accepted {}\n{}",
                w.map(|i| self.live[i].local),
                g.map(|_| ()).map_err(|e| e.kind()),
                accepted.len(),
                self.trace.join("\n")
            ),
        }
    }

    /// Forged SYN from a source nobody owns: SYN-ACK iff a listener matches
    /// (exact before wildcard), RST otherwise, nothing for unknown hosts. The
    /// half-open child must disappear again on its own.
    fn probe_syn(&self, dst: SocketAddr) {
        let src: SocketAddr = if dst.is_ipv4() {
            "10.9.9.9:7777".parse().unwrap()
        } else {
            "[fd00:9::9]:7777".parse().unwrap()
        };
        let mut out = Vec::new();
        self.guard.egress_all(&mut out);
        assert!(out.is_empty(), "quiescent before SYN probe: {out:?}");
        self.guard.deliver(Packet {
            src: src.ip(),
            dst: dst.ip(),
            ttl: 64,
            payload: Transport::Tcp(TcpSegment {
                src_port: src.port(),
                dst_port: dst.port(),
                seq: 1000,
                ack: 0,
                flags: TcpFlags {
                    syn: true,
                    ..TcpFlags::default()
                },
                window: 1000,
                payload: Bytes::new(),
            }),
        });
        self.guard.egress_all(&mut out);
        let owner = self.owner(dst.ip());
        let want = owner.and_then(|h| self.expect_listener(h, dst));
        match owner {
            None => assert!(out.is_empty(), "SYN to unknown {dst} answered: {out:?}"),
            Some(_) => {
                assert_eq!(out.len(), 1, "SYN {dst}: {out:?}\n{}", self.trace.join("\n"));
                let p = &out[0];
                assert_eq!((p.src, p.dst), (dst.ip(), src.ip()));
                let Transport::Tcp(t) = &p.payload else {
                    panic!("not tcp")
                };
                assert_eq!((t.src_port, t.dst_port), (dst.port(), src.port()));
                if want.is_some() {
                    assert!(t.flags.syn && t.flags.ack && !t.flags.rst, "SYN {dst}: {t:?}\n{}", self.trace.join("\n"));
                } else {
                    assert!(t.flags.rst, "SYN {dst}: {t:?}\n{}", self.trace.join("\n"));
                }
            }
        }
        // nobody may see it in an accept queue
        for l in self.live.iter() {
            if let Kind::Listener { l: lst } = &l.kind {
                turmoil_net::set_current(self.hosts[l.host].id);
                assert!(lst.poll_accept(&mut noop_cx()).is_pending());
            }
        }
        for _ in 0..40 {
            self.pump();
        }
        self.assert_tables();
    }

    /// Every kept connection carries a tagged message to its own peer only.
    fn probe_streams(&self) {
        let streams: Vec<usize> = (0..self.live.len())
            .filter(|&i| matches!(self.live[i].kind, Kind::Stream { .. }))
            .collect();
        for (n, &i) in streams.iter().enumerate() {
            let Kind::Stream { s, peer } = &self.live[i].kind else {
                unreachable!()
            };
            let tag = [0xA0, n as u8, 0x5A];
            turmoil_net::set_current(self.hosts[self.live[i].host].id);
            assert_eq!(s.try_write(&tag).unwrap(), 3);
            self.pump();
            let mut seen = Vec::new();
            for &j in &streams {
                let Kind::Stream { s: r, peer: rpeer } = &self.live[j].kind else {
                    unreachable!()
                };
                turmoil_net::set_current(self.hosts[self.live[j].host].id);
                let mut buf = [0u8; 16];
                match r.try_read(&mut buf) {
                    Ok(k) => seen.push((j, buf[..k].to_vec())),
                    Err(e) => assert_eq!(e.kind(), ErrorKind::WouldBlock, "{}", self.trace.join("\n")),
                }
                let _ = rpeer;
            }
            let want = streams
                .iter()
                .copied()
                .find(|&j| {
                    self.live[j].local == *peer
                        && matches!(&self.live[j].kind, Kind::Stream { peer: p, .. } if *p == self.live[i].local)
                })
                .expect("paired stream is live");
            assert_eq!(seen, vec![(want, tag.to_vec())], "stream data misrouted\n{}", self.trace.join("\n"));
        }
    }

    /// After everything is closed, the tables must be empty.
    fn assert_tables(&self) {
        for (hi, h) in self.hosts.iter().enumerate() {
            let ns = turmoil_net::netstat(h.addrs[0]);
            let mut have: BTreeSet<(bool, SocketAddr)> = BTreeSet::new();
            for e in &ns.entries {
                have.insert((e.proto == turmoil_net::Proto::Tcp, e.local));
            }
            let want: BTreeSet<(bool, SocketAddr)> = self
                .live
                .iter()
                .filter(|l| l.host == hi)
                .map(|l| (l.is_tcp(), l.local))
                .collect();
            assert_eq!(have, want, "socket table of h{hi}\n{}", self.trace.join("\n"));
        }
    }
}

/// A destination likely to hit a live listener.
fn listener_target(w: &World, rng: &mut Rng, from: usize) -> Option<SocketAddr> {
    let ls: Vec<(usize, SocketAddr)> = w
        .live
        .iter()
        .filter(|l| matches!(l.kind, Kind::Listener { .. }))
        .map(|l| (l.host, l.local))
        .collect();
    if ls.is_empty() {
        return None;
    }
    let (h, local) = rng.pick(&ls);
    let mut cands: Vec<IpAddr> = w.hosts[h]
        .addrs
        .iter()
        .copied()
        .filter(|a| a.is_ipv4() == local.is_ipv4())
        .collect();
    if h == from {
        cands.push(if local.is_ipv4() { ip("127.0.0.1") } else { ip("::1") });
        if local.is_ipv4() {
            cands.push(ip("127.0.0.2"));
        }
    }
    if !local.ip().is_unspecified() && rng.below(3) != 0 {
        if local.ip().is_loopback() && h != from {
            return None;
        }
        return Some(local);
    }
    Some(SocketAddr::new(rng.pick(&cands), local.port()))
}

fn run(seed: u64, steps: usize) {
    let mut net = Net::new();
    let a_addrs = vec![ip("10.0.0.1"), ip("10.0.0.2"), ip("fd00::1"), ip("fd00::2")];
    let b_addrs = vec![ip("10.0.1.1"), ip("fd00:1::1"), ip("10.0.1.2")];
    let a = net.add_host(a_addrs.clone());
    let b = net.add_host(b_addrs.clone());
    let guard = net.enter();
    let mut w = World {
        guard,
        hosts: vec![
            Host {
                id: a,
                addrs: a_addrs.clone(),
            },
            Host {
                id: b,
                addrs: b_addrs.clone(),
            },
        ],
        live: Vec::new(),
        trace: Vec::new(),
    };
    let mut rng = Rng(seed.wrapping_mul(0x9E37_79B9_7F4A_7C15) | 1);

    let ports: Vec<u16> = vec![80, 5000, 49152, 49153, 65535];
    let bind_ports: Vec<u16> = vec![80, 5000, 49152, 49153, 65535, 0, 0];
    let mut ips: Vec<IpAddr> = vec![
        ip("0.0.0.0"),
        ip("::"),
        ip("127.0.0.1"),
        ip("::1"),
        ip("127.0.0.2"),
        ip("10.9.9.9"),
        ip("fd00:9::9"),
    ];
    ips.extend(a_addrs.iter().copied());
    ips.extend(b_addrs.iter().copied());
    let srcs: Vec<SocketAddr> = vec![
        "10.0.1.1:7000".parse().unwrap(),
        "10.0.0.2:7000".parse().unwrap(),
        "10.0.1.1:5000".parse().unwrap(),
        "[fd00:1::1]:7000".parse().unwrap(),
        "[fd00::2]:5000".parse().unwrap(),
        "10.9.9.9:7000".parse().unwrap(),
    ];

    for step in 0..steps {
        let host = rng.below(2);
        match rng.below(10) {
            0..=2 => {
                let addr = SocketAddr::new(rng.pick(&ips), rng.pick(&bind_ports));
                w.op_bind_udp(host, addr);
            }
            3..=5 => {
                let addr = SocketAddr::new(rng.pick(&ips), rng.pick(&bind_ports));
                w.op_bind_listener(host, addr);
            }
            6 => {
                if !w.live.is_empty() {
                    let i = rng.below(w.live.len());
                    if matches!(w.live[i].kind, Kind::Udp { .. }) {
                        let peer = rng.pick(&srcs);
                        w.op_udp_connect(i, peer);
                    }
                }
            }
            7 => {
                // keep an established connection around
                let dst = match listener_target(&w, &mut rng, host) {
                    Some(d) if rng.below(4) != 0 => d,
                    _ => SocketAddr::new(rng.pick(&ips), rng.pick(&ports)),
                };
                if !dst.ip().is_unspecified() {
                    w.tcp_probe(host, dst, true);
                }
            }
            _ => {
                if !w.live.is_empty() {
                    let i = rng.below(w.live.len());
                    w.op_close(i);
                }
            }
        }
        w.assert_tables();
        if step % 4 == 3 {
            w.probe_udp(&ports, &srcs, &[ip("10.9.9.9"), ip("fd00:9::9")]);
            w.probe_udp_local(&ports);
            w.probe_streams();
            for _ in 0..6 {
                let dst = match listener_target(&w, &mut rng, 0) {
                    Some(d) if rng.below(2) == 0 && !d.ip().is_loopback() => d,
                    _ => SocketAddr::new(rng.pick(&ips), rng.pick(&ports)),
                };
                if dst.ip().is_unspecified() || dst.ip().is_loopback() {
                    continue;
                }
                w.probe_syn(dst);
            }
            // TCP probes: every host to a sample of destinations.
            for _ in 0..6 {
                let from = rng.below(2);
                let dst = match listener_target(&w, &mut rng, from) {
                    Some(d) if rng.below(2) == 0 => d,
                    _ => SocketAddr::new(rng.pick(&ips), rng.pick(&ports)),
                };
                if dst.ip().is_unspecified() {
                    continue;
                }
                w.tcp_probe(from, dst, false);
                w.assert_tables();
            }
        }
    }
    if std::env::var("C17_STATS").is_ok() {
        let n = |pat: &str| w.trace.iter().filter(|t| t.contains(pat)).count();
        eprintln!(
            "seed {seed}: connect ok {} refused {} timedout {} | bind ok {} fail {} | udp connect {} | close {}",
            w.trace.iter().filter(|t| t.contains("tcp connect") && t.ends_with("Ok(())")).count(),
            n("ConnectionRefused"), n("TimedOut"),
            w.trace.iter().filter(|t| (t.contains(" bind ")||t.contains(" listen ")) && t.ends_with("Ok(())")).count(),
            w.trace.iter().filter(|t| (t.contains(" bind ")||t.contains(" listen ")) && !t.ends_with("Ok(())")).count(),
            n("udp") - n("udp bind"), n("close"),
        );
    }
    while !w.live.is_empty() {
        w.op_close(0);
    }
    w.assert_tables();
    for h in &w.hosts {
        assert!(turmoil_net::netstat(h.addrs[0]).entries.is_empty());
    }
    // All sockets dropped before the guard.
    let World { guard, live, .. } = w;
    drop(live);
    drop(guard);
}

#[test]
fn bind_matrix_and_demux_match_model() {
    let seeds: u64 = std::env::var("C17_SEEDS").ok().and_then(|s| s.parse().ok()).unwrap_or(40);
    for seed in 1..=seeds {
        run(seed, 60);
    }
}
